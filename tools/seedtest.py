#!/usr/bin/env python3
"""seedtest.py <id-dir under /verif/seeded> <check ids...>: apply seeded/<dir>/patch.diff to /repo, run the quick checks,
report which of them raise a VIOLATION, and restore /repo (git checkout -- .).  Never commits anything in /repo."""
import json
import os
import subprocess
import sys
import time

VERIF = os.path.dirname(os.path.dirname(os.path.abspath(__file__)))


def sh(cmd, **kw):
    return subprocess.run(cmd, shell=True, stdout=subprocess.PIPE, stderr=subprocess.STDOUT, universal_newlines=True, **kw)


def main():
    d = os.path.join(VERIF, 'seeded', sys.argv[1])
    checks = sys.argv[2:]
    tier = os.environ.get('SEED_TIER', 'quick')
    st = sh('git -C /repo status --porcelain').stdout.strip()
    if st:
        sys.exit('refusing: /repo is not clean:\n' + st)
    r = sh('git -C /repo apply %s/patch.diff' % d)
    if r.returncode != 0:
        sys.exit('patch does not apply: ' + r.stdout)
    results = {}
    try:
        for c in checks:
            t0 = time.time()
            r = sh('cd %s && timeout 3000 ./vcheck check %s --tier %s' % (VERIF, c, tier))
            lines = [l for l in r.stdout.splitlines() if l.startswith('VIOLATION')]
            results[c] = {'exit': r.returncode, 'violations': lines[:3], 'wall_s': round(time.time() - t0, 1)}
            print(c, results[c], flush=True)
            if lines:
                p = lines[0].split('replay=')[1].split()[0]
                try:
                    rep = json.load(open(p))
                    print('   why:', str(rep.get('why') or rep.get('broken') or rep.get('broken_obligation'))[:300])
                except Exception:
                    pass
    finally:
        sh('git -C /repo checkout -- .')
        # the regenerated terms are a cache of the translators' output on the tree that was just checked: back to the committed ones
        sh('git -C /verif checkout -- coq/theories/Gen')
    out = os.path.join(d, 'detection_%s.json' % tier)
    old = json.load(open(out)) if os.path.exists(out) else {}
    old.update(results)
    json.dump(old, open(out, 'w'), indent=1)


if __name__ == '__main__':
    main()
