#!/bin/bash
# seedcollect.sh <round dir> <Cxx>: copy the output of a seeding agent into seeded/<Cxx>-<name>/ (no build directories)
r=$1; id=$2
src=$r/$id/out
name=$(python3 -c "import json,sys;print(json.load(open('$src/meta.json'))['name'])")
dst=/verif/seeded/$id-$name
mkdir -p $dst
rsync -a --exclude target --exclude work --exclude '*.lock' --exclude '.git' $src/ $dst/
git -C /repo apply --check $dst/patch.diff && echo "$id-$name: patch applies" || echo "$id-$name: PATCH DOES NOT APPLY"
du -sh $dst | cut -f1
