#!/usr/bin/env python3
"""docgen.py -- grammar-directed generator of A2L documents (library + CLI).

The generator is driven ONLY by the grammar JSON written by spec_from_generated.py (there are no
hand-written per-element samples).  Everything random is drawn from the `random.Random` passed in,
so the output is a pure function of (spec, seed, options).

    spec = load_spec("/verif/build/gen/spec_shipped.json")
    rng  = random.Random(1)
    tree = gen_tree(spec, rng, GenOptions(version=(1, 71), p_optional=0.3))
    text, tokens = render(tree, rng, Layout(mode="random", comments="everywhere"))
    dev = deviate(tree, rng, "wrong_end_tag")          # dev.text, dev.tokens, dev.desc

Public API
  load_spec(path) -> Spec
  GenOptions(**kw), Layout(**kw)             option records, see the class docstrings
  gen_tree(spec, rng, opts) -> Node          a random VALID element tree rooted at A2lFile
  render(node, rng, layout) -> (text, tokens)   tokens = [(kind, text, line)], see render()
  enumerate_focus(spec, all_parents=False)   yields (type name, ancestor type chain)
  focus_versions(spec, type, chain=None)     versions at which a focus type is reachable
  sweep_plan(spec)                           [(type, chain, version)] covering every sub-element
  deviate(node, rng, kind, layout=None, spec=None) -> Deviation   exactly ONE injected fault
  gen_deviation(spec, rng, kind, opts=None, layout=None) -> Deviation   picks a suitable tree itself
  DEVIATION_KINDS, VERSIONS

Tree model
  Node(type, tag, is_block, fields=[Val..], kids=[Node..])
      type     spec type name ("Measurement"), or None for an element unknown to the grammar
               (content of IF_DATA, injected unknown elements)
      tag      the tag under which the element appears in its parent (None for the root A2lFile)
      payload  only for IF_DATA / unknown elements: the ordered mix of Val and Node that makes up
               the uninterpreted content (fields/kids then hold the same objects, split by class)
      raw      only for A2ML: the text between `/begin A2ML` and `/end A2ML`
  Val(kind, value, text, items)
      kind     int | float | ident | enum | string     -> one source token `text`; `value` is the
               meaning of the token (int, float, str; for strings the UNescaped content)
               seq | array | struct                    -> `items` is a list of Val
      ty       for int: the Rust integer type name ("u16"); for enum/struct: the spec type name

Lexical facts relied upon (from /repo/a2lfile/src/tokenizer.rs and parser.rs)
  * tokens must be separated by whitespace or by a comment; `//..` and `/*..*/` are comments
  * identifier  [A-Za-z_][A-Za-z0-9_.\\[\\]]*  (max 1024 bytes); a token that starts with a digit
    and contains a non-number character is also an Identifier token, rejected later by the parser
  * number: decimal integers (`+`/`-` sign, leading zeros allowed), `0x`/`0X` hexadecimal (parsed
    as u64 and truncated to the field type, so a negative value is written as its two's complement
    pattern), floats in Rust `f64::from_str` syntax; float fields accept hexadecimal integers
  * strings: `"`..`"` with `\\"` or `""` for a quote, `\\\\ \\n \\r \\t \\'`; raw line breaks are legal
    (the library then reports the LAST line of the token); any other `\\x` is kept verbatim
  * the text after `/begin A2ML` is raw up to the next `/end`; a comment between `/begin` and
    `A2ML` breaks that detection in the library, so none is ever placed there
  * tagged sub-elements may appear in any order; ASAP2_VERSION must be the first element of the file

Constructs that are legal A2L but rejected by the library, and therefore never generated in valid
documents (both reproduced with the pinned library, see _comment_allowed):
  * a comment between `/begin` and `A2ML`                      -> tokenizer error
  * exactly ONE comment between `/end X` and `/begin Y` inside uninterpreted IF_DATA content
                                                               -> "not followed by a valid tag"

Limitations
  * identifiers used as references are not resolved against definitions (loading does not need it;
    GenOptions.p_reuse_name makes a share of them point to defined names)
  * no `/include`, no UTF-16/32 encodings, no A2ML-conforming (interpreted) IF_DATA content
  * floats inside uninterpreted IF_DATA are not generated (the library re-reads them as integers)
  * deviate() on text input supports only "trailing_tokens"
"""

import argparse
import copy
import json
import os
import random
import string as _string
import struct as _struct
import sys

# ------------------------------------------------------------------------------------------------
# 1. constants

VERSIONS = [(1, 50), (1, 51), (1, 60), (1, 61), (1, 70), (1, 71)]
_VERSION_OF_SPEC_STRING = {"1.5.0": (1, 50), "1.5.1": (1, 51), "1.6.0": (1, 60),
                           "1.6.1": (1, 61), "1.7.0": (1, 70), "1.7.1": (1, 71)}

INT_BITS = {"u8": 8, "i8": 8, "u16": 16, "i16": 16, "u32": 32, "i32": 32, "u64": 64, "i64": 64}


def int_range(t):
    """(min, max) of the Rust integer type name `t`."""
    bits = INT_BITS[t]
    if t[0] == "u":
        return 0, (1 << bits) - 1
    return -(1 << (bits - 1)), (1 << (bits - 1)) - 1


MAX_IDENT = 1024            # parser.rs: longer identifiers are rejected

STRING_CLASSES = ("plain", "empty", "escapes", "dquote", "utf8", "rawnl", "mixed")
FLOAT_CLASSES = ("plain", "int", "exp", "neg", "zero", "tiny", "huge", "hexint", "dotform")

DEVIATION_KINDS = ("missing_required", "duplicate_single", "block_as_keyword", "keyword_as_block",
                   "unknown_enum", "too_new", "deprecated", "missing_parameter", "wrong_end_tag",
                   "unknown_keyword", "unknown_block", "trailing_tokens", "ident_for_string",
                   "digit_ident")

# Fixed, valid A2ML texts (cf. /repo/a2lfile/tests/test.rs).  Index 0 is single-line.
A2ML_TEXTS = (
    'block "IF_DATA" taggedunion if_data { "XCP" struct { uint; }; };',
    'block "IF_DATA" struct {\n  int;\n};',
    '/* a2ml comment */\nblock "IF_DATA" taggedunion if_data {\n  "XCP" struct { uint; };\n'
    '  block "BLK" taggedstruct ts { "TAG1" int; };\n};',
)


class FocusUnreachable(ValueError):
    """opts.focus cannot be generated at opts.version (or names no block/keyword type)."""


class DeviationNotApplicable(ValueError):
    """The tree offers no place where the requested fault can be injected reliably."""


# ------------------------------------------------------------------------------------------------
# 2. the grammar

class Item(object):
    """One alternative of a tagged group: `tag` introduces an element of spec type `type`."""
    __slots__ = ("tag", "type", "block", "repeat", "required", "named", "vmin", "vmax")

    def __init__(self, raw):
        self.tag = raw["tag"]
        self.type = raw["type"]
        self.block = bool(raw["block"])
        self.repeat = bool(raw["repeat"])
        self.required = bool(raw["required"])
        self.named = bool(raw["named"])
        self.vmin = _VERSION_OF_SPEC_STRING[raw["vmin"]] if raw["vmin"] else None
        self.vmax = _VERSION_OF_SPEC_STRING[raw["vmax"]] if raw["vmax"] else None

    def too_new(self, version):
        return self.vmin is not None and version < self.vmin

    def deprecated(self, version):
        return self.vmax is not None and version > self.vmax

    def usable(self, version, allow_deprecated=False):
        return not self.too_new(version) and (allow_deprecated or not self.deprecated(version))


class EnumItem(object):
    __slots__ = ("tag", "vmin", "vmax")
    too_new = Item.too_new
    deprecated = Item.deprecated
    usable = Item.usable

    def __init__(self, raw):
        self.tag = raw["tag"]
        self.vmin = _VERSION_OF_SPEC_STRING[raw["vmin"]] if raw["vmin"] else None
        self.vmax = _VERSION_OF_SPEC_STRING[raw["vmax"]] if raw["vmax"] else None


class TypeInfo(object):
    """Digest of one entry of spec["types"]."""
    __slots__ = ("name", "kind", "special", "fields", "group", "comments", "enumitems",
                 "greedy_tail", "open_ident_seq")

    def __init__(self, name, raw):
        self.name = name
        self.kind = raw["kind"]                      # block | keyword | struct | enum
        self.special = raw.get("special")            # None | "A2ml" | "IfData"
        self.comments = bool(raw.get("comments"))
        self.fields = [(i["name"], i["ty"]) for i in raw["items"] if "ty" in i]
        groups = [i for i in raw["items"] if "tagged" in i]
        if len(groups) > 1 or (groups and raw["items"][-1] is not groups[0]):
            raise ValueError("%s: a tagged group must be the single, last item" % name)
        self.group = [Item(i) for i in groups[0]["items"]] if groups else []
        self.enumitems = [EnumItem(e) for e in raw.get("enumitems", [])]
        self.greedy_tail = False        # filled in by Spec
        self.open_ident_seq = False     # filled in by Spec

    def item(self, tag):
        for it in self.group:
            if it.tag == tag:
                return it
        return None


class Spec(object):
    """The grammar.  `info[type name]` -> TypeInfo; `reserved` = every tag and enum word."""

    root = "A2lFile"

    def __init__(self, raw):
        if raw.get("failures"):
            raise ValueError("spec has translation failures: %r" % raw["failures"][:3])
        self.info = {n: TypeInfo(n, t) for n, t in sorted(raw["types"].items())}
        reserved = set()
        for ti in self.info.values():
            reserved.update(i.tag for i in ti.group)
            reserved.update(e.tag for e in ti.enumitems)
        self.reserved = frozenset(reserved)
        for ti in self.info.values():
            seqs = [ty for _, ty in ti.fields if ty["k"] == "seq"]
            ti.open_ident_seq = any(self.first_token_kind(ty) == "ident" for ty in seqs)
            # A keyword whose last field is a sequence of identifier-like items swallows a
            # following keyword tag; it may only be followed by `/begin` or `/end`.
            ti.greedy_tail = (ti.kind == "keyword" and bool(ti.fields)
                              and ti.fields[-1][1]["k"] == "seq"
                              and self.first_token_kind(ti.fields[-1][1]) == "ident")
        # parents[type] = [(parent type, Item)], in deterministic order
        self.parents = {n: [] for n in self.info}
        for pn in sorted(self.info):
            for it in self.info[pn].group:
                self.parents[it.type].append((pn, it))

    def first_token_kind(self, ty):
        """Kind of the first source token of a value of field type `ty`."""
        k = ty["k"]
        if k in ("ident", "enum"):
            return "ident"
        if k == "string":
            return "string"
        if k in ("int", "double", "float"):
            return "number"
        if k in ("seq", "array"):
            return self.first_token_kind(ty["item"])
        if k == "struct":
            return self.first_token_kind(self.info[ty["name"]].fields[0][1])
        raise ValueError("unknown field type %r" % (ty,))

    def element_types(self):
        """Names of all block/keyword types (including the specials A2ml and IfData), sorted."""
        return [n for n in sorted(self.info) if self.info[n].kind in ("block", "keyword")]


def load_spec(path):
    with open(path, "r", encoding="utf-8") as f:
        return Spec(json.load(f))


# ------------------------------------------------------------------------------------------------
# 3. options

class _Record(object):
    """Keyword-initialised record; unknown keys are an error, so typos do not pass silently."""
    _defaults = {}

    def __init__(self, **kw):
        for k, v in self._defaults.items():
            setattr(self, k, copy.copy(v))
        for k, v in kw.items():
            if k not in self._defaults:
                raise TypeError("%s: unknown option %r" % (type(self).__name__, k))
            setattr(self, k, v)

    def replace(self, **kw):
        new = copy.copy(self)
        for k, v in kw.items():
            if k not in self._defaults:
                raise TypeError("%s: unknown option %r" % (type(self).__name__, k))
            setattr(new, k, v)
        return new

    def __repr__(self):
        return "%s(%s)" % (type(self).__name__,
                           ", ".join("%s=%r" % (k, getattr(self, k)) for k in sorted(self._defaults)))


class GenOptions(_Record):
    """Options of gen_tree.

    version           one of VERSIONS; written as ASAP2_VERSION; gates elements and enum items
    allow_deprecated  also use elements / enum items with vmax < version (the library warns)
    max_depth         below this depth (A2lFile=0, PROJECT=1, MODULE=2, ..) only required elements
                      and elements on the focus path are generated
    max_repeat        a repeatable element that is present occurs 1..max_repeat times
    p_optional        probability of each optional element (per parent)
    focus             None | type name that must occur;  focus_chain: optional ancestor type chain
                      as yielded by enumerate_focus (default: shortest chain usable at `version`)
    all_optionals     False | True | "deep".  With a focus: the focus element gets every optional
                      sub-element usable at `version` ("deep": recursively).  Without a focus:
                      every element of the document does.
    shuffle           random order of sub-elements (default: grammar order)
    ifdata            None (no IF_DATA) | "empty" | "unknown" (balanced uninterpreted payload)
    a2ml              None (no A2ML block) | "simple" (one of A2ML_TEXTS)
                      A focus on IfData / A2ml switches None to "empty" / "simple".
    int_notation      "dec" | "hex" | "mixed";  p_boundary: probability of a boundary value
                      (min, max, 0, ..) per integer, and of other rare extremes (1024-byte ident)
    float_classes     subset of FLOAT_CLASSES;  string_classes: subset of STRING_CLASSES
    max_seq           sequences get 0..max_seq items;  max_string: upper bound of string atoms
    unique_names      "global": names of name-indexed elements are unique in the document;
                      "list": only within their own list (same name may recur in other lists)
    p_reuse_name      probability that a non-defining identifier field refers to a defined name
    consistent_counts heuristic: an integer field directly followed by a sequence field receives
                      the sequence length (COMPU_TAB / COMPU_VTAB / COMPU_VTAB_RANGE counts)
    """
    _defaults = dict(version=(1, 71), allow_deprecated=False, max_depth=8, max_repeat=3,
                     p_optional=0.3, focus=None, focus_chain=None, all_optionals=False,
                     shuffle=False, ifdata=None, a2ml=None, int_notation="mixed", p_boundary=0.15,
                     float_classes=FLOAT_CLASSES, string_classes=("plain", "empty"),
                     max_seq=4, max_string=12, unique_names="global", p_reuse_name=0.3,
                     consistent_counts=True)


class Layout(_Record):
    """Options of render.

    mode       "canonical": every sub-element starts on its own line, its parameters follow on the
                            same line (structured sequence items on lines of their own), `/end TAG`
                            on its own line -- the style of the library's writer
               "random":    random blanks, tabs, line breaks and blank lines between any two tokens
               "oneline":   single blanks only
    crlf       line ends are CR LF (raw line breaks inside strings stay LF)
    comments   None | "block-level" (only between the sub-elements of blocks, i.e. before a
               sub-element or before `/end`, and at file level) | "everywhere" (between any two
               tokens, except inside `/begin A2ML .. /end`)
    p_comment  probability of a comment per eligible position
    indent     canonical mode: blanks per nesting level
    bom        prefix the text with U+FEFF (the file loader strips it; load_from_string does not)
    """
    _defaults = dict(mode="canonical", crlf=False, comments=None, p_comment=0.2, indent=2,
                     bom=False)


# ------------------------------------------------------------------------------------------------
# 4. tree model

class Val(object):
    """A parameter value; see the module docstring."""
    __slots__ = ("kind", "value", "text", "items", "ty")

    def __init__(self, kind, value=None, text=None, items=None, ty=None):
        self.kind = kind
        self.value = value
        self.text = text
        self.items = items
        self.ty = ty

    def scalars(self):
        """The scalar Vals below (or equal to) this one, in source order."""
        if self.items is None:
            return [self]
        out = []
        for v in self.items:
            out.extend(v.scalars())
        return out

    def __repr__(self):
        if self.items is None:
            return "Val(%s %s)" % (self.kind, self.text)
        return "Val(%s %r)" % (self.kind, self.items)


class Node(object):
    """An element; see the module docstring."""
    __slots__ = ("type", "tag", "is_block", "fields", "kids", "payload", "raw", "end_tag",
                 "trailing")

    def __init__(self, type, tag, is_block, fields=None, kids=None, payload=None, raw=None):
        self.type = type
        self.tag = tag
        self.is_block = is_block
        self.payload = payload
        if payload is not None:
            fields = [p for p in payload if isinstance(p, Val)]
            kids = [p for p in payload if isinstance(p, Node)]
        self.fields = fields if fields is not None else []
        self.kids = kids if kids is not None else []
        self.raw = raw
        self.end_tag = None      # deviation "wrong_end_tag": tag written after /end
        self.trailing = None     # deviation "trailing_tokens" (root only): Vals after everything

    def parts(self):
        """Content in source order: Vals and Nodes."""
        if self.payload is not None:
            return self.payload
        return self.fields + self.kids

    def walk(self, parent=None):
        """Yield (node, parent) for this node and all nodes below it, in source order."""
        yield self, parent
        for k in self.kids:
            for x in k.walk(self):
                yield x

    def find(self, type_name):
        """All nodes of the given spec type."""
        return [n for n, _ in self.walk() if n.type == type_name]

    def version(self):
        """(major, minor) declared by the ASAP2_VERSION sub-element of a root node, or None."""
        for k in self.kids:
            if k.tag == "ASAP2_VERSION" and len(k.fields) == 2:
                return (k.fields[0].value, k.fields[1].value)
        return None

    def __repr__(self):
        return "Node(%s %s%s: %d fields, %d kids)" % (
            self.type, "/begin " if self.is_block else "", self.tag, len(self.fields),
            len(self.kids))


# ------------------------------------------------------------------------------------------------
# 5. scalar generators

_ID_START = _string.ascii_letters + "_"
_ID_REST = _string.ascii_letters + _string.digits + "_.[]"
_ID_WORDS = ("engine", "Speed", "rpm", "Temp", "map", "axis", "val", "Cal", "PAR", "sig", "tbl",
             "x", "e", "E10", "deadbeef", "A0", "begin", "end", "include", "_", "__0", "b",
             "Abc_1", "f32", "inf", "nan", "infinity", "NaN")
_HEX_NON_LETTERS = "ghijklmnopqrstuvwyzGHIJKLMNOPQRSTUVWYZ_"     # identifier chars that are no numchars

_STR_PLAIN = (_string.ascii_letters + _string.digits) * 2 + "     _-.,:;!?()[]{}<>=+*/%&|^~#@$`"
_STR_SNIPPETS = ("/*", "*/", "//", "/begin X", "/end X", "0x1F", "%5.2f", "a b", "'", "''",
                 "/include", " ")
_STR_UTF8 = ("\u00e4", "\u00f6", "\u00fc", "\u00df", "\u00e9", "\u00f1", "\u00b5", "\u00b0",
             "\u20ac", "\u03a9", "\u6f22", "\u5b57", "\u00a0", "e\u0301", "\U0001d11e",
             "\U0001f600", "\U00010348")            # 2-, 3- and 4-byte UTF-8, a combining mark
# (meaning, source) pairs of the escape class
_STR_ESCAPES = (('"', '\\"'), ("\\", "\\\\"), ("\n", "\\n"), ("\t", "\\t"), ("\r", "\\r"),
                ("'", "\\'"), ("''", "''"))
_STR_DQUOTE = (('"', '""'),)
_STR_RAW = (("\n", "\n"), ("\t", "\t"), ("\n\n", "\n\n"))

_PAYLOAD_TAGS = ("XCP", "CAN", "DAQ", "EVENT", "SEGMENT", "PAGE", "PROTOCOL_LAYER", "ETK",
                 "CHECKSUM", "ASAP1B_CCP", "TP_BLOB", "QP_BLOB", "RASTER")


class _Gen(object):
    """State of one gen_tree call."""

    def __init__(self, spec, rng, opts):
        if tuple(opts.version) not in VERSIONS:
            raise ValueError("version must be one of %r" % (VERSIONS,))
        self.spec = spec
        self.rng = rng
        self.opts = opts
        self.version = tuple(opts.version)
        self.counter = 0            # makes defined names unique
        self.used_global = set()    # defined names (unique_names == "global")
        self.pool = []              # defined names, for references

    # -- identifiers ---------------------------------------------------------------------------
    def ident_text(self, forbid=()):
        """A random identifier that is no reserved word of the grammar and not in `forbid`."""
        rng = self.rng
        while True:
            r = rng.random()
            if r < 0.45:
                s = rng.choice(_ID_WORDS)
                if rng.random() < 0.5:
                    s += rng.choice(("_", "", ".")) + rng.choice(_ID_WORDS)
            elif r < 0.65:
                s = rng.choice(_ID_WORDS) + "".join(
                    rng.choice((".%s" % rng.choice(_ID_WORDS), "[%d]" % rng.randrange(20)))
                    for _ in range(rng.randint(1, 3)))
            elif r < 0.95 or rng.random() >= self.opts.p_boundary:
                s = rng.choice(_ID_START) + "".join(
                    rng.choice(_ID_REST) for _ in range(rng.randint(0, 12)))
            else:
                s = rng.choice(_ID_START) + "".join(
                    rng.choice(_ID_REST) for _ in range(MAX_IDENT - 1))
            if s not in self.spec.reserved and s not in forbid:
                return s

    def defining_name(self, local_used):
        """An identifier for the `name` of a name-indexed element, unique in its namespace."""
        used = self.used_global if self.opts.unique_names == "global" else local_used
        while True:
            s = self.ident_text()
            if self.rng.random() < 0.7 or s in used:
                self.counter += 1
                s = "%s_%d" % (s[:MAX_IDENT - 12], self.counter)
            if s not in used and s not in self.spec.reserved:
                used.add(s)
                local_used.add(s)
                self.pool.append(s)
                return s

    def reference(self, forbid=()):
        """An identifier for a non-defining field: sometimes the name of a defined element."""
        if self.pool and self.rng.random() < self.opts.p_reuse_name:
            s = self.rng.choice(self.pool)
            if s not in forbid:
                return s
        return self.ident_text(forbid)

    # -- integers ------------------------------------------------------------------------------
    def int_val(self, t, value=None):
        lo, hi = int_range(t)
        rng = self.rng
        if value is None:
            r = rng.random()
            if r < self.opts.p_boundary:
                value = rng.choice([lo, hi, 0, 1, lo + 1, hi - 1] + ([-1] if lo < 0 else []))
            elif r < 0.65:
                value = rng.randint(max(lo, -20), min(hi, 300))
            else:
                value = rng.randint(lo, hi)
        return Val("int", value, self.int_text(value, t), ty=t)

    def int_text(self, v, t):
        """Source text of integer `v` of type `t` in the configured notation."""
        rng = self.rng
        notation = self.opts.int_notation
        use_hex = notation == "hex" or (notation == "mixed" and rng.random() < 0.35)
        if use_hex:
            bits = INT_BITS[t]
            digits = "%x" % (v & ((1 << bits) - 1))       # two's complement pattern if v < 0
            if rng.random() < 0.2:
                digits = digits.rjust(bits // 4, "0")
            r = rng.random()
            if r < 0.5:
                digits = digits.upper()
            elif r < 0.6:
                digits = "".join(rng.choice((c.upper(), c)) for c in digits)
            return ("0X" if rng.random() < 0.15 else "0x") + digits
        s = str(v)
        if notation == "mixed" and v >= 0 and rng.random() < 0.04:
            s = rng.choice(("+", "0", "00")) + s           # "+5", "05": accepted by Rust's parse
        return s

    # -- floats --------------------------------------------------------------------------------
    def float_val(self, single=False):
        """A finite float.  `single`: the field is an f32, keep the magnitude inside its range."""
        rng = self.rng
        cls = rng.choice(self.opts.float_classes)
        max_exp = 30 if single else 300

        def mantissa():
            frac = "".join(rng.choice(_string.digits) for _ in range(rng.randint(0, 6)))
            return "%d.%s" % (rng.randint(1, 9), frac) if frac or rng.random() < 0.3 \
                else str(rng.randint(1, 9))

        def exp(k, sign):
            return "%s%s%s%d" % (mantissa(), rng.choice("eE"), sign, k)

        if cls == "plain":
            text = "%.*f" % (rng.randint(1, 6), rng.uniform(0, 10000))
        elif cls == "int":
            text = str(rng.randint(-100000, 100000))
        elif cls == "exp":
            k = rng.randint(-20, 20)
            text = exp(abs(k), "-" if k < 0 else rng.choice(("", "+")))
        elif cls == "neg":
            text = "-%.*f" % (rng.randint(0, 5), rng.uniform(0, 5000))
        elif cls == "zero":
            text = rng.choice(("0", "0.0", "-0", "-0.0", "0e0", ".0", "0.", "00.00", "+0", "0E-5"))
        elif cls == "tiny":
            k = rng.randint(5, max_exp)
            text = exp(k, "-") if rng.random() < 0.7 or k > 20 \
                else "0.%s%d" % ("0" * k, rng.randint(1, 99))
        elif cls == "huge":
            k = rng.randint(11, max_exp)
            text = exp(k, rng.choice(("", "+"))) if rng.random() < 0.7 or k > 25 \
                else "%d%s" % (rng.randint(1, 9), "".join(rng.choice(_string.digits) for _ in range(k)))
        elif cls == "hexint":
            digits = "%x" % rng.getrandbits(rng.choice((4, 8, 16, 24) if single else (4, 8, 16, 32, 64)))
            text = rng.choice(("0x", "0x", "0X")) + rng.choice((digits, digits.upper()))
        elif cls == "dotform":
            text = rng.choice(("%d.", ".%d", "+%d.5", "-.%d", "+.%d", "-%d.")) % rng.randint(0, 999)
        else:
            raise ValueError("unknown float class %r" % cls)
        if rng.random() < 0.1 and text[0] not in "+-" and not text[:2].lower() == "0x":
            text = "-" + text
        value = float(int(text, 16)) if text[:2].lower() == "0x" else float(text)
        if single:
            value = _struct.unpack("f", _struct.pack("f", value))[0]
        return Val("float", value, text)

    # -- strings -------------------------------------------------------------------------------
    def string_val(self):
        """A string of one of the configured content classes (mixed with plain characters)."""
        rng = self.rng
        cls = rng.choice(self.opts.string_classes)
        if cls == "empty":
            return Val("string", "", '""')
        special = {"plain": (), "escapes": _STR_ESCAPES, "dquote": _STR_DQUOTE,
                   "utf8": tuple((c, c) for c in _STR_UTF8), "rawnl": _STR_RAW,
                   # escape sequences, doubled quotes and multi-byte characters in ONE string (a reader that handles escapes byte
                   # by byte, or multi-byte characters only on the path without escapes, shows here); also comment markers
                   "mixed": _STR_ESCAPES + _STR_DQUOTE + tuple((c, c) for c in _STR_UTF8) + (("//", "//"), ("/*", "/*"), ("*/", "*/"))}[cls]
        meaning, source = [], []
        for _ in range(rng.randint(1, max(1, self.opts.max_string))):
            r = rng.random()
            if special and r < 0.45:
                m, s = rng.choice(special)
            elif r < 0.9:
                m = s = rng.choice(_STR_PLAIN)
            else:
                m = s = rng.choice(_STR_SNIPPETS)
            meaning.append(m)
            source.append(s)
        return Val("string", "".join(meaning), '"%s"' % "".join(source))

    # -- any field type ------------------------------------------------------------------------
    def enum_val(self, enum_name):
        items = [e for e in self.spec.info[enum_name].enumitems
                 if e.usable(self.version, self.opts.allow_deprecated)]
        tag = self.rng.choice(items).tag
        return Val("enum", tag, tag, ty=enum_name)

    def field_val(self, ty, forbid=()):
        """A value of spec field type `ty`.  `forbid`: identifiers that must not be produced."""
        k = ty["k"]
        if k == "int":
            return self.int_val(ty["t"])
        if k == "double":
            return self.float_val()
        if k == "float":
            return self.float_val(single=True)
        if k == "ident":
            s = self.reference(forbid)
            return Val("ident", s, s)
        if k == "string":
            return self.string_val()
        if k == "enum":
            return self.enum_val(ty["name"])
        if k == "struct":
            return Val("struct", ty=ty["name"], items=[
                self.field_val(fty, forbid) for _, fty in self.spec.info[ty["name"]].fields])
        if k == "array":
            return Val("array", items=[self.field_val(ty["item"], forbid)
                                       for _ in range(ty["dim"])])
        if k == "seq":
            stop = tuple(ty.get("stop") or ()) + tuple(forbid)
            return Val("seq", items=[self.field_val(ty["item"], stop)
                                     for _ in range(self.rng.randint(0, self.opts.max_seq))])
        raise ValueError("unknown field type %r" % (ty,))

    # -- uninterpreted IF_DATA content ---------------------------------------------------------
    def payload(self, depth, top=False):
        """A balanced list of Val / unknown block Nodes as accepted by parse_unknown_ifdata."""
        rng = self.rng
        out = []
        if top and rng.random() < 0.85:
            tag = rng.choice(_PAYLOAD_TAGS)
            out.append(Val("ident", tag, tag))
        for _ in range(rng.randint(0, 5)):
            r = rng.random()
            if r < 0.25:
                # any identifier, occasionally a word of the A2L grammar itself
                s = rng.choice(sorted(self.spec.reserved)) if rng.random() < 0.1 else self.ident_text()
                out.append(Val("ident", s, s))
            elif r < 0.55:
                # decimal within i32 or a hexadecimal pattern of at most 32 bit: the library
                # stores these as i32 (wider values are not preserved)
                out.append(self.int_val("i32"))
            elif r < 0.72:
                out.append(self.string_val())
            elif depth < 3:
                tag = rng.choice(_PAYLOAD_TAGS)          # never "A2ML": that switches the tokenizer
                if rng.random() < 0.3:
                    tag += "_%d" % rng.randrange(10)
                out.append(Node(None, tag, True, payload=self.payload(depth + 1)))
        return out


# ------------------------------------------------------------------------------------------------
# 6. tree generation

def _usable_path(spec, target, version, allow_deprecated, chain=None):
    """Type names from the root to `target` such that every step is usable at `version`.
    With `chain` (ancestor type names, root first) that path is checked instead of searched.
    Returns None if there is none."""
    def step(parent, child):
        for it in spec.info[parent].group:
            if it.type == child and it.usable(version, allow_deprecated):
                return it
        return None

    if chain is not None:
        path = list(chain) + [target]
        if path[0] != spec.root or any(step(a, b) is None for a, b in zip(path, path[1:])):
            return None
        return path
    # breadth first search from the root; grammar order makes the result deterministic
    prev = {spec.root: None}
    queue = [spec.root]
    while queue:
        cur = queue.pop(0)
        if cur == target:
            path = []
            while cur is not None:
                path.append(cur)
                cur = prev[cur]
            return path[::-1]
        for it in spec.info[cur].group:
            if it.type not in prev and it.usable(version, allow_deprecated):
                prev[it.type] = cur
                queue.append(it.type)
    return None


def gen_tree(spec, rng, opts=None):
    """A random valid element tree rooted at A2lFile, see GenOptions."""
    opts = opts or GenOptions()
    g = _Gen(spec, rng, opts)
    path = None
    if opts.focus is not None:
        ti = spec.info.get(opts.focus)
        if ti is None or ti.kind not in ("block", "keyword"):
            raise FocusUnreachable("%r is no block/keyword type" % (opts.focus,))
        path = _usable_path(spec, opts.focus, g.version, opts.allow_deprecated, opts.focus_chain)
        if path is None:
            raise FocusUnreachable("%s is not reachable at version %r; usable versions: %r" % (
                opts.focus, g.version, focus_versions(spec, opts.focus, opts.focus_chain)))
    everything = bool(opts.all_optionals) and opts.focus is None
    return _gen_node(g, spec.root, None, False, 0, path, everything)


def _gen_node(g, type_name, tag, is_block, depth, path, all_optionals, name_space=None):
    """Generate one element of spec type `type_name`.

    path           remaining focus path, path[0] == type_name, or None if this element is not on it
    all_optionals  this element receives every usable optional sub-element
    name_space     set of names already defined in the list this element belongs to (named items)
    """
    spec, rng, opts = g.spec, g.rng, g.opts
    ti = spec.info[type_name]
    is_focus = path is not None and len(path) == 1
    if is_focus and opts.all_optionals:
        all_optionals = True
    below_deep = all_optionals and (opts.all_optionals == "deep" or opts.focus is None)

    if ti.special == "A2ml":
        return Node(type_name, tag, is_block, raw=rng.choice(A2ML_TEXTS))
    if ti.special == "IfData":
        mode = opts.ifdata or "empty"
        return Node(type_name, tag, is_block,
                    payload=g.payload(0, top=True) if mode == "unknown" else [])

    # parameters
    fields = []
    for i, (fname, fty) in enumerate(ti.fields):
        if i == 0 and name_space is not None and fname == "name" and fty["k"] == "ident":
            s = g.defining_name(name_space)
            fields.append(Val("ident", s, s))
        else:
            fields.append(g.field_val(fty))
    if opts.consistent_counts:
        for a, b in zip(fields, fields[1:]):
            if a.kind == "int" and b.kind == "seq" and len(b.items) <= int_range(a.ty)[1]:
                a.value = len(b.items)
                a.text = g.int_text(a.value, a.ty)
    if type_name == "Asap2Version" and [n for n, _ in ti.fields] == ["version_no", "upgrade_no"]:
        for f, v in zip(fields, g.version):
            f.value, f.text = v, str(v)

    # sub-elements
    kids = []
    for it in ti.group:
        on_path = path is not None and len(path) > 1 and path[1] == it.type
        forced = on_path or it.required or (type_name == spec.root and it.tag == "ASAP2_VERSION")
        if not forced:
            if not it.usable(g.version, opts.allow_deprecated):
                continue
            special = spec.info[it.type].special
            if special == "IfData" and opts.ifdata is None:
                continue
            if special == "A2ml" and opts.a2ml is None:
                continue
            if not all_optionals and (depth >= opts.max_depth or rng.random() >= opts.p_optional):
                continue
        count = rng.randint(1, max(1, opts.max_repeat)) if it.repeat else 1
        names = set() if it.named else None
        for n in range(count):
            kid_path = path[1:] if (on_path and n == 0) else None
            kids.append(_gen_node(g, it.type, it.tag, it.block, depth + 1, kid_path,
                                  below_deep, names))
    return Node(type_name, tag, is_block, fields, _order_kids(g, type_name, kids))


def _order_kids(g, type_name, kids):
    """Grammar order, or a random order if opts.shuffle -- subject to two constraints:
    ASAP2_VERSION stays the first element of the file, and a 'greedy' keyword (one that ends in an
    open identifier sequence, e.g. FRAME_MEASUREMENT) is only followed by a block or by nothing."""
    spec = g.spec
    if g.opts.shuffle:
        g.rng.shuffle(kids)
        if type_name == spec.root:
            kids.sort(key=lambda k: k.tag != "ASAP2_VERSION")        # stable: only moves that one
    def is_greedy(k):
        return not k.is_block and k.type is not None and spec.info[k.type].greedy_tail

    greedy = [(i, k) for i, k in enumerate(kids) if is_greedy(k)]
    if not greedy:
        return kids
    out = [k for k in kids if not is_greedy(k)]
    for orig, k in greedy:
        # safe places: directly before a block, or the very end; never directly after another
        # greedy keyword
        slots = [i for i, r in enumerate(out) if r.is_block and (i == 0 or not is_greedy(out[i - 1]))]
        if not out or not is_greedy(out[-1]):
            slots.append(len(out))
        if not slots:
            continue                        # no safe place: this (optional) element is dropped
        later = [i for i in slots if i >= orig]
        out.insert(g.rng.choice(slots) if g.opts.shuffle else (later[0] if later else slots[-1]), k)
    return out


# ------------------------------------------------------------------------------------------------
# 7. focus enumeration

def enumerate_focus(spec, all_parents=False):
    """Yield (type name, chain) for every block/keyword type except the root.  `chain` is the tuple
    of ancestor type names, root first, of the shortest way to reach the type (version limits
    ignored; see focus_versions).  With all_parents=True one pair per distinct direct parent.
    Use as GenOptions(focus=type, focus_chain=chain)."""
    shortest = {spec.root: ()}
    queue = [spec.root]
    while queue:
        cur = queue.pop(0)
        for it in spec.info[cur].group:
            if it.type not in shortest:
                shortest[it.type] = shortest[cur] + (cur,)
                queue.append(it.type)
    for name in spec.element_types():
        if name == spec.root or name not in shortest:
            continue
        if not all_parents:
            yield name, shortest[name]
        else:
            for parent in sorted(set(p for p, _ in spec.parents[name])):
                if parent in shortest:
                    yield name, shortest[parent] + (parent,)


def focus_versions(spec, type_name, chain=None, allow_deprecated=False):
    """The versions at which `type_name` can be generated (via `chain` if given)."""
    return [v for v in VERSIONS
            if _usable_path(spec, type_name, v, allow_deprecated, chain) is not None]


def sweep_plan(spec, all_parents=False):
    """[(type, chain, version)] such that generating each entry with all_optionals=True covers
    every element type and, for each type, every sub-element and enum-independent optional: the
    newest usable version first, then older versions for sub-elements that are deprecated there."""
    plan = []
    for name, chain in enumerate_focus(spec, all_parents):
        versions = focus_versions(spec, name, chain)
        if not versions:
            continue
        missing = set(it.tag for it in spec.info[name].group)
        for v in reversed(versions):
            covered = set(it.tag for it in spec.info[name].group if it.usable(v))
            if v == versions[-1] or covered & missing:
                plan.append((name, chain, v))
                missing -= covered
    return plan


# ------------------------------------------------------------------------------------------------
# 8. rendering

class _Tok(object):
    """A source token with layout hints.

    kind   begin | end | ident | string | number | a2ml
    role   open    first token of a sub-element (`/begin`, or the tag of a keyword)
           tag     the tag after `/begin`
           field   a parameter token;  row: a parameter token that starts a structured sequence item
           close   `/end`;  endtag: the tag after `/end`
           raw     the A2ML text;  trailing: injected tokens after the end of the document
    depth  nesting level (sub-elements of the file have depth 0)
    owner  the Node (structure tokens) or scalar Val (parameter tokens) the token stems from
    """
    __slots__ = ("kind", "text", "role", "depth", "owner", "line")

    def __init__(self, kind, text, role, depth, owner):
        self.kind = kind
        self.text = text
        self.role = role
        self.depth = depth
        self.owner = owner
        self.line = 0


_TOKEN_KIND_OF_VAL = {"int": "number", "float": "number", "ident": "ident", "enum": "ident",
                      "string": "string"}


def _flatten_val(val, depth, out, role="field"):
    if val.items is None:
        out.append(_Tok(_TOKEN_KIND_OF_VAL[val.kind], val.text, role, depth, val))
        return
    for item in val.items:
        start = len(out)
        _flatten_val(item, depth, out)
        if val.kind == "seq" and item.kind == "struct" and len(out) > start:
            out[start].role = "row"


def _flatten(node, depth, out):
    """Append the tokens of `node` to `out`."""
    inner = depth
    if node.tag is not None:                      # the root has no tag of its own
        inner = depth + 1
        if node.is_block:
            out.append(_Tok("begin", "/begin", "open", depth, node))
            out.append(_Tok("ident", node.tag, "tag", depth, node))
        else:
            out.append(_Tok("ident", node.tag, "open", depth, node))
    if node.raw is not None:
        out.append(_Tok("a2ml", node.raw, "raw", inner, node))
    for part in node.parts():
        if isinstance(part, Node):
            _flatten(part, inner, out)
        else:
            _flatten_val(part, inner, out)
    if node.tag is not None and node.is_block:
        out.append(_Tok("end", "/end", "close", depth, node))
        out.append(_Tok("ident", node.end_tag or node.tag, "endtag", depth, node))
    for val in node.trailing or ():
        _flatten_val(val, 0, out, "trailing")


_BOM = "\ufeff"
_COMMENT_WORDS = ("note", "TODO", "/begin FOO", "/end FOO", '"quoted"', "//", "/ *", "0x12",
                  "generated", "über", "漢字", "* /", "'", "ASAP2_VERSION 1 60", "\\")


def _comment(rng, eol, multiline_ok):
    """(text, needs_eol): a `//` comment (must be followed by a line end) or a `/* */` comment."""
    body = " ".join(rng.choice(_COMMENT_WORDS) for _ in range(rng.randint(0, 4)))
    if multiline_ok and rng.random() < 0.4:
        return "//" + body, True
    if multiline_ok and rng.random() < 0.35:
        lines = [body] + [" ".join(rng.choice(_COMMENT_WORDS) for _ in range(rng.randint(0, 3)))
                          for _ in range(rng.randint(1, 3))]
        body = (eol + rng.choice(("", " * ", "   "))).join(lines)
    # The interior must not contain `*/`.  (`/*/` does not close a comment, `/**/` does.)
    interior = (rng.choice(("%s", " %s ", "*%s*")) % body).replace("*/", "* /")
    return "/*" + interior + "*/", False


def _random_ws(rng, eol):
    r = rng.random()
    if r < 0.45:
        return " "
    if r < 0.55:
        return " " * rng.randint(2, 6)
    if r < 0.65:
        return "\t" * rng.randint(1, 2)
    if r < 0.85:
        return eol + " " * rng.randint(0, 8)
    if r < 0.93:
        return eol * rng.randint(2, 3) + "\t" * rng.randint(0, 2)
    return " \t" + eol + "  "


def _comment_allowed(layout, spec_has_group, toks, i):
    """May a comment be placed before toks[i] (i == len(toks): at the end of the text)?"""
    if layout.comments is None:
        return False
    if i == len(toks):
        return True
    tok = toks[i]
    prev = toks[i - 1] if i > 0 else None
    if tok.role == "raw" or (prev is not None and prev.role == "raw"):
        return False                               # inside `/begin A2ML .. /end`: raw text
    if tok.role == "tag" and tok.owner.raw is not None:
        return False                               # `/begin <comment> A2ML` defeats the tokenizer
    if (tok.kind == "begin" and tok.owner.type is None and prev is not None
            and prev.role == "endtag"):
        # Library quirk (ifdata.rs, parse_unknown_taggedstruct): inside uninterpreted IF_DATA
        # content exactly one comment between `/end X` and `/begin Y` is a parse error.
        return False
    if layout.comments == "everywhere":
        return True
    if tok.role == "open":
        return True                                # before a sub-element
    if tok.role == "close":
        return spec_has_group(tok.owner)           # before /end of a block that has sub-elements
    return False


def render(node, rng, layout=None, spec=None):
    """Source text of the tree.  Returns (text, tokens).

    tokens = [(kind, text, line)] for all significant tokens in order (comments excluded);
    kind is begin | end | ident | string | number | a2ml, line is the 1-based line on which the
    token STARTS (for a string with raw line breaks the library reports the line on which it ends:
    add text.count("\\n")).  The single `a2ml` token is the raw A2ML text; as in the library its
    line is that of the preceding `A2ML` identifier.

    `spec` is only used by comments == "block-level" to tell blocks with sub-elements (comments
    before their `/end` are kept by the library) from blocks without; when omitted, such comments
    are placed in front of sub-elements only.
    """
    layout = layout or Layout()
    text, toks = _render(node, rng, layout, spec)
    return text, [(t.kind, t.text, t.line) for t in toks]


def _render(node, rng, layout, spec=None):
    """render() returning the _Tok records (with their lines filled in)."""
    toks = []
    _flatten(node, 0, toks)
    eol = "\r\n" if layout.crlf else "\n"
    mode = layout.mode
    if mode not in ("canonical", "random", "oneline"):
        raise ValueError("unknown layout mode %r" % (mode,))
    if layout.comments not in (None, "block-level", "everywhere"):
        raise ValueError("unknown comment mode %r" % (layout.comments,))

    def has_group(n):
        if n.payload is not None:
            return True                            # IF_DATA content: comments are skipped
        return spec is not None and n.type in spec.info and bool(spec.info[n.type].group)

    out = [_BOM] if layout.bom else []
    line = 1

    def emit(s):
        nonlocal line
        out.append(s)
        line += s.count("\n")

    def started():
        return bool(out) and out != [_BOM]

    def comments_before(indent):
        """Emit 1..2 comments.  Returns True if the next token may follow without whitespace
        (random mode: a comment separates tokens by itself)."""
        glued = False
        for _ in range(rng.randint(1, 2)):
            text, needs_eol = _comment(rng, eol, mode != "oneline")
            if mode == "canonical":
                emit((eol if started() else "") + indent + text)      # on a line of its own
            elif mode == "oneline":
                emit((" " if started() else "") + text)
            else:
                emit(("" if rng.random() < 0.25 else _random_ws(rng, eol)) + text)
                if needs_eol:
                    emit(eol)
                glued = needs_eol or rng.random() < 0.25
        return glued

    for i, tok in enumerate(toks):
        indent = " " * (layout.indent * tok.depth)
        glued = commented = False
        if _comment_allowed(layout, has_group, toks, i) and rng.random() < layout.p_comment:
            glued = comments_before(indent)
            commented = True
        if mode == "canonical":
            if tok.role in ("open", "close", "raw", "row") or commented:
                sep = (eol + indent) if started() else ""
            else:
                sep = " "
        elif mode == "oneline":
            sep = " " if started() else ""
        elif glued:
            sep = ""
        else:
            sep = _random_ws(rng, eol) if (started() or rng.random() < 0.3) else ""
        if tok.role == "raw":
            # The library's raw token starts right after the identifier `A2ML`, on its line.
            tok.line = line
            body = tok.text.split("\n")
            if mode == "oneline":
                tok.text = " ".join(body)
            elif mode == "canonical":
                tok.text = (eol + indent).join(body)
            else:
                tok.text = eol.join(body)
            emit(sep or " ")
            emit(tok.text)
            continue
        emit(sep)
        tok.line = line
        emit(tok.text)

    if _comment_allowed(layout, has_group, toks, len(toks)) and rng.random() < layout.p_comment:
        comments_before("")
    if mode == "canonical":
        emit(eol)
    elif mode == "random" and rng.random() < 0.7:
        emit(_random_ws(rng, eol))
    return "".join(out), toks


# ------------------------------------------------------------------------------------------------
# 9. deviations: a valid tree with exactly one injected fault

class Deviation(object):
    """Result of deviate(): `node` (faulty tree), `text`, `tokens` (as render) and
    desc = {"kind", "tag", "parent", "line", "end_line", "detail"}:
        tag       tag of the element that carries the fault (the missing / duplicated / unknown
                  element, or the element whose parameter or end tag was altered)
        parent    tag of the enclosing element ("A2L_FILE" at file level)
        line      line of the first token of the fault; for faults that REMOVE something: the line
                  of the token at which the omission becomes apparent (the next token)
        end_line  line of the last token of the faulty element (the library mostly reports the
                  line of the last token it consumed, which is one of the two)
    """
    __slots__ = ("node", "text", "tokens", "desc")

    def __init__(self, node, text, tokens, desc):
        self.node, self.text, self.tokens, self.desc = node, text, tokens, desc


def _typed(spec, node):
    """TypeInfo of an ordinary (non-special, known) element, else None."""
    ti = spec.info.get(node.type) if node.type is not None else None
    return ti if ti is not None and ti.special is None else None


def _fixed_scalar_fields(spec, node, kinds):
    """Scalar Vals of `node` that are plain (non sequence) parameters of one of `kinds`."""
    return [f for f in node.fields if f.items is None and f.kind in kinds]


def _new_subtree(spec, rng, version, item):
    """A valid element for tagged item `item`, generated under the rules of `version`."""
    g = _Gen(spec, rng, GenOptions(version=version, p_optional=0.2, max_repeat=1, max_depth=2))
    return _gen_node(g, item.type, item.tag, item.block, 0, None, False,
                     set() if item.named else None)


def _safe_keyword_slots(spec, node):
    """Positions in node.kids where an unknown KEYWORD can be inserted without being swallowed by
    a preceding open identifier sequence."""
    ti = spec.info[node.type]
    slots = []
    for pos in range(len(node.kids) + 1):
        if pos == 0:
            if not ti.open_ident_seq:
                slots.append(pos)
        else:
            prev = node.kids[pos - 1]
            if prev.is_block or prev.type is None or not spec.info[prev.type].greedy_tail:
                slots.append(pos)
    return slots


def deviate(node, rng, kind, layout=None, spec=None):
    """Copy the valid tree `node`, inject exactly one fault of `kind` (see DEVIATION_KINDS) and
    render it.  Returns a Deviation; raises DeviationNotApplicable if the tree has no suitable
    place (gen_deviation() chooses a suitable tree itself).

    A str instead of a Node is accepted for kind "trailing_tokens" only (text level fault).

    What each kind does
      missing_required   removes a required sub-element (PROJECT, or every MODULE of PROJECT)
      duplicate_single   repeats a sub-element that may occur only once
      block_as_keyword   writes a block without `/begin` .. `/end TAG`
      keyword_as_block   wraps a keyword in `/begin` .. `/end TAG`
      unknown_enum       replaces an enum parameter by a word that is no item of the enum
      too_new            adds a sub-element, or sets an enum item, introduced after the declared version
      deprecated         adds a sub-element, or sets an enum item, removed before the declared version
      missing_parameter  drops one fixed parameter of an element whose parameters are followed by
                         `/begin` or `/end` (so the omission cannot be absorbed by what follows)
      wrong_end_tag      `/end OTHER`
      unknown_keyword    inserts `UNKNOWN_KEYWORD_n <numbers/strings>` between sub-elements
      unknown_block      inserts `/begin UNKNOWN_BLOCK_n .. /end UNKNOWN_BLOCK_n`
      trailing_tokens    appends tokens after the end of the document
      ident_for_string   writes an identifier where a string parameter is expected
      digit_ident        writes an identifier that starts with a digit (`2nd_name`)
    """
    if kind not in DEVIATION_KINDS:
        raise ValueError("unknown deviation kind %r" % (kind,))
    layout = layout or Layout()
    if isinstance(node, str):
        if kind != "trailing_tokens":
            raise DeviationNotApplicable("text input supports only trailing_tokens")
        extra = rng.choice(("42", '"trailing"', "TRAILING_WORD", "/end PROJECT", "0x1F abc"))
        text = node.rstrip() + "\n" + extra + "\n"
        line = text.count("\n")
        return Deviation(None, text, None, dict(kind=kind, tag=None, parent="A2L_FILE", line=line,
                                                end_line=line, detail=extra))
    if spec is None:
        raise ValueError("deviate() needs the spec for tree input")

    root = copy.deepcopy(node)
    version = root.version()
    nodes = list(root.walk())                       # [(node, parent)]

    def parent_tag(p):
        return "A2L_FILE" if p is None or p.tag is None else p.tag

    # the fault is located by object identity in the rendered token list:
    where = None        # ("first"|"last"|"close"|"endtag"|"next", Val-or-Node)
    span = None         # Node whose last token gives end_line (default: derived from `where`)
    detail = ""

    def pick(cands, what):
        if not cands:
            raise DeviationNotApplicable("%s: %s" % (kind, what))
        return rng.choice(cands)

    if kind == "missing_required":
        cands = []
        for n, _ in nodes:
            ti = _typed(spec, n)
            for it in (ti.group if ti else ()):
                if it.required and any(k.tag == it.tag for k in n.kids):
                    cands.append((n, it))
        n, it = pick(cands, "no required sub-element present")
        n.kids = [k for k in n.kids if k.tag != it.tag]
        tag, parent = it.tag, n
        where = ("close", n) if n.tag is not None else ("eof", None)
        detail = "removed every %s" % it.tag

    elif kind == "duplicate_single":
        cands = []
        for n, _ in nodes:
            ti = _typed(spec, n)
            for k in (n.kids if ti else ()):
                it = ti.item(k.tag)
                # ASAP2_VERSION is excluded: it is read twice by the library (version probe)
                if it is not None and not it.repeat and k.tag != "ASAP2_VERSION" \
                        and not spec.info[it.type].greedy_tail:
                    cands.append((n, k))
        n, k = pick(cands, "no non-repeatable sub-element present")
        dup = copy.deepcopy(k)
        n.kids.insert(n.kids.index(k) + 1, dup)
        tag, parent, where, span = k.tag, n, ("first", dup), dup

    elif kind in ("block_as_keyword", "keyword_as_block"):
        want_block = kind == "block_as_keyword"
        cands = [(n, p) for n, p in nodes
                 if p is not None and _typed(spec, n) and _typed(spec, p) and n.is_block == want_block
                 and not spec.info[n.type].greedy_tail and n.tag != "ASAP2_VERSION"]
        n, p = pick(cands, "no such sub-element")
        n.is_block = not n.is_block
        tag, parent, where, span = n.tag, p, ("first", n), n

    elif kind == "unknown_enum":
        cands = [(n, p, f) for n, p in nodes if _typed(spec, n)
                 for f in _fixed_scalar_fields(spec, n, ("enum",))]
        n, p, f = pick(cands, "no enum parameter")
        detail = "%s -> " % f.text
        f.value = f.text = rng.choice(("NOT_AN_ENUM_ITEM", f.text + "_X", f.text.lower() + "x"))
        detail += f.text
        tag, parent, where, span = n.tag, p, ("first", f), None

    elif kind in ("too_new", "deprecated"):
        if version is None:
            raise DeviationNotApplicable("tree declares no version")

        def bad(x):
            return x.too_new(version) if kind == "too_new" else x.deprecated(version)

        cands = []
        for n, p in nodes:
            ti = _typed(spec, n)
            if not ti:
                continue
            for it in ti.group:
                if bad(it) and (it.repeat or not any(k.tag == it.tag for k in n.kids)) \
                        and spec.info[it.type].special is None:
                    cands.append(("item", n, p, it))
            for f in n.fields:
                for s in f.scalars():
                    if s.kind == "enum":
                        for e in spec.info[s.ty].enumitems:
                            if bad(e):
                                cands.append(("enum", n, p, (s, e)))
        what, n, p, x = pick(cands, "nothing %s at version %r in this tree" % (kind, version))
        if what == "item":
            new = _new_subtree(spec, rng, version, x)
            slots = _safe_keyword_slots(spec, n) if not new.is_block else list(range(len(n.kids) + 1))
            if n.tag is None:
                slots = [s for s in slots if s > 0]            # ASAP2_VERSION stays first
            n.kids.insert(pick(slots, "no safe position"), new)
            tag, parent, where, span = x.tag, n, ("first", new), new
            detail = "element %s (vmin %r, vmax %r)" % (x.tag, x.vmin, x.vmax)
        else:
            s, e = x
            detail = "enum item %s -> %s (vmin %r, vmax %r)" % (s.text, e.tag, e.vmin, e.vmax)
            s.value = s.text = e.tag
            tag, parent, where = n.tag, p, ("first", s)

    elif kind == "missing_parameter":
        # candidates are verified on the token stream: the element's last parameter token must be
        # followed by /begin or /end
        toks = []
        _flatten(root, 0, toks)
        follower = {}
        for i, t in enumerate(toks):
            if t.role in ("field", "row") and i + 1 < len(toks):
                follower[id(t.owner)] = toks[i + 1]
        cands = []
        for n, p in nodes:
            ti = _typed(spec, n)
            if not ti or not n.fields or any(f.kind == "seq" for f in n.fields) \
                    or n.tag in (None, "ASAP2_VERSION"):
                continue                # (a damaged ASAP2_VERSION changes the version gating)
            nxt = follower.get(id(n.fields[-1].scalars()[-1]))
            if nxt is not None and nxt.kind in ("begin", "end"):
                cands.extend((n, p, f) for f in n.fields if f.items is None)
        n, p, f = pick(cands, "no element with safely removable parameter")
        idx = n.fields.index(f)
        detail = "dropped parameter #%d (%s) of %s" % (idx, f.text, n.tag)
        del n.fields[idx]
        tag, parent = n.tag, p
        # the omission is noticed at the token after the remaining parameters
        where = ("next", n.fields[-1].scalars()[-1]) if n.fields else ("next_open", n)
        span = None

    elif kind == "wrong_end_tag":
        cands = [(n, p) for n, p in nodes if n.is_block and n.tag is not None
                 and (_typed(spec, n) or (n.type is not None))]
        n, p = pick(cands, "no block")
        others = sorted(spec.reserved - {n.tag})
        n.end_tag = rng.choice((n.tag + "_X", n.tag.lower(), parent_tag(p), rng.choice(others)))
        if n.end_tag == n.tag:
            n.end_tag = n.tag + "_X"
        tag, parent, where, span = n.tag, p, ("endtag", n), n
        detail = "/end %s" % n.end_tag

    elif kind in ("unknown_keyword", "unknown_block"):
        block = kind == "unknown_block"
        cands = []
        for n, p in nodes:
            ti = _typed(spec, n)
            if ti and ti.group and n.tag is not None:
                slots = list(range(len(n.kids) + 1)) if block else _safe_keyword_slots(spec, n)
                cands.extend((n, s) for s in slots)
        n, slot = pick(cands, "no element with sub-elements")
        utag = "UNKNOWN_%s_%d" % ("BLOCK" if block else "KEYWORD", rng.randrange(100))
        g = _Gen(spec, rng, GenOptions())
        body = [rng.choice((g.int_val("u16"), g.string_val(), g.float_val()))
                for _ in range(rng.randint(0, 3))]
        if block and rng.random() < 0.5:
            body.append(Node(None, "INNER", True, payload=[g.int_val("u8")]))
        new = Node(None, utag, block, payload=body)
        n.kids.insert(slot, new)
        tag, parent, where, span = utag, n, ("first", new), new

    elif kind == "trailing_tokens":
        g = _Gen(spec, rng, GenOptions())
        extra = rng.choice(([g.int_val("u16")], [g.string_val()],
                            [Val("ident", "TRAILING_WORD", "TRAILING_WORD")],
                            [Val("ident", "TRAILING_WORD", "TRAILING_WORD"), g.int_val("u8")]))
        root.trailing = extra
        tag, parent, where = None, None, ("first", extra[0])
        detail = " ".join(v.text for v in extra)

    elif kind in ("ident_for_string", "digit_ident"):
        src_kind = "string" if kind == "ident_for_string" else "ident"
        cands = [(n, p, f) for n, p in nodes if _typed(spec, n) and n.tag is not None
                 for f in _fixed_scalar_fields(spec, n, (src_kind,))]
        n, p, f = pick(cands, "no %s parameter" % src_kind)
        detail = "%s -> " % f.text
        if kind == "ident_for_string":
            f.text = _Gen(spec, rng, GenOptions(p_boundary=0)).ident_text()
        else:
            # must contain a character that is no number character, else it lexes as a number
            f.text = "%d%s%s" % (rng.randrange(10), rng.choice(_HEX_NON_LETTERS),
                                 rng.choice(("", "name", "_1", ".x[2]")))
        f.kind, f.value = "ident", f.text
        detail += f.text
        tag, parent, where = n.tag, p, ("first", f)

    # ---- render and locate the fault
    text, toks = _render(root, rng, layout, spec)
    line = _locate(toks, *where)
    end_line = line
    if span is not None:
        first = [i for i, t in enumerate(toks) if t.owner is span][0]
        end_line = toks[_element_end(toks, first)].line
    desc = dict(kind=kind, tag=tag, parent=parent_tag(parent), line=line, end_line=end_line,
                detail=detail)
    return Deviation(root, text, [(t.kind, t.text, t.line) for t in toks], desc)


def _locate(toks, how, obj):
    """Line of the token selected by (how, obj); see deviate()."""
    last = len(toks) - 1
    if how == "eof":
        return toks[last].line if toks else 1
    for i, t in enumerate(toks):
        if t.owner is not obj:
            continue
        if how == "first":
            return t.line
        if how in ("close", "endtag"):
            if t.role == how:
                return t.line
        elif how == "next":                         # the token after the scalar Val `obj`
            return toks[min(i + 1, last)].line
        elif how == "next_open":                    # the token after the tag of element `obj`
            if not (t.role == "open" and obj.is_block):
                return toks[min(i + 1, last)].line
    return None


def _element_end(toks, start):
    """Index of the last token of the element whose first token is toks[start]."""
    depth = toks[start].depth
    end = start
    for i in range(start + 1, len(toks)):
        t = toks[i]
        if t.role == "trailing" or t.depth < depth or (t.depth == depth and t.role == "open"):
            break
        if t.depth == depth and t.role not in ("tag", "close", "endtag"):
            break
        end = i
    return end


def gen_deviation(spec, rng, kind, opts=None, layout=None, attempts=50):
    """Generate a valid tree that offers a place for a fault of `kind`, and inject it.

    `opts` seeds the tree options.  For "too_new" / "deprecated" the version is moved into the
    range where such a fault exists (too_new needs a version < 1.71, deprecated one > 1.51) and the
    tree is focused on an element type that has a suitable sub-element or enum parameter."""
    opts = opts or GenOptions(p_optional=0.2, max_repeat=2)
    version = tuple(opts.version)
    if kind == "too_new" and version == VERSIONS[-1]:
        version = rng.choice(VERSIONS[:-1])
    if kind == "deprecated" and version <= (1, 51):
        version = rng.choice(VERSIONS[2:])
    opts = opts.replace(version=version)
    last = None
    for _ in range(attempts):
        o = opts
        if kind in ("too_new", "deprecated"):
            o = opts.replace(focus=rng.choice(_version_fault_hosts(spec, kind, version)),
                             focus_chain=None)
        elif kind in ("block_as_keyword", "duplicate_single", "unknown_enum") and o.focus is None:
            o = opts.replace(p_optional=max(opts.p_optional, 0.2))
        try:
            tree = gen_tree(spec, rng, o)
            return deviate(tree, rng, kind, layout, spec)
        except (DeviationNotApplicable, FocusUnreachable) as e:
            last = e
    raise DeviationNotApplicable("%s: no suitable tree in %d attempts (%s)" % (kind, attempts, last))


def _version_fault_hosts(spec, kind, version):
    """Element types (reachable at `version`) that have a sub-element or an enum parameter with an
    item that is too new / deprecated at `version`."""
    def bad(x):
        return x.too_new(version) if kind == "too_new" else x.deprecated(version)

    def enum_names(ty):
        k = ty["k"]
        if k == "enum":
            return [ty["name"]]
        if k in ("seq", "array"):
            return enum_names(ty["item"])
        if k == "struct":
            return [e for _, f in spec.info[ty["name"]].fields for e in enum_names(f)]
        return []

    hosts = []
    for name in spec.element_types():
        ti = spec.info[name]
        if ti.special or name == spec.root:
            continue
        has = any(bad(it) and spec.info[it.type].special is None for it in ti.group) or any(
            bad(e) for _, fty in ti.fields for en in enum_names(fty)
            for e in spec.info[en].enumitems)
        if has and _usable_path(spec, name, version, False) is not None:
            hosts.append(name)
    if not hosts:
        raise DeviationNotApplicable("nothing is %s at version %r" % (kind, version))
    return hosts


# ------------------------------------------------------------------------------------------------
# 10. command line

def _parse_version(s):
    try:
        major, minor = s.split(".")
        v = (int(major), int(minor))
    except ValueError:
        v = None
    if v not in VERSIONS:
        raise argparse.ArgumentTypeError("version must be one of %s or 'all'" % ", ".join(
            "%d.%d" % x for x in VERSIONS))
    return v


def _write_doc(out_dir, stem, text, tokens, desc, with_tokens):
    path = os.path.join(out_dir, stem + ".a2l")
    with open(path, "wb") as f:
        f.write(text.encode("utf-8"))
    if with_tokens and tokens is not None:
        with open(os.path.join(out_dir, stem + ".tokens.json"), "w", encoding="utf-8") as f:
            json.dump(tokens, f, ensure_ascii=True)
    if desc is not None:
        with open(os.path.join(out_dir, stem + ".desc.json"), "w", encoding="utf-8") as f:
            json.dump(desc, f, ensure_ascii=True, sort_keys=True)
    return path


def main(argv=None):
    ap = argparse.ArgumentParser(
        description="Generate random A2L documents from the grammar JSON.  File i depends only on "
                    "(--seed, i) and the options, not on --count.")
    ap.add_argument("--spec", required=True, help="spec JSON of spec_from_generated.py")
    ap.add_argument("--seed", type=int, default=0)
    ap.add_argument("--count", type=int, default=10)
    ap.add_argument("--out", required=True, help="output directory")
    ap.add_argument("--version", default="1.71", help="1.50 .. 1.71, or 'all' (round robin)")
    ap.add_argument("--layout", choices=("canonical", "random", "oneline"), default="canonical")
    ap.add_argument("--crlf", action="store_true")
    ap.add_argument("--bom", action="store_true")
    ap.add_argument("--comments", choices=("none", "block-level", "everywhere"), default="none")
    ap.add_argument("--p-comment", type=float, default=0.2)
    ap.add_argument("--indent", type=int, default=2)
    ap.add_argument("--strings", default="plain,empty",
                    help="comma separated subset of %s, or 'all'" % ",".join(STRING_CLASSES))
    ap.add_argument("--int-notation", choices=("dec", "hex", "mixed"), default="mixed")
    ap.add_argument("--p-boundary", type=float, default=0.15)
    ap.add_argument("--ifdata", choices=("none", "empty", "unknown"), default="none")
    ap.add_argument("--a2ml", choices=("none", "simple"), default="none")
    ap.add_argument("--max-depth", type=int, default=8)
    ap.add_argument("--max-repeat", type=int, default=3)
    ap.add_argument("--p-optional", type=float, default=0.3)
    ap.add_argument("--shuffle", action="store_true", help="random order of sub-elements")
    ap.add_argument("--allow-deprecated", action="store_true")
    ap.add_argument("--focus", help="element type name that must occur, e.g. Measurement")
    ap.add_argument("--all-optionals", nargs="?", const="true", choices=("true", "deep"),
                    help="give the focus element (or, without --focus, every element) all optional "
                         "sub-elements; 'deep': recursively below the focus")
    ap.add_argument("--sweep", action="store_true",
                    help="ignore --count/--focus: one document per entry of sweep_plan() "
                         "(every element type under every parent, with all optionals)")
    ap.add_argument("--deviate", choices=DEVIATION_KINDS + ("each",),
                    help="inject one fault per document; writes NAME.desc.json next to it")
    ap.add_argument("--tokens", action="store_true", help="also write NAME.tokens.json")
    ap.add_argument("--prefix", default="doc")
    args = ap.parse_args(argv)

    spec = load_spec(args.spec)
    os.makedirs(args.out, exist_ok=True)
    versions = VERSIONS if args.version == "all" else [_parse_version(args.version)]
    classes = STRING_CLASSES if args.strings == "all" else tuple(args.strings.split(","))
    if not set(classes) <= set(STRING_CLASSES):
        ap.error("--strings: unknown class in %r" % (classes,))

    def none(s):
        return None if s == "none" else s

    base = GenOptions(allow_deprecated=args.allow_deprecated, max_depth=args.max_depth,
                      max_repeat=args.max_repeat, p_optional=args.p_optional, focus=args.focus,
                      all_optionals={None: False, "true": True, "deep": "deep"}[args.all_optionals],
                      shuffle=args.shuffle, ifdata=none(args.ifdata), a2ml=none(args.a2ml),
                      int_notation=args.int_notation, p_boundary=args.p_boundary,
                      string_classes=classes)
    layout = Layout(mode=args.layout, crlf=args.crlf, comments=none(args.comments),
                    p_comment=args.p_comment, indent=args.indent, bom=args.bom)

    written = 0
    if args.sweep:
        for j, (name, chain, version) in enumerate(sweep_plan(spec, all_parents=True)):
            rng = random.Random("%d:sweep:%d" % (args.seed, j))
            opts = base.replace(version=version, focus=name, focus_chain=chain,
                                all_optionals=base.all_optionals or True)
            text, tokens = render(gen_tree(spec, rng, opts), rng, layout, spec)
            _write_doc(args.out, "%s_%04d_%s_in_%s_%d%d" % (
                args.prefix, j, name, chain[-1], version[0], version[1]), text, tokens, None,
                args.tokens)
            written += 1
    else:
        for i in range(args.count):
            rng = random.Random("%d:%d" % (args.seed, i))
            opts = base.replace(version=versions[i % len(versions)])
            stem = "%s_%05d" % (args.prefix, i)
            if args.deviate:
                kind = DEVIATION_KINDS[i % len(DEVIATION_KINDS)] if args.deviate == "each" \
                    else args.deviate
                dev = gen_deviation(spec, rng, kind, opts, layout)
                _write_doc(args.out, stem + "_" + kind, dev.text, dev.tokens, dev.desc, args.tokens)
            else:
                text, tokens = render(gen_tree(spec, rng, opts), rng, layout, spec)
                _write_doc(args.out, stem, text, tokens, None, args.tokens)
            written += 1
    sys.stderr.write("docgen: wrote %d document(s) to %s\n" % (written, args.out))
    return 0


if __name__ == "__main__":
    sys.exit(main())
