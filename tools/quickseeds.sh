#!/bin/bash
# quickseeds.sh <seed>...: the quick tier of all twenty checks on the current tree, once per seed; prints only failures and a summary
cd /verif
for sd in "$@"; do
  bad=0
  for i in 01 02 03 04 05 06 07 08 09 10 11 12 13 14 15 16 17 18 19 20; do
    VERIF_SEED=$sd ./vcheck check C$i --tier quick > build/quick_C${i}_s$sd.out 2>&1
    rc=$?
    n=$(grep -c VIOLATION build/quick_C${i}_s$sd.out)
    if [ $rc -ne 0 ] || [ $n -ne 0 ]; then echo "seed $sd C$i rc=$rc violations=$n"; bad=1; fi
  done
  echo "seed $sd done bad=$bad"
done
