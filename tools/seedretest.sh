#!/bin/bash
# seedretest.sh <seed dir names...>: run the quick check of the seed's own property against every named seed (no demo)
cd /verif
for n in "$@"; do
  id=${n:0:3}
  echo "=== $n"
  python3 tools/seedtest.py $n $id 2>&1 | tail -2
done
