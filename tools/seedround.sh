#!/bin/bash
# seedround.sh <round dir> <Cxx>...: collect the result of a seeding agent into seeded/ and run the quick check of its property against it
cd /verif
r=$1; shift
for id in "$@"; do
  bash tools/seedcollect.sh $r $id | head -1
  n=$(python3 -c "import json;print(json.load(open('$r/$id/out/meta.json'))['name'])")
  echo "== $id-$n"
  python3 tools/seedtest.py $id-$n $id 2>&1 | tail -2 | cut -c1-320
done
