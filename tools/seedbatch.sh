#!/bin/bash
# seedbatch.sh <seed dir names...>: confirm each seed against /repo and run the quick check of its own property
cd /verif
for n in "$@"; do
  id=${n:0:3}
  echo "=== $n"
  bash tools/seedconfirm.sh $n 2>&1 | grep -E "^demo original|test result|FAILED|^error|repo not clean|patch does not" 
  python3 tools/seedtest.py $n $id 2>&1 | tail -3
done
