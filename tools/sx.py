"""s-expression text format shared by case files, the extracted model and the Rust harness.
   int -> i<hex> / i-<hex>;  bytes/str -> s<hex>;  list/tuple -> ( ... )"""

def enc(v):
    if isinstance(v, bool):
        return 'i1' if v else 'i0'
    if isinstance(v, int):
        return ('i-%x' % -v) if v < 0 else ('i%x' % v)
    if isinstance(v, str):
        return 's' + v.encode('utf-8').hex()
    if isinstance(v, (bytes, bytearray)):
        return 's' + bytes(v).hex()
    if isinstance(v, (list, tuple)):
        return '( ' + ''.join(enc(x) + ' ' for x in v) + ')'
    raise TypeError(type(v))

def dec(line):
    toks = line.split()
    pos = 0
    def value():
        nonlocal pos
        t = toks[pos]; pos += 1
        if t == '(':
            out = []
            while toks[pos] != ')':
                out.append(value())
            pos += 1
            return out
        if t[0] == 'i':
            return -int(t[2:], 16) if t[1:2] == '-' else int(t[1:], 16)
        if t[0] == 's':
            return bytes.fromhex(t[1:])
        raise ValueError(t)
    return value()

def pretty(v):
    """human readable rendering for evidence samples / replay files"""
    if isinstance(v, (bytes, bytearray)):
        try:
            return bytes(v).decode('utf-8')
        except UnicodeDecodeError:
            return 'hex:' + bytes(v).hex()
    if isinstance(v, list):
        return [pretty(x) for x in v]
    return v
