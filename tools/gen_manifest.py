#!/usr/bin/env python3
"""writes MANIFEST.json from the table below (single source of truth for the interface)"""
import json, os
VERIF = os.path.dirname(os.path.dirname(os.path.abspath(__file__)))
ALL = ['C%02d' % i for i in range(1, 21)]

CLAIMED = {
 'C13': dict(
   technique='Coq proof: refinement of (Vec, name->index map) to a plain vector by invariant induction over operation histories; extracted-model/implementation differential on enumerated histories',
   text='Proof. The ItemList model (every public mutator transcribed, Vec indexing and swap_remove partial => Panic) is proved to refine a plain vector for every history that keeps names unique (C13_history_refines_vector), to keep the invariant map = position-of-name (C13_lookup_is_position, C13_all_reachable, C13_absent_unreachable) and never to panic for any argument (C13_no_panic); all closed under the global context. The model is tied to itemlist.rs by running the extracted model and the real ItemList<Measurement> on the same histories (all histories up to length 2 (quick) / 3 (thorough) over every operation and argument of a 4-name alphabet, random length 3-6, 300-1000 step random histories on 60 names) and comparing every observable after every step; the property itself is additionally evaluated on the implementation outputs against an independent plain-vector oracle.',
   note='Trusted: Coq kernel; extraction + OCaml for the model side of the differential; the Rust harness; HashMap modelled as a finite partial function (keys() observed as a set); predicates/comparators passed to retain/sort_by are pure (no mutation through &mut T); Index/IndexMut (documented to panic like Vec) are outside the property.',
   design='8 C13'),
}
REASON_TODO = 'not yet implemented in this round (model/theorems planned in DESIGN.md section 8); no claim is made'

def main():
    checks = []
    for pid in ALL:
        if pid not in CLAIMED:
            continue
        c = CLAIMED[pid]
        checks.append({
            'property_id': pid,
            'quick_cmd': './vcheck check %s --tier quick' % pid,
            'thorough_cmd': './vcheck check %s --tier thorough' % pid,
            'evidence_file': 'evidence/%s.json' % pid,
            'replay_cmd_template': './vcheck replay {path}',
            'engine': 'coq+correspondence',
            'level_claimed': {'category': 'proof', 'text': c['text'], 'design_ref': c['design']},
            'level_note': c['note'],
            'technique': c['technique'],
        })
    m = {
        'version': 1,
        'setup_cmd': './vcheck setup',
        'hooks': {
            'guard': '--cfg a2lfile_verif',
            'enable': 'RUSTFLAGS="--cfg a2lfile_verif" cargo build --offline (harness/implrun depends on /repo/a2lfile by path)',
            'baseline_off_cmd': 'cd /repo && cargo test --workspace --no-fail-fast --offline',
            'source_commits': json.load(open(os.path.join(VERIF, 'hooks.json')))['source_commits'] if os.path.exists(os.path.join(VERIF, 'hooks.json')) else [],
            'add_only': True,
        },
        'engines': [{
            'name': 'coq+correspondence', 'path': 'vcheck',
            'serves_properties': sorted(CLAIMED),
            'kind_free_text': 'Coq 8.16.1 development under coq/ (models, proofs, property theorems) + extracted OCaml model driver + Rust harness running the same case files on /repo; Python driver vcheck',
        }],
        'checks': checks,
        'notes': 'See DESIGN.md. Known findings and fixed defects: known_findings.txt.',
        'not_applicable': [{'property_id': p, 'reason': REASON_TODO} for p in ALL if p not in CLAIMED],
    }
    with open(os.path.join(VERIF, 'MANIFEST.json'), 'w') as f:
        json.dump(m, f, indent=1)
        f.write('\n')

if __name__ == '__main__':
    main()
