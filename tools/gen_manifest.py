#!/usr/bin/env python3
"""writes MANIFEST.json from the table below (single source of truth for the interface)"""
import json, os
VERIF = os.path.dirname(os.path.dirname(os.path.abspath(__file__)))
ALL = ['C%02d' % i for i in range(1, 21)]

CLAIMED = {
 'C13': dict(
   technique='Coq proof: refinement of (Vec, name->index map) to a plain vector by invariant induction over operation histories; extracted-model/implementation differential on enumerated histories',
   text='Proof. The ItemList model (every public mutator transcribed, Vec indexing and swap_remove partial => Panic) is proved to refine a plain vector for every history that keeps names unique (C13_history_refines_vector), to keep the invariant map = position-of-name (C13_lookup_is_position, C13_all_reachable, C13_absent_unreachable) and never to panic for any argument (C13_no_panic); all closed under the global context. The model is tied to itemlist.rs by running the extracted model and the real ItemList<Measurement> on the same histories (all histories up to length 2 (quick) / 3 (thorough) over every operation and argument of a 4-name alphabet, random length 3-6, 300-1000 step random histories on 60 names) and comparing every observable after every step; the property itself is additionally evaluated on the implementation outputs against an independent plain-vector oracle.',
   note='Trusted: Coq kernel; extraction + OCaml for the model side of the differential; the Rust harness; HashMap modelled as a finite partial function (keys() observed as a set); predicates/comparators passed to retain/sort_by are pure (no mutation through &mut T); Index/IndexMut (documented to panic like Vec) are outside the property.',
   design='8 C13'),
}
CLAIMED['C14'] = dict(
   technique='Coq proof: per-list permutation/sortedness/idempotence of the canonical sort and of the writer\'s stable sort; extracted-model/implementation differential on API-built modules',
   text='Proof. sort.rs::sort and the writer\'s ordering (Writer::sort_function + stable sort) are modelled over one MODULE. Proved for every list and start uid: the result is a permutation with untouched content, names ascending, uids consecutive, offsets normalised (C14_list_sorted_permutation); a second sort is the identity (C14_list_sort_idempotent); the writer order is a sorted permutation of the children (C14_writer_order_sorted/_permutation); comparators are total preorders. The whole-module canonical order and idempotence are closed by computation on a populated sample module (C14_sample_canonical) and tied to the code by running model and real A2lFile::sort() on generated modules (all 20 kinds, IF_DATA, USER_RIGHTS, optional blocks, arbitrary uids/lines, new elements) comparing every list and the order of /begin lines; the oracle checks grouping, alphabetical order, reload-equality, same text after reload and second-sort no-op on the real library.',
   note='Module-level composition (threading of the uid counter through the 20 lists in canonical kind order) is validated by correspondence and one closed example, not by a general theorem (partial). Several modules, comments and A2ML-described IF_DATA are outside the API-built generator. Content is compared by (tag, name) in the model and by PartialEq on the real model.',
   design='8 C14')
CLAIMED['C15'] = dict(
   technique='Coq proof: invariant (sorted placed prefix) + monotone uid doubling, induction over k calls; refutation theorem for the unbounded claim; extracted-model/implementation differential',
   text='Proof with a recorded known finding. For every list in the shape that loading and every earlier call establish (placed elements in order, new ones behind), one call keeps the placed prefix in order with doubled uids and gives the new elements the uid directly behind the last placed one (C15_placed_prefix_stable); the writer\'s comparison of any two placed elements is unchanged (C15_writer_order_of_placed_unchanged) and a new element sorts directly behind the last placed element of its kind (C15_new_directly_after_last_of_kind); k consecutive calls scale uids by 2^k while they fit in u32 (C15_k_calls_scale_uids). The unbounded statement is refuted: with any placed element 32 calls cannot all succeed (C15_thirty_two_calls_overflow, witness by vm_compute) - that is the known finding uid-doubling-overflow. Tie: model vs A2lFile::sort_new_items on API-built modules incl. uids close to 2^32 and up to 64 consecutive calls; placement oracle on the written text.',
   note='Guard of the positive theorems: 2*uid+1 < 2^32 for every uid of the module at each call; its failure is the known finding (classified by the same predicate on the observed uids). Release-mode wrap-around is modelled (debug=false) but only the debug build is run in the quick tier. Crate-private comments cannot be created through the API; merge is represented by pushes of uid-0 elements with line>0.',
   design='8 C15')
CLAIMED['C12'] = dict(
   technique='Coq proof on primitive binary64 floats: range per conversion kind for all floats; float classification equals exact rational classification on the full finite grid (vm_compute + forallb_forall); bit-exact model/implementation differential',
   text='Proof. checker.rs get_datatype_limits / calc_compu_method_limits / check_limits_valid and the tolerance-free TYPEDEF_MEASUREMENT comparison are modelled on Coq primitive floats (bit-exact IEEE binary64). For all floats: identity/table kinds give the raw range, LINEAR maps both endpoints and swaps them for a negative slope, the linear RAT_FUNC case is inverted and ordered, FORM/general RAT_FUNC give (-MAX, MAX). On the property\'s grid (11 data types x 14 slopes of both signs x 9 offsets x 4 limit placements x tolerant/tolerance-free comparison; and the RAT_FUNC b,c,f grid; identity kinds; unevaluated kinds) the float decision is proved equal to the decision of exact rational arithmetic (Q) whenever values are finite and limits clearly placed: a complete finite check inside the kernel, lifted with forallb_forall, 10008 + 15908 non-vacuous points. Tie: the model is evaluated by coqc/vm_compute on the same bit patterns as the implementation (calc via cfg hook; error decision via public check() on modules built per object kind, which also exercises which data type governs) and compared bit for bit; an independent exact-Fraction oracle in Python decides the clearly placed cases.',
   note='Outside the grid the real-number meaning is not proved (no general rounding-error theorem): partial. Print Assumptions lists only kernel float/int63 primitives; FloatAxioms are not used. Trusted: rustc float literal parsing (compared through correspondence), text->f64 parsing of the A2L loader (C01/C02).',
   design='8 C12')
CLAIMED['C17'] = dict(
   technique='Coq proof: decode(encode e t) = t for all ten encodings and all texts (UTF-8/16/32 codec lemmas by arithmetic, detection cascade by case analysis on the leading bytes); byte-exact model/implementation differential; end-to-end file-vs-string oracle',
   text='Proof. loader.rs decode_raw_bytes (UTF-32 -> UTF-16 -> UTF-8 -> Latin-1 cascade with its length and leading-byte heuristics, char::from_u32, String::from_utf16, strict String::from_utf8) and the BOM removal of load() are modelled on byte lists. Theorem C17_decode_encode: for each of the 10 encodings and EVERY text (any length, any scalar values incl. non-BMP, no NUL, first character ASCII) the string handed to the tokenizer is the UTF-8 form of the text - so load(path) and load_from_string(text) run on identical input. Also: Latin-1 fallback, UTF-8 encoder output always valid, UTF-16 round trip; all closed under the global context. Tie: extracted model vs the real decode_raw_bytes (cfg hook) byte for byte on encoded documents in all length residues and on random / malformed / truncated byte strings; oracle: a2lfile::load on a real file equals load_from_string (model and written text).',
   note='Hypothesis forced by the proof: no NUL character in the text (a BOM-less UTF-16LE text whose second character is NUL would be taken for UTF-32). std::fs is trusted to return the bytes on disk. Totality is by construction of the model (no partial operation) and validated on random bytes.',
   design='8 C17')
LOADTIE = ' Tie: the grammar term is regenerated from specification.rs by the token-pattern translator on every run; the extracted generic parser+writer model and the real load_from_string / write_to_string are run on the same grammar-derived documents and compared on the complete model dump (every field, offset, uid, comment), every diagnostic (variant, line, text) and the written text.'
CLAIMED['C01'] = dict(
   technique='Coq proofs of the lexeme-level inverses (escape/unescape, string scanning, integer text for all 8 types), closed obligation writer_consistent over the regenerated grammar, generic parser/writer model tied by differential; whole-document round trip evaluated by oracle (partial)',
   text='Proof (partial for the whole-document statement). Proved for all inputs: unescape(escape s) = s; the tokenizer cuts a written string exactly at its closing quote; get_integer(add_integer v) = (v, notation) for every value of every field type; the scanner is total; closed obligation: each of the 165 shipped stringify/PartialEq bodies is the writer-template instance of its grammar entry (every parsed field written once, in order, with its own location). The statement load(write(M)) = M for the generic parser/writer pair over all grammars is not yet a theorem (staged frame lemma, DESIGN 8/C01.6): it is evaluated on the real library over three cycles on every generated document.' + LOADTIE,
   note='Float text <-> f64 of Rust std is an oracle (table computed by the implementation per case). A2ML-described IF_DATA is compared on the implementation only. Known finding: position-restricted reordering (RECORD_LAYOUT) changes list order on the first reload. API-built models are not yet generated.',
   design='8 C01')
CLAIMED['C02'] = dict(
   technique='Coq proofs: accepted integer literals are in range / hex literals fit the width (no silent change), writer/parser inverses, closed obligation every-field-written-once; generic parser/writer model tied by differential; token-sequence oracle',
   text='Proof (partial for the whole-document statement). Proved: whatever get_integer accepts lies in the range of the field type, a hex literal is accepted only if it fits the bit width (C02_accepted_integer_fits, C02_hex_literal_fits_width); integers and strings written are read back identically; closed obligation: every parsed field is written exactly once. Token preservation for whole documents is evaluated by an independent scanner on the implementation (input vs written text, up to number/escape notation and position reordering), with a boundary sweep of every integer field type x {min-1..2^64} x {dec, hex} and uninterpreted IF_DATA numbers.' + LOADTIE,
   note='Known finding: numbers in uninterpreted IF_DATA are stored as i32/f32. Float fields: a literal is identified with the f64 it denotes.',
   design='8 C02')
CLAIMED['C05'] = dict(
   technique='Coq proofs: scanner token lines are monotone and >= 1 (no u32 underflow in line arithmetic), writer whitespace replays an offset as exactly n line breaks, closed obligation each field is written with its own location; generic parser/writer model tied by differential; line-by-line oracle',
   text='Proof (partial for the whole-document statement). Proved: the tokenizer assigns non-decreasing line numbers starting at 1 for every input; add_whitespace for offset n>0 emits exactly n line breaks; every shipped stringify writes each field with its own stored location (closed obligation). That every token of write(load(T)) stands on its input line is evaluated on the real library for documents of the property\'s layout class (random line breaks, blank lines, block-level comments, dropped comments), and the writer\'s own format is checked to be a byte-exact fixpoint.' + LOADTIE,
   note='Edit locality (single-field edit / push / remove through the API) is not yet exercised: partial.',
   design='8 C05')
CLAIMED['C03'] = dict(
   technique='Coq proof of totality of the byte scanner (no out-of-bounds index, fuel never exhausted) and monotonicity of token lines; whole tokenizer+parser model with explicit panic sites tied by differential on malformed inputs; totality oracle with catch_unwind / 8 MiB stack / watchdog',
   text='Proof (partial: parser recursion depth and wall clock are runtime facts). For EVERY byte string the tokenizer model - in which each slice and index of tokenizer.rs is explicit and can yield Panic - returns tokens or a tokenizer error: never Panic, never out of fuel (C03_tokenizer_total / _never_panics / _always_terminates), the A2ML block scan terminates inside its input, token lines never decrease and start at 1 (so the u32 line differences of the parser cannot underflow within a file). The parser model (every unwrap / index / subtraction of parser.rs, ifdata.rs as Panic outcome) is compared with the implementation on truncations, token mutations and token soups: same outcome class, diagnostic and panic behaviour. Oracle: no panic / abort / timeout over strict x a2ml_spec {none, valid, invalid} x entry point {string, fragment, file}, nesting ladders to depth 200000, random bytes.',
   note='Known finding: unbounded recursion (stack overflow for several thousand nested blocks in IF_DATA). Panic-freedom of the parser proper is not yet a theorem; the A2ML interpreter is exercised by the oracle only.',
   design='8 C03')
CLAIMED['C04'] = dict(
   technique='Coq closed obligation: grammar term recovered from the shipped code = reference grammar term (spec_eqb by vm_compute, lifted to equality); generic lemmas per deviation class; grammar-interpreting parser model tied by differential; exhaustive element sweep',
   text='Proof. C04_shipped_grammar_is_reference_grammar: the grammar recovered from specification.rs (189 types: parameter order and types, optional / required / repeatable sub-elements, block vs keyword form, version ranges, enum items) is equal, as a Coq term, to the frozen reference copy of the A2L 1.7.1 DSL read through the in-tree DSL parser; re-checked on every run. For every grammar: block-as-keyword, keyword-as-block, duplicate single element (strict error / non-strict warning), missing required element, unknown enum value, too-new element (strict error / non-strict warning), deprecated element (warning in both modes) yield exactly their diagnostic at the generic parser\'s decision points; the six ASAP2 versions are distinguished. The parser model is the interpreter of that grammar term and is compared with the implementation on every document. Oracle: all 164 block/keyword types under every parent with all optional sub-elements in every version in which they exist load strictly without diagnostics; every deviation class gives its diagnostic class in both modes.' + LOADTIE,
   note='That the interpreter accepts every document derived from the grammar is not a separate theorem (it is the frame lemma of C01); trusted: the translator\'s fully-accounted-for rule.',
   design='8 C04')
CLAIMED['C06'] = dict(
   technique='Coq proofs on the parser state monad: single decision point, diagnostic position, simulation lemmas strict -> non-strict (compositional over bind); model tied by differential in both modes; pairwise oracle on the implementation',
   text='Proof (partial: the document-level relation is evaluated, not proved). Proved: error_or_log is the only place where the strictness flag is read - strict returns the error unchanged, non-strict appends exactly it to the log; every diagnostic built by the parser carries the file of its context and the line of the last token taken (and get_token sets that line); a computation that succeeds in strict mode is simulated in non-strict mode with the same value, cursor and log - for error_or_log, the multiplicity and version checks, and compositionally for bind. The generic parser model is compared with the implementation in BOTH modes on valid documents, 14 classes of injected faults and token mutations (model, every diagnostic with line, written text). Oracle: the four relations of the property between load(T, strict) and load(T, non-strict) on every input.',
   note='Known finding: MissingVersionInfo / InvalidVersion carry no file and line. Sites that catch errors (greedy sequences, speculative IF_DATA parsing) are outside the simulation theorem.',
   design='8 C06')
CLAIMED['C07'] = dict(
   technique='Coq proof by induction over balanced token runs: handle_unknown_taggedstruct_tag skips exactly the unknown element (block and keyword form) with one warning, strict error names it; model tied by differential; injection oracle',
   text='Proof (partial: composition with the rest of the parser is evaluated, not proved). For EVERY balanced payload u (nested unknown blocks, comments, scalars - defined inductively) the block form /begin TAG u /end TAG is consumed exactly, the cursor is left on the token behind it, and exactly one UnknownSubBlock diagnostic is logged (C07_unknown_block_skipped); for every keyword payload without /begin, /end or tags of the enclosing block the skip stops exactly in front of the next sibling keyword, sibling block or the enclosing /end (C07_unknown_keyword_skipped); in strict mode the result is the error UnknownSubBlock naming the tag. Oracle on the implementation: for valid documents x insertion points x payload families, non-strict loading gives one warning and a model equal to the base document, strict loading fails naming the element.' + LOADTIE,
   note='Guard of the keyword theorem = the exclusions of the property (payload does not reuse a tag of the enclosing block).',
   design='8 C07')
CLAIMED['C20'] = dict(
   technique='Coq closed obligations: shipped grammar term = DSL grammar term, writer/eq template consistency; translator fully-accounted-for rule; differential of two builds of the crate (shipped vs macro expansion with in-tree a2lmacros)',
   text='Proof + translation validation. The grammar recovered from the shipped generated code equals, as a Coq term, the grammar the in-tree DSL parser reads from specification_orig.rs (C20_grammars_are_equal, via a proved-sound boolean equality evaluated by vm_compute); every shipped stringify / PartialEq is the template instance of its entry; the translator rejects any statement it cannot account for, so the shipped code is an instance of the modelled template. The generator side is observed directly: the crate is rebuilt with specification.rs := the macro invocation compiled with the in-tree a2lmacros, the same harness (typed dumper included) is compiled against it, and complete transcripts (model dump, diagnostics, written text, reload) of both builds are compared byte for byte on valid, faulty and mutated documents in both modes.',
   note='rustc macro expansion itself is observed, not modelled. The hand-written A2ml / IfData impls exist in both files and are pinned token for token by the translator.',
   design='8 C20')
CLAIMED['C08'] = dict(
   technique='Coq proof about a namespace-level model of merge.rs (calculate_item_actions, make_unique_name, push loops, name-keyed GROUP/FUNCTION union): closed form of the result, conservation, freshness/injectivity of generated names by list reasoning, termination by pigeonhole; extracted model vs A2lFile::merge_modules differential in every namespace',
   text='Proof. One namespace of the merge is modelled as lists of (kind, name, content) with the implementation\'s two hash maps, first-match lookup and per-kind push loops; GROUP/FUNCTION as the name-keyed union of four member lists. Proved for all inputs with unique names per side: the result is A followed by the representatives of B in order (C08_result_closed_form), every element of A is kept in place, every element of B is shared, added or added under a name X.MERGE/X.MERGEn that neither side uses (C08_represents_every_element_of_B), nothing else appears, names stay unique across the kinds sharing the namespace (C08_names_stay_unique; needs that two elements can never get the same generated name, C08_generated_names_do_not_collide), the while loop of make_unique_name terminates for every set of existing names (C08_unique_name_terminates, pigeonhole), merging nothing / an identical copy / into empty are neutral, uniqueness is an invariant of sequences of merges, and groups of A only gain members at the end of their lists while every group of B is covered. Tie: extracted model and real merge_modules on generated module pairs written as A2L text in all 9 namespaces (20 element kinds), with twins, conflicts, cross-kind conflicts, pre-existing X.MERGEn names, several namespaces at once, sequences of up to 4 merges and GROUP/FUNCTION pairs; every result list compared; the statement itself re-evaluated on the implementation results by an independent oracle.',
   note='Content of an element = an id placed in its long identifier (elements carry no resolvable references in these pairs, so rename tables do not touch them; the interaction with renamed references is C09). SYSTEM_CONSTANT (name-only union), MEMORY_LAYOUT and the all-or-nothing singletons are outside the named namespaces of the statement.',
   design='8 C08')
REASON_TODO = 'not yet implemented in this round (model/theorems planned in DESIGN.md section 8); no claim is made'

def main():
    checks = []
    for pid in ALL:
        if pid not in CLAIMED:
            continue
        c = CLAIMED[pid]
        checks.append({
            'property_id': pid,
            'quick_cmd': './vcheck check %s --tier quick' % pid,
            'thorough_cmd': './vcheck check %s --tier thorough' % pid,
            'evidence_file': 'evidence/%s.json' % pid,
            'replay_cmd_template': './vcheck replay {path}',
            'engine': 'coq+correspondence',
            'level_claimed': {'category': 'proof', 'text': c['text'], 'design_ref': c['design']},
            'level_note': c['note'],
            'technique': c['technique'],
        })
    m = {
        'version': 1,
        'setup_cmd': './vcheck setup',
        'hooks': {
            'guard': '--cfg a2lfile_verif',
            'enable': 'RUSTFLAGS="--cfg a2lfile_verif" cargo build --offline (harness/implrun depends on /repo/a2lfile by path)',
            'baseline_off_cmd': 'cd /repo && cargo test --workspace --no-fail-fast --offline',
            'source_commits': json.load(open(os.path.join(VERIF, 'hooks.json')))['source_commits'] if os.path.exists(os.path.join(VERIF, 'hooks.json')) else [],
            'add_only': True,
        },
        'engines': [{
            'name': 'coq+correspondence', 'path': 'vcheck',
            'serves_properties': sorted(CLAIMED),
            'kind_free_text': 'Coq 8.16.1 development under coq/ (models, proofs, property theorems) + extracted OCaml model driver + Rust harness running the same case files on /repo; Python driver vcheck',
        }],
        'checks': checks,
        'notes': 'See DESIGN.md. Known findings and fixed defects: known_findings.txt.',
        'not_applicable': [{'property_id': p, 'reason': REASON_TODO} for p in ALL if p not in CLAIMED],
    }
    with open(os.path.join(VERIF, 'MANIFEST.json'), 'w') as f:
        json.dump(m, f, indent=1)
        f.write('\n')

if __name__ == '__main__':
    main()
