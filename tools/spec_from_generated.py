#!/usr/bin/env python3
"""spec_from_generated.py -- recover the grammar description implemented by the shipped,
pre-generated /repo/a2lfile/src/specification.rs and write it as canonical JSON.

    python3 spec_from_generated.py [--src .../specification.rs] --out .../spec_shipped.json

The shipped file is an instance of the quote! templates in
/repo/a2lmacros/src/codegenerator/{parser.rs,writer.rs,data_structure.rs}.  This translator
recognises those instances from the CODE (comments and doc attributes are dropped by the lexer)
and never guesses: every recognised `fn parse`, `fn stringify`, `fn eq`, `fn new`, `fn fmt` (enum
Display) and `impl PositionRestricted` body must be accounted for token by token.  An unknown
statement or left-over tokens make the translation of that function fail; the failure is listed
under "failures" in the output and the exit code is 3.

Exit codes: 0 = everything recognised, 3 = at least one failure (JSON still written for the rest),
            2 = the file cannot be read / lexed at all (nothing written).

Structure of this file
  1. lexer               (lex)
  2. token cursor        (Cursor: at / accept / expect / ident / string / number / group)
  3. expression parser   (parse_expr: canonical text of simple Rust expressions)
  4. recognisers, one per template fragment, each quoting the generator fragment it matches
  5. top-level scan of the file, classification of keyword/struct, JSON output

Tolerated (behaviour-neutral) variation -- the shipped file was hand-cleaned after generation:
  * layout, comments, doc attributes, trailing commas before a closing bracket (lexer)
  * integer literal type suffixes (`0` vs `0u32`, `5` vs `5usize`): compared by value
  * `&`, `&mut`, `*` and redundant parentheses inside the *argument expressions* of writer calls
    (they only change the borrow/deref form; the types are checked by rustc)
  * `x.is_empty()` for `x.len() == 0`; `for x in &v` for `for (i, x) in v.iter().enumerate()` when
    `i` is unused; an unused `const TAG_LIST` dropped (if present it must list exactly the tags of
    the match arms, in order); braced vs. unbraced single-expression match arms and the `,` after
    a match arm; `let writer` vs `let mut writer`
  * the order of the shorthand field initialisers in `Ok(Self { .. })` (no meaning in Rust); the
    order of the variables inside `item_location: (..)` is not required to be the parse order
    either, but it is semantic and therefore reported as extra[X]["parse_layout"]
Everything else (callee names, integer types, tag strings, version constants, require_block vs
require_keyword, loop vs if-let, required checks, stop words, end-tag check, statement order,
location indices) is matched strictly.

Output: {"types": {..}, "extra": {..}, "failures": [..]}, written with indent=1, sort_keys=True.
  types[X]  = {"kind": "block"|"keyword"|"struct"|"enum", "special": null|"A2ml"|"IfData",
               "items": [field | tagged group, in parse order], "comments": bool [, "enumitems": [..]]}
     field        = {"name": n, "ty": T}       T as produced by rec_item_parser_call / rec_sequence
     tagged group = {"tagged": "struct"|"union", "is_last_in_block": bool, "items": [{"tag", "type",
                     "var", "block", "repeat", "named", "required", "vmin", "vmax"}]}
  extra[X]  (what the other generated functions of X do; see rec_stringify, rec_new, rec_eq, ...)
     "writer_sig":   "indent" (block/keyword: own Writer) | "writer" (struct: parent's Writer) | "display" (enum)
     "writer":       the write commands of stringify in order, see rec_stringify / rec_tagged_group_writer;
                     for an enum the arms of Display::fmt as [{"variant", "tag"}]
     "eq":           fields compared by PartialEq::eq, in order               (enum: null, it is derived)
     "new_args":     argument names of new(), in order                          (enum: null)
     "new_fields":   [[field, "arg"|"None"|"Vec::new"|"ItemList::default"], ..] initialisers of new()
     "new_defaults": {"start_offset", "end_offset", "item_location"} literals of new() as strings,
                     integer suffixes removed, no blanks, e.g. "((0,false),Vec::<u32>::new())"
     "pos_restrict": null (default impl, or no impl for enum/struct) | "Some(3)" | "Some(self.position)"
     "parse_layout": field names in the order of the item_location tuple built by parse() ("()" for
                     the __dummy filler); index i of this list is the `loc` the writer must use
  failures  = [{"type", "function", "reason", "near"}]; a type whose parse failed is absent from
              "types" and "extra"; if another function failed only its keys are absent from extra[X].

Decisions that are not dictated by the requested format (all documented where they are made):
  * keyword vs struct: both have the same parse body (`let __end_offset: u32 = 0;`).  They are told
    apart by usage: a type referenced from a tagged-item match arm (`X::parse(parser, &newcontext,
    line_offset)`) is a "keyword"; a type referenced only as `(0, X::parse(parser, context, 0)?)`
    (StructRef) is a "struct"; a type referenced both ways is a failure.  A type that is not
    referenced at all is a "keyword": that is the root A2lFile, which the DSL declares as
    `keyword A2L_FILE` and the generator treats as BaseType::Block { is_block: false }.
  * enum types carry "items": [] and "comments": false in addition to "enumitems".
  * the hand-written A2ml and IfData impls are compared token-for-token with the text pinned in
    SPECIAL_IMPLS below; their JSON is fixed.
"""

import argparse
import json
import os
import re
import sys

# ------------------------------------------------------------------------------------------------
# 1. Lexer
# ------------------------------------------------------------------------------------------------

# Token kinds: 'id' identifier/keyword, 'num' number, 'str' string literal (raw text incl. quotes),
# 'chr' char literal, 'life' lifetime, 'p' one punctuation character (so `=>` is `=` `>`).
TOKEN_RE = re.compile(r'''
   (?P<ws>\s+)
 | (?P<lc>//[^\n]*)
 | (?P<bc>/\*)
 | (?P<rstr>b?r(?P<hashes>\#*)".*?"(?P=hashes))
 | (?P<str>b?"(?:[^"\\]|\\.)*")
 | (?P<chr>b?'(?:[^'\\\n]|\\(?:x[0-9a-fA-F]{2}|u\{[0-9a-fA-F_]+\}|.))')
 | (?P<life>'[A-Za-z_][A-Za-z0-9_]*)
 | (?P<id>(?:r\#)?[A-Za-z_][A-Za-z0-9_]*)
 | (?P<num>0[xob][0-9a-fA-F_]+(?:[iu](?:8|16|32|64|128|size))?
         | [0-9][0-9_]*(?:\.[0-9][0-9_]*)?(?:[eE][+-]?[0-9][0-9_]*)?(?:[iu](?:8|16|32|64|128|size)|f32|f64)?)
 | (?P<p>.)
''', re.X | re.S)
TUPLE_INDEX_RE = re.compile(r'[0-9]+')
NUM_SUFFIX_RE = re.compile(r'(?:[iu](?:8|16|32|64|128|size)|f32|f64)$')
INT_SUFFIX_RE = re.compile(r'[iu](?:8|16|32|64|128|size)$')

OPEN = {'(': ')', '[': ']', '{': '}'}
CLOSE = {')', ']', '}'}


class LexError(Exception):
    pass


class Tok:
    """One token.  `key` is what token comparison uses: the text, except that numbers are compared
    without their type suffix / underscores.  `tc` is set on a closing bracket when a trailing comma
    directly before it was dropped (needed only to refuse 1-tuples `(x,)`)."""
    __slots__ = ('k', 's', 'key', 'line', 'tc')

    def __init__(self, k, s, line):
        self.k = k
        self.s = s
        self.line = line
        self.tc = False
        if k == 'num':
            # 0x.. literals may end in hex digits that look like the float suffixes, e.g. 0x1f32
            suffix = INT_SUFFIX_RE if s.startswith(('0x', '0o', '0b')) else NUM_SUFFIX_RE
            self.key = suffix.sub('', s).replace('_', '')
        else:
            self.key = s

    def __repr__(self):
        return self.s


EOF = Tok('eof', '<eof>', 0)


def lex(text):
    """Rust source -> list of Tok.  Comments and `#[doc ...]` / `#![doc ...]` attributes are
    dropped; a `,` directly before a closing bracket is dropped."""
    raw = []
    pos, line, n = 0, 1, len(text)
    while pos < n:
        # a number directly after a single `.` is a tuple index: `x.0.1` is `x` `.` `0` `.` `1`
        after_dot = (len(raw) >= 1 and raw[-1].k == 'p' and raw[-1].s == '.'
                     and not (len(raw) >= 2 and raw[-2].k == 'p' and raw[-2].s == '.'))
        if after_dot:
            m = TUPLE_INDEX_RE.match(text, pos)
            if m:
                raw.append(Tok('num', m.group(), line))
                pos = m.end()
                continue
        m = TOKEN_RE.match(text, pos)
        kind = m.lastgroup
        s = m.group()
        if kind == 'hashes':      # lastgroup of a raw string is the inner group
            kind = 'rstr'
        if kind == 'bc':          # block comment, may nest
            depth, i = 1, m.end()
            while depth:
                a, b = text.find('/*', i), text.find('*/', i)
                if b < 0:
                    raise LexError('unterminated block comment at line %d' % line)
                if 0 <= a < b:
                    depth, i = depth + 1, a + 2
                else:
                    depth, i = depth - 1, b + 2
            line += text.count('\n', pos, i)
            pos = i
            continue
        if kind in ('ws', 'lc'):
            pass
        elif kind == 'rstr':
            raw.append(Tok('str', s, line))
        else:
            raw.append(Tok(kind, s, line))
        line += s.count('\n')
        pos = m.end()

    # drop doc attributes:  # [ doc ... ]   and   # ! [ doc ... ]
    nodoc = []
    i = 0
    while i < len(raw):
        t = raw[i]
        if t.k == 'p' and t.s == '#':
            j = i + 1
            if j < len(raw) and raw[j].s == '!' and raw[j].k == 'p':
                j += 1
            if j + 1 < len(raw) and raw[j].s == '[' and raw[j + 1].k == 'id' and raw[j + 1].s == 'doc':
                depth = 0
                while True:
                    if raw[j].k == 'p' and raw[j].s == '[':
                        depth += 1
                    elif raw[j].k == 'p' and raw[j].s == ']':
                        depth -= 1
                        if depth == 0:
                            break
                    j += 1
                    if j >= len(raw):
                        raise LexError('unterminated doc attribute at line %d' % t.line)
                i = j + 1
                continue
        nodoc.append(t)
        i += 1

    # drop a `,` directly before a closing bracket
    out = []
    for t in nodoc:
        if t.k == 'p' and t.s in CLOSE and out and out[-1].k == 'p' and out[-1].s == ',':
            out.pop()
            t.tc = True
        out.append(t)
    return out


def match_brackets(toks):
    """index of opening bracket -> index of its closing bracket"""
    match, stack = {}, []
    for i, t in enumerate(toks):
        if t.k != 'p':
            continue
        if t.s in OPEN:
            stack.append(i)
        elif t.s in CLOSE:
            if not stack or OPEN[toks[stack[-1]].s] != t.s:
                raise LexError('unbalanced `%s` at line %d' % (t.s, t.line))
            match[stack.pop()] = i
    if stack:
        raise LexError('unclosed `%s` at line %d' % (toks[stack[-1]].s, toks[stack[-1]].line))
    return match


_snippet_cache = {}


def snippet(code, subst):
    """lex a piece of template text; `$name` is replaced by subst['name'] first"""
    if subst:
        code = re.sub(r'\$(\w+)', lambda m: subst[m.group(1)], code)
    toks = _snippet_cache.get(code)
    if toks is None:
        toks = _snippet_cache[code] = lex(code)
    return toks


def str_value(tok):
    """value of a plain string literal token"""
    s = tok.s
    if not (s.startswith('"') and s.endswith('"')):
        raise ValueError('not a plain string literal: ' + s)
    body = s[1:-1]
    if '\\' in body:
        raise ValueError('escape sequences in tag strings are not supported: ' + s)
    return body


# ------------------------------------------------------------------------------------------------
# 2. Token cursor
# ------------------------------------------------------------------------------------------------

class Unrecognised(Exception):
    def __init__(self, reason, near):
        Exception.__init__(self, reason)
        self.reason = reason
        self.near = near


class Cursor:
    """A position inside toks[pos:end].  All recognisers work on cursors; `group` hands out a
    cursor for the inside of a balanced bracket group and steps over the group."""

    def __init__(self, toks, match, pos, end):
        self.toks, self.match, self.pos, self.end = toks, match, pos, end

    def peek(self, k=0):
        i = self.pos + k
        return self.toks[i] if i < self.end else EOF

    def near(self):
        lo = max(self.pos - 4, 0)
        hi = min(self.pos + 10, len(self.toks))
        line = self.peek().line or (self.toks[self.pos - 1].line if self.pos else 0)
        return 'line %d: %s >>> %s' % (line, ' '.join(t.s for t in self.toks[lo:self.pos]),
                                       ' '.join(t.s for t in self.toks[self.pos:hi]))

    def fail(self, reason):
        raise Unrecognised(reason, self.near())

    def at(self, code, **subst):
        """do the next tokens equal the tokens of `code`?"""
        pat = snippet(code, subst)
        if self.pos + len(pat) > self.end:
            return False
        for i, p in enumerate(pat):
            t = self.toks[self.pos + i]
            if t.k != p.k or t.key != p.key:
                return False
        return True

    def accept(self, code, **subst):
        if self.at(code, **subst):
            self.pos += len(snippet(code, subst))
            return True
        return False

    def expect(self, code, **subst):
        pat = snippet(code, subst)
        for p in pat:
            t = self.peek()
            if t.k != p.k or t.key != p.key:
                self.fail('expected `%s` (of `%s`)' % (p.s, ' '.join(x.s for x in pat)))
            self.pos += 1

    def ident(self):
        t = self.peek()
        if t.k != 'id':
            self.fail('expected an identifier')
        self.pos += 1
        return t.s

    def string(self):
        t = self.peek()
        if t.k != 'str':
            self.fail('expected a string literal')
        try:
            v = str_value(t)
        except ValueError as e:
            self.fail(str(e))
        self.pos += 1
        return v

    def number(self):
        t = self.peek()
        if t.k != 'num' or not t.key.isdigit():
            self.fail('expected an integer literal')
        self.pos += 1
        return int(t.key)

    def group(self, opener):
        """expect a balanced group starting with `opener`; return a cursor over its inside"""
        t = self.peek()
        if t.k != 'p' or t.s != opener:
            self.fail('expected `%s`' % opener)
        close = self.match[self.pos]
        inner = Cursor(self.toks, self.match, self.pos + 1, close)
        self.pos = close + 1
        return inner

    def closer(self):
        """the closing-bracket token that ends this (group) cursor"""
        return self.toks[self.end]

    def at_end(self):
        return self.pos >= self.end

    def expect_end(self):
        if not self.at_end():
            self.fail('left-over tokens')

    def text(self, lo, hi):
        return ' '.join(t.s for t in self.toks[lo:hi])


# ------------------------------------------------------------------------------------------------
# 3. Expression parser (used for writer arguments, layout literals in new(), pos_restrict)
# ------------------------------------------------------------------------------------------------
# expr    := ('&' 'mut'? | '*')* primary postfix*
# primary := path | number | string | '(' ')' | '(' expr ')' | '(' expr (',' expr)+ ')' | '[' expr,* ']'
# path    := ident ('::' (ident | '<' type tokens '>'))*
# postfix := '.' ident | '.' number | '[' expr ']' | '(' expr,* ')'
# The result is a canonical string: reference/dereference operators and redundant parentheses are
# dropped, so `*self.x.get(i).unwrap_or(&(0, false))` and `(self.x.get(i).unwrap_or(&(0,false)))`
# both become `self.x.get(i).unwrap_or((0,false))`.  A 1-tuple `(x,)` is refused.

def parse_expr(c):
    while True:
        if c.accept('&'):
            c.accept('mut')
        elif c.accept('*'):
            pass
        else:
            break
    t = c.peek()
    if t.k == 'id':
        s = c.ident()
        while c.at('::'):
            c.expect('::')
            if c.at('<'):
                s += '::<' + parse_generic_args(c) + '>'
            else:
                s += '::' + c.ident()
    elif t.k == 'num':
        s = t.key
        c.pos += 1
    elif t.k == 'str':
        s = t.s
        c.pos += 1
    elif t.k == 'p' and t.s == '(':
        g = c.group('(')
        elems = parse_expr_list(g)
        if len(elems) == 1:
            if g.closer().tc:
                c.fail('1-tuple `(x,)` is not part of any template')
            s = elems[0]
            # a parenthesised compound stays atomic because every compound we produce is a
            # postfix chain or a bracketed list
        else:
            s = '(' + ','.join(elems) + ')'
    elif t.k == 'p' and t.s == '[':
        g = c.group('[')
        s = '[' + ','.join(parse_expr_list(g)) + ']'
    else:
        c.fail('expected an expression')
    while True:
        if c.at('.') and not c.at('..'):
            c.expect('.')
            t = c.peek()
            if t.k not in ('id', 'num'):
                c.fail('expected a field name or tuple index')
            c.pos += 1
            s += '.' + t.key
        elif c.at('['):
            g = c.group('[')
            idx = parse_expr(g)
            g.expect_end()
            s += '[' + idx + ']'
        elif c.at('('):
            g = c.group('(')
            s += '(' + ','.join(parse_expr_list(g)) + ')'
        else:
            return s


def parse_expr_list(g):
    elems = []
    while not g.at_end():
        elems.append(parse_expr(g))
        if not g.at_end():
            g.expect(',')
    return elems


def parse_generic_args(c):
    """`<` ... `>` of a turbofish; returns the inside as compact text (types only: idents, `::`,
    parentheses, commas, nested `<>`)"""
    c.expect('<')
    depth, parts = 1, []
    while True:
        t = c.peek()
        if t.k == 'eof':
            c.fail('unterminated generic arguments')
        if t.k == 'p' and t.s == '<':
            depth += 1
        elif t.k == 'p' and t.s == '>':
            depth -= 1
            if depth == 0:
                c.pos += 1
                return ''.join(parts)
        elif not (t.k == 'id' or (t.k == 'p' and t.s in '(),:&')):
            c.fail('unexpected token in generic arguments')
        parts.append(t.s)
        c.pos += 1


# ------------------------------------------------------------------------------------------------
# 4. Recognisers
# ------------------------------------------------------------------------------------------------

INT_TYPES = ('i8', 'i16', 'i32', 'i64', 'u8', 'u16', 'u32', 'u64')
VERSIONS = {'V1_5_0': '1.5.0', 'V1_5_1': '1.5.1', 'V1_6_0': '1.6.0',
            'V1_6_1': '1.6.1', 'V1_7_0': '1.7.0', 'V1_7_1': '1.7.1'}
SIMPLE_GETTERS = {'get_double': 'double', 'get_float': 'float',
                  'get_identifier': 'ident', 'get_string': 'string'}


def rec_version(c):
    """`A2lVersion::V1_6_0` -> "1.6.0" """
    c.expect('A2lVersion ::')
    v = c.ident()
    if v not in VERSIONS:
        c.fail('unknown version constant ' + v)
    return VERSIONS[v]


# ---- parser.rs: generate_enum_parser ------------------------------------------------------------

def rec_enum_parse(body):
    """
    let enumname = parser.get_identifier(context)?;
    match &*enumname {
        #(#match_branches)*
        _ => Err(ParserError::InvalidEnumValue{
            filename: parser.filenames[context.fileid].to_string(),
            error_line: parser.last_token_position,
            enumtxt: enumname,
            block: context.element.to_owned(),
            block_line: context.line
        })
    }
    """
    body.expect('let enumname = parser.get_identifier(context)?;')
    body.expect('match &*enumname')
    m = body.group('{')
    body.expect_end()
    items = []
    while not m.at('_ = >'):
        items.append(rec_enum_match_branch(m))
    m.expect('_ = >')
    braced = m.at('{')
    d = m.group('{') if braced else m
    d.expect('Err(ParserError::InvalidEnumValue {'
             ' filename: parser.filenames[context.fileid].to_string(),'
             ' error_line: parser.last_token_position,'
             ' enumtxt: enumname,'
             ' block: context.element.to_owned(),'
             ' block_line: context.line })')
    if braced:
        d.expect_end()
    m.accept(',')
    m.expect_end()
    return items


def rec_enum_match_branch(m):
    """
    #entag => {
        [parser.check_enumitem_version_lower(context, #entag, #min_ver)?;]
        [parser.check_enumitem_version_upper(context, #entag, #max_ver);]
        Ok(Self::#enident)
    }
    (rustfmt writes a branch without version check as  #entag => Ok(Self::#enident),  )
    """
    tag = m.string()
    m.expect('= >')
    vmin = vmax = None
    if m.at('{'):
        b = m.group('{')
        if b.accept('parser.check_enumitem_version_lower(context,'):
            if b.string() != tag:
                b.fail('version check names a different tag than the match arm')
            b.expect(',')
            vmin = rec_version(b)
            b.expect(')?;')
        if b.accept('parser.check_enumitem_version_upper(context,'):
            if b.string() != tag:
                b.fail('version check names a different tag than the match arm')
            b.expect(',')
            vmax = rec_version(b)
            b.expect(');')
        b.expect('Ok(Self::')
        variant = b.ident()
        b.expect(')')
        b.expect_end()
        m.accept(',')
    else:
        m.expect('Ok(Self::')
        variant = m.ident()
        m.expect(') ,')
    return {'tag': tag, 'variant': variant, 'vmin': vmin, 'vmax': vmax}


# ---- parser.rs: generate_item_parser_call -------------------------------------------------------

def rec_item_parser_call(c):
    """One item parser expression; evaluates to a tuple (locationinfo, value).  Returns T.

    int:     {  let (value, is_hex) = parser.get_integer::<u16>(context)?;
                let offset = parser.get_line_offset();
                ((offset, is_hex), value) }
    double / float / ident / string:
             {  let value = parser.get_double(context)?;        (get_float/get_identifier/get_string)
                (parser.get_line_offset(), value) }
    char[N]: parser.get_string_maxlen(context, #dim)?
    array:   {  #(let __arrayitem_N = #itemparser;)*
                ([ #(#names.0),* ], [ #(#names.1),*]) }
    EnumRef: {  let value = #name::parse(parser, context, 0)?;
                (parser.get_line_offset(), value) }
    StructRef:  (0, #name::parse(parser, context, 0)?)
    """
    if c.at('('):
        g = c.group('(')
        g.expect('0 ,')
        name = g.ident()
        g.expect(':: parse(parser, context, 0)?')
        g.expect_end()
        return {'k': 'struct', 'name': name}
    if c.at('parser'):
        c.expect('parser.get_string_maxlen(context,')
        dim = c.number()
        c.expect(')?')
        return {'k': 'string_maxlen', 'dim': dim}
    g = c.group('{')
    if g.accept('let (value, is_hex) = parser.get_integer::<'):
        t = g.ident()
        if t not in INT_TYPES:
            g.fail('unknown integer type ' + t)
        g.expect('>(context)?;')
        g.expect('let offset = parser.get_line_offset();')
        g.expect('((offset, is_hex), value)')
        g.expect_end()
        return {'k': 'int', 't': t}
    if g.accept('let value ='):
        if g.accept('parser .'):
            fn = g.ident()
            if fn not in SIMPLE_GETTERS:
                g.fail('unknown item parser function ' + fn)
            ty = {'k': SIMPLE_GETTERS[fn]}
            g.expect('(context)?;')
        else:
            ty = {'k': 'enum', 'name': g.ident()}
            g.expect(':: parse(parser, context, 0)?;')
        g.expect('(parser.get_line_offset(), value)')
        g.expect_end()
        return ty
    if g.at('let __arrayitem_0 ='):
        elems = []
        while g.accept('let $n =', n='__arrayitem_%d' % len(elems)):
            elems.append(rec_item_parser_call(g))
            g.expect(';')
        if any(e != elems[0] for e in elems):
            g.fail('array elements are parsed with different item parsers')
        names = ['__arrayitem_%d' % i for i in range(len(elems))]
        g.expect('([' + ','.join(n + '.0' for n in names) + '], ['
                 + ','.join(n + '.1' for n in names) + '])')
        g.expect_end()
        return {'k': 'array', 'item': elems[0], 'dim': len(elems)}
    g.fail('unknown item parser fragment')


# ---- parser.rs: generate_struct_item_fragments, default case ------------------------------------

def rec_field(c):
    """let (#itemname_location, #itemname) = #itemparser;"""
    c.expect('let (')
    loc = c.ident()
    c.expect(',')
    name = c.ident()
    c.expect(') =')
    if loc != '__%s_location' % name:
        c.fail('location variable %s does not belong to field %s' % (loc, name))
    ty = rec_item_parser_call(c)
    c.expect(';')
    return {'name': name, 'ty': ty}


# ---- parser.rs: generate_sequence_parser --------------------------------------------------------

def rec_sequence(c):
    """
    let mut #itemname = Vec::new();
    let mut #itemname_location = Vec::new();
    let mut done = false;
    while !done {
        let current_token = parser.get_tokenpos();
        let sequence_item = {|parser: &mut ParserState, context: &ParseContext| {Ok(#parserfunc)}}(parser, context);
        if sequence_item.is_err() {
            parser.set_tokenpos(current_token);
            done = true;
        }
        else {
            let (location, value) = sequence_item?;
            #stopcheck
            {
                #itemname.push(value);
                #itemname_location.push(location);
            }
        }
    }
    where #stopcheck is empty or
            let stopwords: [&str; #stopword_len] = [#(#stopwords),*];
            if stopwords.contains(&value.as_str()) {
                parser.set_tokenpos(current_token);
                done = true;
            } else
    """
    c.expect('let mut')
    name = c.ident()
    c.expect('= Vec::new();')
    c.expect('let mut $loc = Vec::new();', loc='__%s_location' % name)
    c.expect('let mut done = false;')
    c.expect('while !done')
    w = c.group('{')
    w.expect('let current_token = parser.get_tokenpos();')
    w.expect('let sequence_item =')
    outer = w.group('{')
    outer.expect('|parser: &mut ParserState, context: &ParseContext|')
    inner = outer.group('{')
    outer.expect_end()
    inner.expect('Ok')
    arg = inner.group('(')
    inner.expect_end()
    item = rec_item_parser_call(arg)
    arg.expect_end()
    w.expect('(parser, context);')
    w.expect('if sequence_item.is_err()')
    b = w.group('{')
    b.expect('parser.set_tokenpos(current_token); done = true;')
    b.expect_end()
    w.expect('else')
    e = w.group('{')
    w.expect_end()
    e.expect('let (location, value) = sequence_item?;')
    stop = None
    if e.accept('let stopwords: [&str;'):
        n = e.number()
        e.expect('] =')
        lst = e.group('[')
        stop = []
        while not lst.at_end():
            stop.append(lst.string())
            if not lst.at_end():
                lst.expect(',')
        e.expect(';')
        if n != len(stop):
            e.fail('stopwords array length does not match its type')
        e.expect('if stopwords.contains(&value.as_str())')
        b = e.group('{')
        b.expect('parser.set_tokenpos(current_token); done = true;')
        b.expect_end()
        e.expect('else')
    p = e.group('{')      # the bare block, or the block of the dangling `else` of #stopcheck
    p.expect('$n.push(value); $l.push(location);', n=name, l='__%s_location' % name)
    p.expect_end()
    e.expect_end()
    return {'name': name, 'ty': {'k': 'seq', 'item': item, 'stop': stop}}


# ---- parser.rs: generate_taggeditem_parser & friends --------------------------------------------

def rec_tagged_var_definitions(c):
    """generate_taggeditem_match_arms, var_definitions:
        let mut #itemname: ItemList<#typename> = ItemList::default();     repeat, named
        let mut #itemname: Vec<#typename> = Vec::new();                   repeat, not named
        let mut #tmp_itemname: Option<#typename> = None;                  single, required
        let mut #itemname: Option<#typename> = None;                      single, optional
    returns a list of {var, localvar, type, container}"""
    defs = []
    while c.at('let mut') and c.peek(3).s == ':' and not c.at('let mut next_tag'):
        c.expect('let mut')
        localvar = c.ident()
        c.expect(':')
        container = c.ident()
        c.expect('<')
        typename = c.ident()
        c.expect('> =')
        if container == 'ItemList':
            c.expect('ItemList::default();')
        elif container == 'Vec':
            c.expect('Vec::new();')
        elif container == 'Option':
            c.expect('None;')
        else:
            c.fail('unknown container type ' + container)
        var = localvar
        tmp = localvar.startswith('__tmp_required_')
        if tmp:
            if container != 'Option':
                c.fail('__tmp_required_ variable that is not an Option')
            var = localvar[len('__tmp_required_'):]
        defs.append({'var': var, 'localvar': localvar, 'type': typename,
                     'container': container, 'tmp': tmp})
    return defs


def rec_tagged_match_arm(m, d):
    """generate_taggeditem_match_arms, one arm, checked against its variable definition d:
        #tag_string => {
            parser.require_block(tag, is_block, context)?;       | parser.require_keyword(...)?;
            [parser.check_block_version_lower(context, #tag_string, #min_ver)?;]
            [parser.check_block_version_upper(context, #tag_string, #max_ver);]
            let newitem = #typename::parse(parser, &newcontext, line_offset)?;
            #store_item
        }
    #store_item:   #itemname.push(newitem);                                        (repeat)
                 | parser.handle_multiplicity_error(context, tag, #var.is_some())?;  (single;
                   #var = Some(newitem);                              #var may be __tmp_required_x)
    """
    tag = m.string()
    m.expect('= >')
    b = m.group('{')
    m.accept(',')
    if b.accept('parser.require_block(tag, is_block, context)?;'):
        is_block = True
    elif b.accept('parser.require_keyword(tag, is_block, context)?;'):
        is_block = False
    else:
        b.fail('expected require_block / require_keyword')
    vmin = vmax = None
    if b.accept('parser.check_block_version_lower(context,'):
        if b.string() != tag:
            b.fail('version check names a different tag than the match arm')
        b.expect(',')
        vmin = rec_version(b)
        b.expect(')?;')
    if b.accept('parser.check_block_version_upper(context,'):
        if b.string() != tag:
            b.fail('version check names a different tag than the match arm')
        b.expect(',')
        vmax = rec_version(b)
        b.expect(');')
    b.expect('let newitem =')
    typename = b.ident()
    b.expect(':: parse(parser, &newcontext, line_offset)?;')
    if typename != d['type']:
        b.fail('arm parses %s but the variable holds %s' % (typename, d['type']))
    repeat = d['container'] in ('Vec', 'ItemList')
    if repeat:
        b.expect('$v.push(newitem);', v=d['localvar'])
    else:
        b.expect('parser.handle_multiplicity_error(context, tag, $v.is_some())?;', v=d['localvar'])
        b.expect('$v = Some(newitem);', v=d['localvar'])
    b.expect_end()
    return {'tag': tag, 'type': typename, 'var': d['var'], 'block': is_block, 'repeat': repeat,
            'named': (d['container'] == 'ItemList') if repeat else None,
            'required': False, 'vmin': vmin, 'vmax': vmax}


def rec_tagged_parser_core(c, defs, is_union):
    """generate_taggeditem_parser_core:
        let tag = parser.get_token_text(token);
        let newcontext = ParseContext::from_token(tag, token);
        const TAG_LIST: [&str; #taglist_len] = [#(#taglist),*];          (dropped by hand if unused)
        match tag {
            #(#item_match_arms)*
            _ => { #default_match_arm }
        }
    #default_match_arm:
        if is_block { parser.undo_get_token(); } parser.undo_get_token(); [break;]   (break: loop form only)
      | parser.handle_unknown_taggedstruct_tag(context, tag, is_block, &TAG_LIST)?;    (last item of a block)
    returns (items, is_last_in_block)"""
    c.expect('let tag = parser.get_token_text(token);')
    c.expect('let newcontext = ParseContext::from_token(tag, token);')
    tag_list = None
    if c.accept('const TAG_LIST: [&str;'):
        n = c.number()
        c.expect('] =')
        lst = c.group('[')
        tag_list = []
        while not lst.at_end():
            tag_list.append(lst.string())
            if not lst.at_end():
                lst.expect(',')
        c.expect(';')
        if n != len(tag_list):
            c.fail('TAG_LIST length does not match its type')
    c.expect('match tag')
    m = c.group('{')
    c.expect_end()
    items = []
    for d in defs:
        if m.at('_ = >'):
            m.fail('no match arm for variable ' + d['localvar'])
        items.append(rec_tagged_match_arm(m, d))
    m.expect('_ = >')
    b = m.group('{')
    m.accept(',')
    m.expect_end()
    if b.accept('parser.handle_unknown_taggedstruct_tag(context, tag, is_block, &TAG_LIST)?;'):
        is_last = True
        if tag_list is None:
            b.fail('TAG_LIST used but not defined')
    else:
        is_last = False
        b.expect('if is_block { parser.undo_get_token(); } parser.undo_get_token();')
        if not is_union:
            b.expect('break;')
    b.expect_end()
    tags = [it['tag'] for it in items]
    if tag_list is not None and tag_list != tags:
        c.fail('TAG_LIST differs from the tags of the match arms')
    if len(set(tags)) != len(tags):
        c.fail('duplicate tag in match arms')
    return items, is_last


def rec_tagged(c, have_comment_vec):
    """generate_taggeditem_parser:  #var_definitions, then

    TaggedStruct (loop form):
        loop {
            let next_tag = parser.get_next_tag_or_comment(context)?;
            match next_tag {
                BlockContent::Block(token, is_block, line_offset) => { #parser_core }
                BlockContent::Comment(token, line_offset) => {              (parent is a block)
                    a2lcomment.push(Comment {
                        comment: parser.get_token_text(token).to_string(),
                        is_included: token.fileid != 0,
                        line: context.line,
                        uid: parser.get_next_id(),
                        start_offset: line_offset,
                    });
                }
              | BlockContent::Comment(_token, _start_offset) => { }         (parent is not a block)
                _ => { break; }
            }
        }
    TaggedUnion (if-let form):
        let mut next_tag = parser.get_next_tag_or_comment(context)?;
        if let BlockContent::Block(token, is_block, line_offset) = next_tag { #parser_core }

    then #multiplicity_check (rec_multiplicity_checks).
    returns (item dict, stores_comments: True/False/None(union))"""
    defs = rec_tagged_var_definitions(c)
    stores_comments = None
    if c.accept('loop'):
        form = 'struct'
        lp = c.group('{')
        lp.expect('let next_tag = parser.get_next_tag_or_comment(context)?;')
        lp.expect('match next_tag')
        m = lp.group('{')
        lp.expect_end()
        m.expect('BlockContent::Block(token, is_block, line_offset) = >')
        core = m.group('{')
        m.accept(',')
        items, is_last = rec_tagged_parser_core(core, defs, False)
        if m.accept('BlockContent::Comment(token, line_offset) = >'):
            b = m.group('{')
            b.expect('a2lcomment.push(Comment {'
                     ' comment: parser.get_token_text(token).to_string(),'
                     ' is_included: token.fileid != 0,'
                     ' line: context.line,'
                     ' uid: parser.get_next_id(),'
                     ' start_offset: line_offset });')
            b.expect_end()
            stores_comments = True
            if not have_comment_vec:
                b.fail('a2lcomment is used but not defined')
        else:
            m.expect('BlockContent::Comment(_token, _start_offset) = >')
            m.group('{').expect_end()
            stores_comments = False
        m.accept(',')
        m.expect('_ = >')
        b = m.group('{')
        b.expect('break;')
        b.expect_end()
        m.accept(',')
        m.expect_end()
    else:
        form = 'union'
        c.expect('let mut next_tag = parser.get_next_tag_or_comment(context)?;')
        c.expect('if let BlockContent::Block(token, is_block, line_offset) = next_tag')
        core = c.group('{')
        items, is_last = rec_tagged_parser_core(core, defs, True)
    rec_multiplicity_checks(c, defs, items)
    return {'tagged': form, 'is_last_in_block': is_last, 'items': items}, stores_comments


def rec_multiplicity_checks(c, defs, items):
    """generate_taggeditem_match_arms, multiplicity_check (in item order):
      repeat && required:
        if #itemname.len() == 0 {                                  (or  #itemname.is_empty() )
            parser.error_or_log(ParserError::InvalidMultiplicityNotPresent {
                filename: parser.filenames[context.fileid].to_string(),
                error_line: parser.last_token_position,
                tag: #tag_string.to_string(),
                block: context.element.clone(),
                block_line: context.line,
            })?;
        }
      single && required:
        let #itemname = if let Some(value) = #tmp_itemname { value } else {
            return Err(ParserError::InvalidMultiplicityNotPresent { ...same fields... });
        };
    Every __tmp_required_ variable must be unwrapped; sets item['required']."""
    err = ('ParserError::InvalidMultiplicityNotPresent {'
           ' filename: parser.filenames[context.fileid].to_string(),'
           ' error_line: parser.last_token_position,'
           ' tag: $tag.to_string(),'
           ' block: context.element.clone(),'
           ' block_line: context.line }')
    for d, it in zip(defs, items):
        tagtok = '"%s"' % it['tag']
        if d['tmp']:
            c.expect('let $v = if let Some(value) = $t { value } else', v=d['var'], t=d['localvar'])
            b = c.group('{')
            b.expect('return Err(' + err + ');', tag=tagtok)
            b.expect_end()
            c.expect(';')
            it['required'] = True
        elif it['repeat'] and (c.at('if $v.len() == 0', v=d['var']) or c.at('if $v.is_empty()', v=d['var'])):
            if not c.accept('if $v.len() == 0', v=d['var']):
                c.expect('if $v.is_empty()', v=d['var'])
            b = c.group('{')
            b.expect('parser.error_or_log(' + err + ')?;', tag=tagtok)
            b.expect_end()
            it['required'] = True


# ---- parser.rs: generate_block_parser_generic ---------------------------------------------------

PARSE_SIGNATURE = ('fn parse(parser: &mut ParserState, context: &ParseContext, __start_offset: u32)'
                   ' -> Result<Self, ParserError>')


def rec_block_parse(body):
    """
    let __location_incfile = parser.get_incfilename(context.fileid);
    let __location_line = context.line;
    let __uid = parser.get_next_id();
    [let mut a2lcomment = Vec::new();]
    #(#itemparsers)*                       fields / sequences / tagged groups, [let __dummy = ();]
    #blockcheck
    Ok(Self {
        __block_info: BlockInfo {
            incfile: __location_incfile, line: __location_line, uid: __uid,
            start_offset: __start_offset, end_offset: __end_offset,
            item_location:( #(#location_names),* )
        },
        [a2lcomment,]
        #(#itemnames),*
    })
    #blockcheck (block):
        parser.expect_token(context, A2lTokenType::End)?;
        let __end_offset = parser.get_line_offset();
        let ident = parser.get_identifier(context)?;
        if ident != context.element {
            parser.error_or_log(ParserError::incorrect_end_tag(parser, context, &ident))?;
        }
    #blockcheck (keyword, struct):
        let __end_offset: u32 = 0;
    returns (is_block, items, comments, layout)   layout = field names in item_location order"""
    c = body
    c.expect('let __location_incfile = parser.get_incfilename(context.fileid);')
    c.expect('let __location_line = context.line;')
    c.expect('let __uid = parser.get_next_id();')
    have_comment_vec = c.accept('let mut a2lcomment = Vec::new();')
    items, locations, names, comment_use = [], [], [], []
    while True:
        if c.at('let ('):
            it = rec_field(c)
            locations.append('__%s_location' % it['name'])
            names.append(it['name'])
        elif c.at('let mut') and c.peek(3).s == '=' and not c.at('let mut next_tag'):
            it = rec_sequence(c)
            locations.append('__%s_location' % it['name'])
            names.append(it['name'])
        elif c.at('let mut') or c.at('loop'):
            it, stores = rec_tagged(c, have_comment_vec)
            names.extend(x['var'] for x in it['items'])
            if stores is not None:
                comment_use.append(stores)
        else:
            break
        items.append(it)
    if not (c.at('let __dummy = ();') or c.at('parser.expect_token') or c.at('let __end_offset')):
        c.fail('statement is not an instance of any item parser template')
    if c.accept('let __dummy = ();'):
        if len(locations) != 1:
            c.fail('__dummy location although there are %d locations' % len(locations))
        locations.append('__dummy')
    # the comment vector is either defined, filled by every loop and stored, or absent everywhere
    if have_comment_vec and not (comment_use and all(comment_use)):
        c.fail('a2lcomment is defined but not filled by every tagged loop')
    if not have_comment_vec and any(comment_use):
        c.fail('a2lcomment is filled but not defined')

    if c.accept('parser.expect_token(context, A2lTokenType::End)?;'):
        is_block = True
        c.expect('let __end_offset = parser.get_line_offset();')
        c.expect('let ident = parser.get_identifier(context)?;')
        c.expect('if ident != context.element')
        b = c.group('{')
        b.expect('parser.error_or_log(ParserError::incorrect_end_tag(parser, context, &ident))?;')
        b.expect_end()
    else:
        is_block = False
        c.expect('let __end_offset: u32 = 0;')

    c.expect('Ok')
    ok = c.group('(')
    c.expect_end()
    ok.expect('Self')
    init = ok.group('{')
    ok.expect_end()
    init.expect('__block_info: BlockInfo')
    bi = init.group('{')
    bi.expect('incfile: __location_incfile, line: __location_line, uid: __uid,'
              ' start_offset: __start_offset, end_offset: __end_offset, item_location:')
    loc = bi.group('(')
    bi.expect_end()
    if loc.closer().tc and len(locations) == 1:
        loc.fail('1-tuple item_location')
    got = []
    while not loc.at_end():
        got.append(loc.ident())
        if not loc.at_end():
            loc.expect(',')
    # The order inside item_location decides which tuple index belongs to which field (the writer
    # addresses locations by index), so it is reported ("parse_layout") rather than required to
    # follow the parse order; but it must hold every location variable exactly once.
    if sorted(got) != sorted(locations):
        loc.fail('item_location is (%s), expected the variables (%s)' % (', '.join(got), ', '.join(locations)))
    layout = ['()' if g == '__dummy' else g[2:-len('_location')] for g in got]
    # the order of the field initialisers of `Self { .. }` has no meaning: same set required
    expected_fields = (['a2lcomment'] if have_comment_vec else []) + names
    got = []
    while not init.at_end():
        init.expect(',')
        got.append(init.ident())
    if len(set(names)) != len(names):
        init.fail('duplicate field name')
    if sorted(got) != sorted(expected_fields):
        init.fail('struct is built from (%s), expected (%s)' % (', '.join(got), ', '.join(expected_fields)))
    return is_block, items, have_comment_vec, layout


# ---- writer.rs: generate_enum_writer ------------------------------------------------------------

def rec_enum_display(c):
    """
    impl std::fmt::Display for #typeident {
        fn fmt(&self, f: &mut std::fmt::Formatter<'_>) -> std::fmt::Result {
            let tag = match &self { #(Self::#enident => #entag),* };
            f.write_str(tag)
        }
    }
    returns [{"variant","tag"}]"""
    c.expect("fn fmt(&self, f: &mut std::fmt::Formatter<'_>) -> std::fmt::Result")
    b = c.group('{')
    c.expect_end()
    b.expect('let tag = match &self')
    m = b.group('{')
    arms = []
    while not m.at_end():
        m.expect('Self ::')
        variant = m.ident()
        m.expect('= >')
        arms.append({'variant': variant, 'tag': m.string()})
        if not m.at_end():
            m.expect(',')
    b.expect('; f.write_str(tag)')
    b.expect_end()
    return arms


# ---- writer.rs: generate_block_item_write_cmd ---------------------------------------------------

WRITER_FNS = ('add_integer', 'add_float', 'add_str', 'add_quoted_string')


def rec_write_cmd(c, depth):
    """One write command.  Returns (value, location, desc): the canonical value expression, the
    canonical location expression (None for struct refs) and the description of the writer call.
    The caller checks that value/location are the expected ones for its nesting level.

    int:          writer.add_integer(#itemname, #location.1, #location.0);
    double/float: writer.add_float(#itemname, #location);
    ident:        writer.add_str(&#itemname, #location);
    string/char[]:writer.add_quoted_string(&#itemname, #location);
    EnumRef:      writer.add_str(&#itemname.to_string(), #location);
    StructRef:    #itemname.stringify(&mut writer);
    array:        for idxD in 0..#dim { #write_cmd on #itemname[idxD], #location[idxD] }
    sequence:     for (seqidxD, seqitemD) in #itemname.iter().enumerate() {
                      #write_cmd on [*]seqitemD, (*#location.get(seqidxD).unwrap_or(&#default_location))
                  }                                   #default_location: (0, false) for ints, else 0
                  (hand-cleaned to `for seqitemD in &#itemname {..}` where seqidxD is unused)
    """
    if c.accept('writer .'):
        fn = c.ident()
        if fn not in WRITER_FNS:
            c.fail('unknown writer function ' + fn)
        args = c.group('(')
        c.expect(';')
        a = parse_expr_list(args)
        desc = {'fn': fn}
        if fn == 'add_integer':
            if len(a) != 3 or not a[1].endswith('.1') or not a[2].endswith('.0') or a[1][:-2] != a[2][:-2]:
                args.fail('add_integer arguments are not (value, LOC.1, LOC.0)')
            return a[0], a[1][:-2], desc
        if len(a) != 2:
            args.fail('%s takes (value, location)' % fn)
        value = a[0]
        if fn == 'add_str':
            desc['conv'] = None
            if value.endswith('.to_string()'):
                value = value[:-len('.to_string()')]
                desc['conv'] = 'to_string'
        return value, a[1], desc
    if c.at('for'):
        c.expect('for')
        if c.accept('$i in 0 ..', i='idx%d' % depth):
            dim = c.number()
            b = c.group('{')
            value, loc, inner = rec_write_cmd(b, depth + 1)
            b.expect_end()
            sfx = '[idx%d]' % depth
            if not value.endswith(sfx) or loc is None or not loc.endswith(sfx):
                b.fail('array loop body does not index value and location with idx%d' % depth)
            return value[:-len(sfx)], loc[:-len(sfx)], {'fn': 'array', 'dim': dim, 'item': inner}
        sidx, sitem = 'seqidx%d' % depth, 'seqitem%d' % depth
        if c.accept('($i, $v) in', i=sidx, v=sitem):
            seq = parse_expr(c)
            if not seq.endswith('.iter().enumerate()'):
                c.fail('sequence loop does not iterate over .iter().enumerate()')
            seq = seq[:-len('.iter().enumerate()')]
        else:
            c.expect('$v in', v=sitem)
            if not c.at('&'):
                c.fail('sequence loop without index must iterate over a reference')
            seq = parse_expr(c)
        b = c.group('{')
        value, loc, inner = rec_write_cmd(b, depth + 1)
        b.expect_end()
        if value != sitem:
            b.fail('sequence loop body does not write ' + sitem)
        desc = {'fn': 'seq', 'item': inner, 'default_loc': None}
        if loc is None:
            return seq, None, desc
        default = '(0,false)' if inner['fn'] == 'add_integer' else '0'
        sfx = '.get(%s).unwrap_or(%s)' % (sidx, default)
        if not loc.endswith(sfx):
            b.fail('sequence item location is not LOC%s' % sfx)
        desc['default_loc'] = default
        return seq, loc[:-len(sfx)], desc
    value = parse_expr(c)
    if not value.endswith('.stringify(writer)'):
        c.fail('unknown write command')
    c.expect(';')
    return value[:-len('.stringify(writer)')], None, {'fn': 'stringify'}


# ---- writer.rs: generate_block_item_writers, tagged items ---------------------------------------

def rec_tag_push(c, var, prefix):
    """
    let #tgname_out = if P.__block_info.incfile.is_none() { P.stringify(indent + 1) } else { String::new() };
    tgroup.push(writer::TaggedItemInfo::Tag {
        tag: #tag, item_text: #tgname_out, is_block: #is_block,
        incfile: &P.__block_info.incfile, uid: P.__block_info.uid, line: P.__block_info.line,
        start_offset: P.__block_info.start_offset, end_offset: P.__block_info.end_offset,
        position_restriction: P.pos_restrict(),
    });
    with P = #tgname (inside `for` / `if let`) or self.#tgname (required item)"""
    out = var + '_out'
    c.expect('let $out = if $p.__block_info.incfile.is_none() { $p.stringify(indent + 1) }'
             ' else { String::new() };', out=out, p=prefix)
    c.expect('tgroup.push(writer::TaggedItemInfo::Tag { tag:')
    tag = c.string()
    c.expect(', item_text: $out, is_block:', out=out)
    blk = c.ident()
    if blk not in ('true', 'false'):
        c.fail('is_block is not a literal')
    c.expect(', incfile: &$p.__block_info.incfile,'
             ' uid: $p.__block_info.uid,'
             ' line: $p.__block_info.line,'
             ' start_offset: $p.__block_info.start_offset,'
             ' end_offset: $p.__block_info.end_offset,'
             ' position_restriction: $p.pos_restrict() });', p=prefix)
    return tag, blk == 'true'


def rec_tagged_group_writer(c, out):
    """
    let mut tgroup = Vec::<writer::TaggedItemInfo>::new();
    #(#tgwriters)*
        repeat:    for #tgname in &self.#tgname { <tag push with P = #tgname> }
        required:  <tag push with P = self.#tgname>
        optional:  if let Some(#tgname) = &self.#tgname { <tag push with P = #tgname> }
    [writer::add_comments_to_group(&mut tgroup, &self.a2lcomment);]
    writer.add_group(tgroup);
    Encoding appended to `out`: {"fn":"group_begin"}, one {"tag","var","is_block","repeat","form"} per
    tagged item (form = "for" | "direct" | "if_let", the three shapes above), [{"fn":"add_comments"}],
    {"fn":"add_group"}."""
    c.expect('let mut tgroup = Vec::<writer::TaggedItemInfo>::new();')
    out.append({'fn': 'group_begin'})
    while True:
        if c.accept('for'):
            var = c.ident()
            c.expect('in &self.$v', v=var)
            b = c.group('{')
            tag, blk = rec_tag_push(b, var, var)
            b.expect_end()
            out.append({'tag': tag, 'var': var, 'is_block': blk, 'repeat': True, 'form': 'for'})
        elif c.accept('if let Some('):
            var = c.ident()
            c.expect(') = &self.$v', v=var)
            b = c.group('{')
            tag, blk = rec_tag_push(b, var, var)
            b.expect_end()
            out.append({'tag': tag, 'var': var, 'is_block': blk, 'repeat': False, 'form': 'if_let'})
        elif c.at('let'):
            name = c.peek(1).s
            if not name.endswith('_out'):
                c.fail('expected `let <var>_out`')
            var = name[:-len('_out')]
            tag, blk = rec_tag_push(c, var, 'self.' + var)
            out.append({'tag': tag, 'var': var, 'is_block': blk, 'repeat': False, 'form': 'direct'})
        else:
            break
    if c.accept('writer::add_comments_to_group(&mut tgroup, &self.a2lcomment);'):
        out.append({'fn': 'add_comments'})
    c.expect('writer.add_group(tgroup);')
    out.append({'fn': 'add_group'})


def rec_stringify(c):
    """generate_block_writer_generic:
        pub(crate) fn stringify(&self, indent: usize) -> String {
            let [mut] writer = writer::Writer::new(indent);
            #(#write_items)*
            writer.finish()
        }
    generate_struct_writer:
        pub(crate) fn stringify(&self, writer: &mut writer::Writer) { #(#write_items)* }
    returns (signature kind "indent"|"writer", writer list).
    Encoding of a written field: {"field": name, "loc": "<index into item_location>"|null, "fn": ...}
      fn = add_integer | add_float | add_quoted_string            plain call
      fn = add_str, "conv": null | "to_string"                     ident / enum reference
      fn = stringify                                               struct reference, loc = null
      fn = array, "dim": N, "item": {fn...}                        for idxD in 0..N
      fn = seq, "item": {fn...}, "default_loc": "0"|"(0,false)"|null   for (seqidxD, seqitemD) in ..
    """
    c.expect('fn stringify(&self,')
    if c.accept('indent: usize) -> String'):
        sig = 'indent'
    else:
        c.expect('writer: &mut writer::Writer)')
        sig = 'writer'
    b = c.group('{')
    c.expect_end()
    if sig == 'indent':
        b.expect('let')
        b.accept('mut')
        b.expect('writer = writer::Writer::new(indent);')
    out = []
    while not b.at_end() and not b.at('writer.finish()'):
        if b.at('let mut tgroup'):
            rec_tagged_group_writer(b, out)
            continue
        value, loc, desc = rec_write_cmd(b, 0)
        if not re.fullmatch(r'self\.[A-Za-z_][A-Za-z0-9_]*', value):
            b.fail('written value `%s` is not a field of self' % value)
        entry = {'field': value[len('self.'):], 'loc': None}
        if loc is not None:
            m = re.fullmatch(r'self\.__block_info\.item_location\.([0-9]+)', loc)
            if not m:
                b.fail('location `%s` is not an element of self.__block_info.item_location' % loc)
            entry['loc'] = m.group(1)
        entry.update(desc)
        out.append(entry)
    if sig == 'indent':
        b.expect('writer.finish()')
    b.expect_end()
    return sig, out


# ---- data_structure.rs: generate_block_data_structure_constructor -------------------------------

LAYOUT_LITERAL_RE = re.compile(r'(?:[0-9]+|false|true|[()\[\],]|Vec::<[a-z0-9(),]+>::new\(\))*')


def rec_new(c):
    """
    #[allow(clippy::too_many_arguments)] #[must_use]
    pub fn new(#(#newargs),*) -> Self {
        Self {
            #(#fieldinit),*          name | name: None | name: Vec::new() | name: ItemList::default()
            __block_info: BlockInfo {
                incfile: None, line: 0, uid: 0,
                start_offset: #start_offset, end_offset: 1,
                item_location: ( #(#locationinfo),* )
            }
        }
    }
    returns (args, fields [[name, "arg"|"None"|"Vec::new"|"ItemList::default"]...], defaults)"""
    c.expect('fn new')
    a = c.group('(')
    c.expect('-> Self')
    b = c.group('{')
    c.expect_end()
    args = []
    while not a.at_end():
        args.append(a.ident())
        a.expect(':')
        depth = 0                      # the argument type: anything up to the next `,` outside <>
        while not a.at_end() and not (depth == 0 and a.at(',')):
            t = a.peek()
            if t.k == 'p' and t.s == '<':
                depth += 1
            elif t.k == 'p' and t.s == '>':
                depth -= 1
            elif not (t.k == 'id' or (t.k == 'p' and t.s in ':(),[];') or t.k == 'num'):
                a.fail('unexpected token in argument type')
            if t.k == 'p' and t.s in '([':
                a.group(t.s)
            else:
                a.pos += 1
        if not a.at_end():
            a.expect(',')
    b.expect('Self')
    init = b.group('{')
    b.expect_end()
    fields, defaults = [], None
    while not init.at_end():
        name = init.ident()
        if name == '__block_info':
            init.expect(': BlockInfo')
            bi = init.group('{')
            bi.expect('incfile: None, line: 0, uid: 0, start_offset:')
            start = bi.number()
            bi.expect(', end_offset:')
            end = bi.number()
            bi.expect(', item_location:')
            layout = parse_expr(bi)
            bi.expect_end()
            if not LAYOUT_LITERAL_RE.fullmatch(layout):
                bi.fail('item_location default `%s` is not a literal' % layout)
            defaults = {'start_offset': str(start), 'end_offset': str(end), 'item_location': layout}
            init.expect_end()          # __block_info is the last initialiser
            break
        if init.accept(': None'):
            fields.append([name, 'None'])
        elif init.accept(': Vec::new()'):
            fields.append([name, 'Vec::new'])
        elif init.accept(': ItemList::default()'):
            fields.append([name, 'ItemList::default'])
        else:
            fields.append([name, 'arg'])
        init.expect(',')
    if defaults is None:
        init.fail('no __block_info initialiser')
    if [f[0] for f in fields if f[1] == 'arg'] != args:
        init.fail('constructor arguments and shorthand field initialisers differ')
    return args, fields, defaults


# ---- data_structure.rs: generate_block_data_structure_partialeq ---------------------------------

def rec_eq(c):
    """
    fn eq(&self, other: &Self) -> bool { #(self.#name == other.#name)&&* }
    fn eq(&self, _other: &Self) -> bool { true }
    """
    c.expect('fn eq(&self,')
    if c.accept('_other: &Self) -> bool'):
        b = c.group('{')
        b.expect('true')
        b.expect_end()
        c.expect_end()
        return []
    c.expect('other: &Self) -> bool')
    b = c.group('{')
    c.expect_end()
    fields = []
    while True:
        b.expect('self .')
        name = b.ident()
        b.expect('== other . $n', n=name)
        fields.append(name)
        if b.at_end():
            return fields
        b.expect('&&')


# ---- specification_orig.rs (hand-written): impl PositionRestricted ------------------------------

def rec_pos_restrict(c):
    """
    impl PositionRestricted for X {}                                              -> None
    impl PositionRestricted for X { fn pos_restrict(&self) -> Option<u16> { Some(E) } }
         with E an integer literal or self.<field>                               -> "Some(E)"
    """
    if c.at_end():
        return None
    c.expect('fn pos_restrict(&self) -> Option<u16>')
    b = c.group('{')
    c.expect_end()
    b.expect('Some')
    g = b.group('(')
    b.expect_end()
    if g.peek().k == 'num':
        e = str(g.number())
    else:
        g.expect('self .')
        e = 'self.' + g.ident()
    g.expect_end()
    return 'Some(%s)' % e


# ---- the two hand-written elements --------------------------------------------------------------
# `impl A2ml {..}` and `impl IfData {..}` are not generated.  Their complete token sequence (new,
# parse, stringify) is pinned here; any difference is a failure.  The JSON emitted for them is fixed.

SPECIAL_IMPLS = {
    'A2ml': r'''
    #[must_use]
    pub fn new(a2ml_text: String) -> Self {
        let merged_a2ml_text = a2ml_text.clone();
        Self {
            a2ml_text,
            merged_a2ml_text,
            __block_info: BlockInfo {
                incfile: None,
                line: 0,
                uid: 0,
                start_offset: 1,
                end_offset: 1,
                item_location: (0, ()),
            },
        }
    }
    pub(crate) fn parse(
        parser: &mut ParserState,
        context: &ParseContext,
        start_offset: u32,
    ) -> Result<Self, ParserError> {
        let fileid = parser.get_incfilename(context.fileid);
        let line = context.line;
        let uid = parser.get_next_id();

        let token = parser.expect_token(context, A2lTokenType::String)?;
        let __a2ml_text_location = parser.get_line_offset();
        // the writer always uses "\n" line endings, so the text is stored in that form
        let a2ml_text = parser.get_token_text(token).replace("\r\n", "\n");

        let filename = &parser.filenames[context.fileid];
        let merged_a2ml_text = match a2ml::parse_a2ml(filename, &a2ml_text) {
            Ok((a2mlspec, computed_merged_a2ml_text)) => {
                parser.a2mlspec.push(a2mlspec);
                computed_merged_a2ml_text
            }
            Err(errmsg) => {
                parser.error_or_log(ParserError::A2mlError {
                    filename: filename.to_string(),
                    error_line: parser.last_token_position,
                    errmsg,
                })?;
                a2ml_text.clone()
            }
        };

        parser.expect_token(context, A2lTokenType::End)?;
        let text_lines = u32::try_from(parser.get_token_text(token).matches('\n').count());
        let end_offset = parser
            .get_line_offset()
            .saturating_sub(text_lines.unwrap_or(0));
        let ident = parser.get_identifier(context)?;
        if ident != "A2ML" {
            parser.error_or_log(ParserError::IncorrectEndTag {
                filename: parser.filenames[context.fileid].to_string(),
                error_line: parser.last_token_position,
                tag: ident.clone(),
                block: context.element.clone(),
                block_line: context.line,
            })?;
        }
        Ok(A2ml {
            a2ml_text,
            merged_a2ml_text,
            __block_info: BlockInfo {
                incfile: fileid,
                line,
                uid,
                start_offset,
                end_offset,
                item_location: (__a2ml_text_location, ()),
            },
        })
    }
    pub(crate) fn stringify(&self, indent: usize) -> String {
        let mut writer = writer::Writer::new(indent);
        let mut text_fixed = self
            .a2ml_text
            .split("\r\n")
            .collect::<Vec<&str>>()
            .join("\n");
        if self.__block_info.end_offset == 0 && text_fixed.ends_with(|c: char| c.is_ascii_whitespace() && c != '\r') {
            text_fixed.push('\n');
        }
        writer.add_str_raw(&text_fixed, self.__block_info.item_location.0);
        writer.finish()
    }
''',
    'IfData': r'''
    #[must_use]
    pub fn new() -> Self {
        Self {
            ifdata_items: None,
            ifdata_valid: false,
            __block_info: BlockInfo {
                incfile: None,
                line: 0,
                uid: 0,
                start_offset: 1,
                end_offset: 1,
                item_location: (),
            },
        }
    }
    pub(crate) fn parse(
        parser: &mut ParserState,
        context: &ParseContext,
        start_offset: u32,
    ) -> Result<Self, ParserError> {
        let fileid = parser.get_incfilename(context.fileid);
        let line = context.line;
        let uid = parser.get_next_id();
        let (ifdata_items, ifdata_valid) = ifdata::parse_ifdata(parser, context)?;
        parser.expect_token(context, A2lTokenType::End)?;
        let end_offset = parser.get_line_offset();
        let ident = parser.get_identifier(context)?;
        if ident != "IF_DATA" {
            parser.error_or_log(ParserError::IncorrectEndTag {
                filename: parser.filenames[context.fileid].to_string(),
                error_line: parser.last_token_position,
                tag: ident.clone(),
                block: context.element.clone(),
                block_line: context.line,
            })?;
        }
        Ok(IfData {
            ifdata_items,
            ifdata_valid,
            __block_info: BlockInfo {
                incfile: fileid,
                line,
                uid,
                start_offset,
                end_offset,
                item_location: (),
            },
        })
    }
    pub(crate) fn stringify(&self, indent: usize) -> String {
        if let Some(ifdata_items) = &self.ifdata_items {
            ifdata_items.write(indent - 1)
        } else {
            String::new()
        }
    }
''',
}

# fixed JSON for the two hand-written elements (both end with expect_token(End) + end-tag check)
SPECIAL_EXTRA = {
    'A2ml': {
        'writer_sig': 'indent',
        'writer': [{'field': 'a2ml_text', 'loc': '0', 'fn': 'add_str_raw', 'conv': 'crlf_to_lf'}],
        'new_args': ['a2ml_text'],
        'new_fields': [['a2ml_text', 'arg'], ['merged_a2ml_text', 'clone_of_a2ml_text']],
        'new_defaults': {'start_offset': '1', 'end_offset': '1', 'item_location': '(0,())'},
    },
    'IfData': {
        'writer_sig': 'indent',
        'writer': [{'field': 'ifdata_items', 'loc': None, 'fn': 'ifdata_write'}],
        'new_args': [],
        'new_fields': [['ifdata_items', 'None'], ['ifdata_valid', 'false']],
        'new_defaults': {'start_offset': '1', 'end_offset': '1', 'item_location': '()'},
    },
}


def rec_special_impl(c, name):
    pat = snippet(SPECIAL_IMPLS[name], None)
    for p in pat:
        t = c.peek()
        if t.k != p.k or t.key != p.key:
            c.fail('hand-written impl %s differs from the pinned text (expected `%s`)' % (name, p.s))
        c.pos += 1
    c.expect_end()


# ------------------------------------------------------------------------------------------------
# 5. Top-level scan, classification, output
# ------------------------------------------------------------------------------------------------

IGNORED_TRAITS = ('std::fmt::Debug', 'A2lObject', 'A2lObjectName', 'A2lObjectNameSetter', 'Default')
FN_ATTRIBUTES = ('# [ allow ( clippy :: too_many_arguments ) ]', '# [ must_use ]')


class Translator:
    def __init__(self, toks):
        self.toks = toks
        self.match = match_brackets(toks)
        self.failures = []
        self.parse = {}        # type -> ('enum', enumitems) | ('generic', is_block, items, comments) | ('special',)
        self.extra = {}        # type -> dict
        self.seen = set()      # (type, function) to detect duplicates
        self.enum_defs = {}    # enum name -> variant list
        self.struct_defs = set()

    def failure(self, typename, function, reason, near):
        self.failures.append({'type': typename, 'function': function, 'reason': reason, 'near': near})

    def attempt(self, typename, function, recogniser, cursor):
        """run one recogniser; record a failure instead of a result if it does not match"""
        if (typename, function) in self.seen:
            self.failure(typename, function, 'defined more than once', cursor.near())
            return None
        self.seen.add((typename, function))
        try:
            return (recogniser(cursor),)
        except Unrecognised as e:
            self.failure(typename, function, e.reason, e.near)
            return None

    def ex(self, typename):
        return self.extra.setdefault(typename, {})

    # ---- items of the file ----

    def scan(self):
        c = Cursor(self.toks, self.match, 0, len(self.toks))
        cfg_test = False
        while not c.at_end():
            t = c.peek()
            if t.k == 'p' and t.s == '#':
                c.pos += 1
                c.accept('!')
                g = c.group('[')
                cfg_test = g.at('cfg(test)')
                continue
            if c.accept('pub'):
                if c.at('('):
                    c.group('(')
                continue
            if c.accept('use'):
                while not c.accept(';'):
                    c.pos += 1
            elif c.accept('impl'):
                self.scan_impl(c)
            elif c.accept('enum'):
                name = c.ident()
                self.scan_enum_def(name, c.group('{'))
            elif c.accept('struct'):
                self.struct_defs.add(c.ident())
                self.skip_item(c)
            elif c.accept('mod'):
                name = c.ident()
                if not cfg_test:
                    self.failure('mod ' + name, '-', 'module that is not #[cfg(test)]', c.near())
                self.skip_item(c)
            elif t.k == 'id' and t.s in ('trait', 'fn', 'const', 'static', 'type'):
                c.pos += 1
                self.skip_item(c)
            else:
                self.failure('<file>', '-', 'unexpected top-level token `%s`' % t.s, c.near())
                c.pos += 1
            cfg_test = False

    @staticmethod
    def skip_item(c):
        """skip to the end of the current item: a `;` or the first brace group at this level"""
        while not c.at_end():
            t = c.peek()
            if t.k == 'p' and t.s == ';':
                c.pos += 1
                return
            if t.k == 'p' and t.s in OPEN:
                c.group(t.s)
                if t.s == '{':
                    return
            else:
                c.pos += 1

    def scan_enum_def(self, name, g):
        variants = []
        while not g.at_end():
            variants.append(g.ident())
            if g.accept('='):
                g.accept('-')
                g.number()
            if not g.at_end():
                g.expect(',')
        self.enum_defs[name] = variants

    def scan_impl(self, c):
        start = c.pos
        while not c.at('{'):
            if c.at_end():
                self.failure('<file>', 'impl', 'impl without body', c.near())
                return
            if c.at('(') or c.at('['):
                c.group(c.peek().s)
            else:
                c.pos += 1
        header = [t.s for t in self.toks[start:c.pos]]
        head = ''.join(header)
        body = c.group('{')
        if len(header) == 3 and header[1] == 'for' and header[0] in ('ParseableA2lObject', 'PartialEq',
                                                                     'PositionRestricted'):
            trait, typename = header[0], header[2]
            if trait == 'ParseableA2lObject':
                self.impl_parse(typename, body)
            elif trait == 'PartialEq':
                r = self.attempt(typename, 'eq', rec_eq, body)
                if r:
                    self.ex(typename)['eq'] = r[0]
            else:
                r = self.attempt(typename, 'pos_restrict', rec_pos_restrict, body)
                if r:
                    self.ex(typename)['pos_restrict'] = r[0]
        elif head.startswith('std::fmt::Displayfor') and len(header) == 9:
            typename = header[8]
            r = self.attempt(typename, 'fmt', rec_enum_display, body)
            if r:
                self.ex(typename)['writer'] = r[0]
        elif len(header) == 1:
            self.impl_inherent(header[0], body)
        elif 'for' in header and ''.join(header[:header.index('for')]).split('<')[0] in IGNORED_TRAITS:
            pass        # Debug, A2lObject<..> (layout access, merge_includes), names, Default
        else:
            self.failure(' '.join(header), 'impl', 'impl header not known to the translator', body.near())

    def impl_parse(self, typename, c):
        def rec(c):
            c.expect(PARSE_SIGNATURE)
            body = c.group('{')
            c.expect_end()
            if body.at('let enumname'):
                return ('enum', rec_enum_parse(body))
            return ('generic',) + rec_block_parse(body)
        r = self.attempt(typename, 'parse', rec, c)
        if r:
            self.parse[typename] = r[0]

    def impl_inherent(self, typename, c):
        """`impl X { fn new.. }` / `impl X { fn stringify.. }`; for A2ml/IfData the pinned text.
        Any other inherent function is a failure (an inherent `parse` would shadow the trait's)."""
        if typename in SPECIAL_IMPLS:
            r = self.attempt(typename, 'parse', lambda cur: rec_special_impl(cur, typename), c)
            if r:
                self.parse[typename] = ('special',)
                self.ex(typename).update(json.loads(json.dumps(SPECIAL_EXTRA[typename])))
            return
        while not c.at_end():
            while c.at('#'):
                if not any(c.accept(a) for a in FN_ATTRIBUTES):
                    self.failure(typename, 'impl', 'unexpected attribute on an inherent function', c.near())
                    return
            if c.accept('pub') and c.at('('):
                c.group('(')
            if not c.at('fn'):
                self.failure(typename, 'impl', 'unexpected item in inherent impl', c.near())
                return
            name = c.peek(1).s
            # cursor over exactly this function: `fn name (..) [-> T] {..}`
            end = c.pos
            while self.toks[end].s != '{' or self.toks[end].k != 'p':
                end = self.match[end] + 1 if (self.toks[end].k == 'p' and self.toks[end].s in OPEN) else end + 1
            end = self.match[end] + 1
            f = Cursor(self.toks, self.match, c.pos, end)
            c.pos = end
            if name == 'new':
                r = self.attempt(typename, 'new', rec_new, f)
                if r:
                    e = self.ex(typename)
                    e['new_args'], e['new_fields'], e['new_defaults'] = r[0]
            elif name == 'stringify':
                r = self.attempt(typename, 'stringify', rec_stringify, f)
                if r:
                    e = self.ex(typename)
                    e['writer_sig'], e['writer'] = r[0]
            else:
                self.failure(typename, name, 'unexpected inherent function', f.near())

    # ---- result ----

    def result(self):
        # usage of each type: from tagged-item arms / as StructRef / as EnumRef
        tagged_use, struct_use, enum_use = {}, {}, {}

        def walk_ty(owner, ty):
            if ty['k'] == 'struct':
                struct_use.setdefault(ty['name'], owner)
            elif ty['k'] == 'enum':
                enum_use.setdefault(ty['name'], owner)
            elif ty['k'] in ('array', 'seq'):
                walk_ty(owner, ty['item'])

        for name, p in self.parse.items():
            if p[0] != 'generic':
                continue
            for it in p[2]:
                if 'tagged' in it:
                    for x in it['items']:
                        tagged_use.setdefault(x['type'], name)
                else:
                    walk_ty(name, it['ty'])

        types = {}
        for name, p in sorted(self.parse.items()):
            if p[0] == 'enum':
                types[name] = {'kind': 'enum', 'special': None, 'items': [], 'comments': False,
                               'enumitems': p[1]}
                if name not in self.enum_defs:
                    self.failure(name, 'parse', 'enum parser for a type that is not an enum', '')
            elif p[0] == 'special':
                types[name] = {'kind': 'block', 'special': name, 'items': [], 'comments': False}
            else:
                _, is_block, items, comments, layout = p
                self.ex(name)['parse_layout'] = layout
                if is_block:
                    kind = 'block'
                elif name in struct_use and name in tagged_use:
                    self.failure(name, 'parse', 'used both as tagged item (in %s) and as struct reference (in %s)'
                                 % (tagged_use[name], struct_use[name]), '')
                    continue
                else:
                    # keyword vs struct by usage, see module docstring; unreferenced (root) = keyword
                    kind = 'struct' if name in struct_use else 'keyword'
                types[name] = {'kind': kind, 'special': None, 'items': items, 'comments': comments}

        # references must resolve, and to the right sort of type
        have_failed_parse = {f['type'] for f in self.failures if f['function'] == 'parse'}
        for used, sort in ((tagged_use, 'tagged'), (struct_use, 'struct'), (enum_use, 'enum')):
            for name, owner in sorted(used.items()):
                if name not in types:
                    if name not in have_failed_parse:
                        self.failure(owner, 'parse', 'reference to unknown type ' + name, '')
                    continue
                kind = types[name]['kind']
                ok = {'tagged': kind in ('block', 'keyword'), 'struct': kind == 'struct',
                      'enum': kind == 'enum'}[sort]
                if not ok:
                    self.failure(owner, 'parse', '%s is referenced as %s item but is a %s' % (name, sort, kind), '')

        # every translated type needs the complete set of companion functions
        extra = {}
        for name, ty in types.items():
            e = dict(self.extra.get(name, {}))
            if ty['kind'] == 'enum':
                needed = (('writer', 'fmt'),)
                e.setdefault('pos_restrict', None)
                e.update({'writer_sig': 'display', 'eq': None, 'new_args': None, 'new_fields': None,
                          'new_defaults': None})
            elif ty['kind'] == 'struct':
                needed = (('writer', 'stringify'), ('eq', 'eq'), ('new_args', 'new'))
                e.setdefault('pos_restrict', None)     # structs are never tagged items
            else:
                needed = (('writer', 'stringify'), ('eq', 'eq'), ('new_args', 'new'),
                          ('pos_restrict', 'pos_restrict'))
            for key, fn in needed:
                # a function that was found but not recognised has already been reported
                if key not in e and (name, fn) not in self.seen:
                    self.failure(name, fn, 'function not found', '')
            extra[name] = e
        return {'types': types, 'extra': extra, 'failures': self.failures}


def main():
    ap = argparse.ArgumentParser(description=__doc__.split('\n')[0])
    ap.add_argument('--src', default='/repo/a2lfile/src/specification.rs')
    ap.add_argument('--out', required=True)
    args = ap.parse_args()
    try:
        with open(args.src, encoding='utf-8') as f:
            toks = lex(f.read())
        tr = Translator(toks)
    except (OSError, LexError) as e:
        sys.stderr.write('spec_from_generated: %s\n' % e)
        return 2
    tr.scan()
    res = tr.result()
    os.makedirs(os.path.dirname(os.path.abspath(args.out)), exist_ok=True)
    with open(args.out, 'w', encoding='utf-8') as f:
        json.dump(res, f, indent=1, sort_keys=True)
        f.write('\n')
    kinds = {}
    for name, ty in res['types'].items():
        k = 'special' if ty['special'] else ty['kind']
        kinds[k] = kinds.get(k, 0) + 1
    n_parse_impls = sum(1 for (t, fn) in tr.seen if fn == 'parse' and t not in SPECIAL_IMPLS)
    sys.stderr.write('spec_from_generated: %d types (%d block + %d keyword + %d special A2ml/IfData, %d enum, '
                     '%d struct) from %d `impl ParseableA2lObject`; %d failure(s)\n'
                     % (len(res['types']), kinds.get('block', 0), kinds.get('keyword', 0),
                        kinds.get('special', 0), kinds.get('enum', 0), kinds.get('struct', 0),
                        n_parse_impls, len(res['failures'])))
    for fl in res['failures']:
        sys.stderr.write('  FAIL %s::%s: %s  [%s]\n' % (fl['type'], fl['function'], fl['reason'], fl['near']))
    return 3 if res['failures'] else 0


if __name__ == '__main__':
    sys.exit(main())
