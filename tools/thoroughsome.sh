#!/bin/bash
cd /verif
for c in "$@"; do
  s=$(date +%s)
  ./vcheck check $c --tier thorough > build/thorough_$c.out 2>&1
  rc=$?
  echo "$c rc=$rc $(( $(date +%s) - s ))s $(grep -c VIOLATION build/thorough_$c.out) violations"
done
