"""Shared machinery of the per-property checks: Coq build + assumption audit, model
extraction, harness build, sharded correspondence runs, verdict and evidence."""
import hashlib
import json
import os
import random
import re
import subprocess
import sys
import time
from concurrent.futures import ThreadPoolExecutor

VERIF = os.path.dirname(os.path.dirname(os.path.abspath(__file__)))
REPO = '/repo'
COQ = os.path.join(VERIF, 'coq')
BUILD = os.path.join(VERIF, 'build')
ML = os.path.join(BUILD, 'ml')
CARGO_TARGET = os.path.join(BUILD, 'cargo-target')
HARNESS = os.path.join(VERIF, 'harness', 'implrun')
NPROC = min(16, os.cpu_count() or 4)
GUARD = 'a2lfile_verif'

sys.path.insert(0, os.path.join(VERIF, 'tools'))
import sx  # noqa: E402

FORBIDDEN = re.compile(
    r'\b(Admitted|admit|Axiom|Axioms|Parameter|Parameters|Conjecture|Conjectures|Hypothesis|Hypotheses|'
    r'Variable|Variables|Unset\s+Guard|bypass_check|type-in-type|impredicative-set|Admit\s+Obligations|'
    r'Unset\s+Universe\s+Checking|Unset\s+Positivity)\b')

# axioms of the standard library that may appear in Print Assumptions (named in DESIGN.md section 7)
ALLOWED_AXIOMS = {
    'FunctionalExtensionality.functional_extensionality_dep',
    'Coq.Logic.FunctionalExtensionality.functional_extensionality_dep',
}
ALLOWED_AXIOM_PREFIXES = (
    'PrimFloat.', 'FloatAxioms.', 'Uint63.', 'PrimInt63.', 'Coq.Floats.', 'Coq.Numbers.Cyclic.Int63.',
    'FloatOps.', 'SpecFloat.', 'Sint63.', 'Uint63Axioms.', 'Sint63Axioms.', 'PrimFloat', 'FloatLemmas.',
)


def sh(cmd, cwd=None, timeout=None, env=None, input=None):
    e = dict(os.environ)
    e.update({'CARGO_NET_OFFLINE': 'true'})
    if env:
        e.update(env)
    p = subprocess.run(cmd, cwd=cwd, shell=isinstance(cmd, str), stdout=subprocess.PIPE,
                       stderr=subprocess.STDOUT, timeout=timeout, env=e, input=input)
    return p.returncode, p.stdout.decode('utf-8', 'replace')


class CheckFailure(Exception):
    """infrastructure failure (not a property verdict)"""


# ----------------------------------------------------------------------------- Coq
def coq_makefile():
    mk = os.path.join(COQ, 'Makefile')
    proj = os.path.join(COQ, '_CoqProject')
    if (not os.path.exists(mk)) or os.path.getmtime(mk) < os.path.getmtime(proj):
        rc, out = sh('coq_makefile -f _CoqProject -o Makefile', cwd=COQ, timeout=120)
        if rc != 0:
            raise CheckFailure('coq_makefile failed:\n' + out)


def coq_make(targets, timeout=1500):
    """full .vo build of the given targets (paths relative to coq/); returns (ok, log)"""
    coq_makefile()
    tg = ' '.join(t if t.endswith('.vo') else t + 'o' for t in targets)
    rc, out = sh('timeout %d make -j%d %s' % (timeout, NPROC, tg), cwd=COQ, timeout=timeout + 30)
    return rc == 0, out


def scan_forbidden():
    """the development must not contain admits, axioms, or switched-off kernel checks"""
    hits = []
    for root, _, files in os.walk(os.path.join(COQ, 'theories')):
        for f in files:
            if not f.endswith('.v'):
                continue
            p = os.path.join(root, f)
            text = open(p, encoding='utf-8').read()
            text_nc = re.sub(r'"[^"]*"', '""', strip_coq_comments(text))   # string literals cannot declare anything
            in_section = 0
            for ln, line in enumerate(text_nc.split('\n'), 1):
                if re.match(r'\s*Section\b', line):
                    in_section += 1
                if re.match(r'\s*End\b', line) and in_section > 0:
                    in_section -= 1
                for m in FORBIDDEN.finditer(line):
                    w = m.group(1)
                    if in_section and re.match(r'(Variable|Variables|Hypothesis|Hypotheses)$', w):
                        continue
                    hits.append('%s:%d: %s' % (os.path.relpath(p, VERIF), ln, line.strip()))
    proj = open(os.path.join(COQ, '_CoqProject')).read()
    for bad in ('type-in-type', 'impredicative-set', '-vos', '-vok', 'bypass'):
        if bad in proj:
            hits.append('_CoqProject: ' + bad)
    return hits


def strip_coq_comments(text):
    out = []
    depth = 0
    i = 0
    n = len(text)
    instr = False
    while i < n:
        c = text[i]
        if depth == 0 and c == '"':
            instr = not instr
            out.append(c)
            i += 1
            continue
        if not instr and text.startswith('(*', i):
            depth += 1
            i += 2
            continue
        if not instr and depth > 0 and text.startswith('*)', i):
            depth -= 1
            i += 2
            continue
        if depth == 0:
            out.append(c)
        elif c == '\n':
            out.append(c)
        i += 1
    return ''.join(out)


def check_props_file(prop_id, extra_allowed=()):
    """compile Props/<id>.v (always, to capture Print Assumptions) and audit it.
    returns dict(ok, theorems, assumptions, log, problems)"""
    rel = 'theories/Props/%s.v' % prop_id
    path = os.path.join(COQ, rel)
    text = strip_coq_comments(open(path, encoding='utf-8').read())
    problems = []
    theorems = re.findall(r'^\s*(?:Theorem|Corollary)\s+([A-Za-z0-9_\']+)', text, re.M)
    closed = re.findall(r'^\s*(?:Example|Lemma)\s+([A-Za-z0-9_\']+)', text, re.M)
    printed = re.findall(r'^\s*Print Assumptions\s+([A-Za-z0-9_\']+)\s*\.', text, re.M)
    for t in theorems:
        if t not in printed:
            problems.append('theorem %s has no Print Assumptions' % t)
    if not theorems:
        problems.append('no theorem in ' + rel)
    rc, out = sh('timeout 900 coqc -q -Q theories A2L %s' % rel, cwd=COQ, timeout=930)
    if rc != 0:
        m = re.search(r'File "[^"]*", line (\d+)', out)
        failing = None
        if m:
            ln = int(m.group(1))
            src = open(path, encoding='utf-8').read().split('\n')
            for k in range(ln - 1, -1, -1):
                mm = re.match(r'\s*(?:Theorem|Corollary|Example|Lemma|Check)\s+([A-Za-z0-9_\']+)', src[k])
                if mm:
                    failing = mm.group(1)
                    break
        return dict(ok=False, theorems=theorems, closed=closed, assumptions={}, log=out, problems=problems,
                    failing=failing or 'unknown')
    # parse Print Assumptions blocks in order
    assumptions = {}
    blocks = re.split(r'(?m)^(?=Closed under the global context|Axioms:|Section Variables:)', out)
    results = []
    for b in blocks:
        if b.startswith('Closed under the global context'):
            results.append([])
        elif b.startswith('Axioms:') or b.startswith('Section Variables:'):
            names = re.findall(r'(?m)^([A-Za-z_][A-Za-z0-9_\.\']*)\s*:', b.split('\n', 1)[1] if '\n' in b else '')
            results.append(names)
    if len(results) != len(printed):
        problems.append('could not match Print Assumptions output (%d blocks for %d commands)' % (len(results), len(printed)))
    for name, ax in zip(printed, results):
        assumptions[name] = ax
        for a in ax:
            if a in ALLOWED_AXIOMS or a in extra_allowed or a.startswith(ALLOWED_AXIOM_PREFIXES):
                continue
            problems.append('theorem %s depends on non-allowlisted assumption %s' % (name, a))
    return dict(ok=not problems, theorems=theorems, closed=closed, assumptions=assumptions, log=out,
                problems=problems, failing=None)


# ----------------------------------------------------------------------------- extraction
def build_model(prop_id):
    """extract Run/<id> to OCaml and link it with the generic driver; returns exe path"""
    os.makedirs(ML, exist_ok=True)
    low = prop_id.lower()
    ex = os.path.join(COQ, 'theories', 'Extract', 'Ex%s.v' % prop_id)
    exe = os.path.join(ML, 'modelrun_' + low)
    stamp = os.path.join(ML, low + '.stamp')
    # dependency hash: all .vo the extraction depends on are rebuilt by make beforehand; hash the run file + model sources
    h = hashlib.sha256()
    for root, _, files in sorted(os.walk(os.path.join(COQ, 'theories'))):
        if os.sep + 'Proofs' in root or os.sep + 'Props' in root:
            continue
        for f in sorted(files):
            if f.endswith('.v'):
                h.update(open(os.path.join(root, f), 'rb').read())
    h.update(open(os.path.join(VERIF, 'ocaml', 'sxio_tail.ml'), 'rb').read())
    digest = h.hexdigest()
    if os.path.exists(exe) and os.path.exists(stamp) and open(stamp).read() == digest:
        return exe
    rc, out = sh('timeout 600 coqc -q -Q %s/theories A2L %s' % (COQ, ex), cwd=ML, timeout=630)
    if rc != 0:
        raise CheckFailure('extraction of %s failed:\n%s' % (prop_id, out))
    src = os.path.join(ML, 'modelrun_%s.ml' % low)
    with open(src, 'w') as f:
        f.write(open(os.path.join(ML, low + '.ml')).read())
        f.write('\n')
        f.write(open(os.path.join(VERIF, 'ocaml', 'sxio_tail.ml')).read())
        f.write('\nlet () = main run_%s\n' % low)
    mli = os.path.join(ML, low + '.mli')
    if os.path.exists(mli):
        os.remove(mli)
    rc, out = sh('ocamlfind ocamlopt -O3 -w -a -inline 200 %s -o %s' % (src, exe), cwd=ML, timeout=600)
    if rc != 0:
        raise CheckFailure('ocaml build of %s failed:\n%s' % (prop_id, out))
    open(stamp, 'w').write(digest)
    return exe


# ----------------------------------------------------------------------------- harness
def build_harness(release=False):
    lock = os.path.join(HARNESS, 'Cargo.lock')
    if not os.path.exists(lock):
        import shutil
        shutil.copy(os.path.join(REPO, 'Cargo.lock'), lock)
    cmd = 'cargo build --offline' + (' --release' if release else '')
    rc, out = sh(cmd, cwd=HARNESS, timeout=1500,
                 env={'RUSTFLAGS': '--cfg %s' % GUARD, 'CARGO_TARGET_DIR': CARGO_TARGET})
    if rc != 0:
        raise CheckFailure('harness build failed:\n' + out[-4000:])
    return os.path.join(CARGO_TARGET, 'release' if release else 'debug', 'implrun')


def _limit_memory():
    """an input on which the library allocates without end must end as a dead process, not as a dead machine"""
    import resource
    lim = 6 * 1024 ** 3
    resource.setrlimit(resource.RLIMIT_AS, (lim, lim))


def run_sharded(cmd, lines, timeout=3000, shards=NPROC):
    """run `cmd` (list) over the case lines, sharded; returns list of output lines (same order).
    A shard whose process dies yields 'DIED' for its unanswered lines."""
    n = len(lines)
    if n == 0:
        return []
    shards = max(1, min(shards, n))
    chunks = [lines[i::shards] for i in range(shards)]

    def one(chunk):
        data = ('\n'.join(chunk) + '\n').encode()
        try:
            p = subprocess.run(cmd, input=data, stdout=subprocess.PIPE, stderr=subprocess.PIPE, timeout=timeout, preexec_fn=_limit_memory)
            outl = p.stdout.decode('utf-8', 'replace').split('\n')
            if outl and outl[-1] == '':
                outl.pop()
            rc = p.returncode
        except subprocess.TimeoutExpired as e:
            outl = (e.stdout or b'').decode('utf-8', 'replace').split('\n')[:-1]
            rc = 'TIMEOUT'
        while len(outl) < len(chunk):
            outl.append('DIED rc=%s' % rc if len(outl) == len(outl) else '')
        return outl[:len(chunk)]

    with ThreadPoolExecutor(max_workers=shards) as ex:
        results = list(ex.map(one, chunks))
    out = [None] * n
    for s, res in enumerate(results):
        for j, line in enumerate(res):
            out[s + j * shards] = line
    return out


def run_single(cmd, line, timeout=60):
    try:
        p = subprocess.run(cmd, input=(line + '\n').encode(), stdout=subprocess.PIPE, stderr=subprocess.PIPE,
                           timeout=timeout, preexec_fn=_limit_memory)
        o = p.stdout.decode('utf-8', 'replace').strip().split('\n')
        if p.returncode != 0 or not o or not o[0]:
            return 'DIED rc=%s' % p.returncode
        return o[0]
    except subprocess.TimeoutExpired:
        return 'DIED rc=TIMEOUT'


# ----------------------------------------------------------------------------- findings
def load_known_findings():
    """known_findings.txt: lines  `known: property=<id> key=<key> <text>`  and
    `fixed: property=<id> <commit> <text>` (fixed entries suppress nothing)"""
    path = os.path.join(VERIF, 'known_findings.txt')
    known = {}
    if os.path.exists(path):
        for line in open(path, encoding='utf-8'):
            line = line.strip()
            m = re.match(r'known:\s+property=(\S+)\s+key=(\S+)\s+(.*)', line)
            if m:
                known.setdefault(m.group(1), {})[m.group(2)] = m.group(3)
    return known


# ----------------------------------------------------------------------------- verdict
class Verdict:
    def __init__(self, prop_id, tier, seed):
        self.prop_id = prop_id
        self.tier = tier
        self.seed = seed
        self.t0 = time.time()
        self.violations = []       # (replay_path, no_input_found)
        self.known_hits = {}       # key -> text
        self.coverage = {}
        self.assumptions = []
        self.notes = []
        os.makedirs(os.path.join(BUILD, 'replay'), exist_ok=True)

    def replay_path(self, tag):
        return os.path.join(BUILD, 'replay', '%s_%s_%d.json' % (self.prop_id, tag, len(self.violations)))

    def violation(self, tag, payload, no_input=False):
        path = self.replay_path(tag)
        payload = dict(payload)
        payload['property'] = self.prop_id
        payload['replay_cmd'] = './vcheck replay %s' % path
        with open(path, 'w') as f:
            json.dump(payload, f, indent=1, default=str)
        self.violations.append((path, no_input))

    def known(self, key, text):
        self.known_hits[key] = text

    def finish(self, level='proof'):
        ev = {
            'property_id': self.prop_id,
            'tier': self.tier,
            'seed': self.seed,
            'level': level,
            'coverage': self.coverage,
            'assumptions': self.assumptions,
            'wall_s': round(time.time() - self.t0, 2),
            'violations': len(self.violations),
        }
        if self.notes:
            ev['coverage']['notes'] = self.notes
        if self.known_hits:
            ev['coverage']['known_findings_hit'] = sorted(self.known_hits)
        os.makedirs(os.path.join(VERIF, 'evidence'), exist_ok=True)
        with open(os.path.join(VERIF, 'evidence', self.prop_id + '.json'), 'w') as f:
            json.dump(ev, f, indent=1, default=str)
            f.write('\n')
        for key in sorted(self.known_hits):
            print('KNOWN-FINDING: property=%s %s: %s' % (self.prop_id, key, self.known_hits[key]))
        for path, no_input in self.violations:
            print('VIOLATION property=%s replay=%s%s' % (self.prop_id, path, ' no-failing-input-found' if no_input else ''))
        sys.stdout.flush()
        return 1 if self.violations else 0


def rng_for(seed, prop_id):
    return random.Random('%s/%s' % (seed, prop_id))


def proof_stage(v, prop_id, targets, extra_allowed=(), closed_obligations=0):
    """stage P.  Returns (ok, info). Fills coverage keys."""
    hits = scan_forbidden()
    ok_make, log = coq_make(targets)
    info = {'make_ok': ok_make, 'forbidden': hits}
    if not ok_make:
        m = re.search(r'File "\./([^"]*)", line (\d+)', log)
        info['failing'] = (m.group(1) + ':' + m.group(2)) if m else 'make'
        info['log'] = log[-3000:]
        v.coverage.update({'obligations': 1, 'discharged': 0})
        return False, info
    pr = check_props_file(prop_id, extra_allowed)
    info.update({k: pr[k] for k in ('theorems', 'closed', 'assumptions', 'problems', 'failing')})
    n_ob = len(pr['theorems']) + len(pr['closed']) + closed_obligations
    ok = pr['ok'] and not hits
    if not pr['ok']:
        info['log'] = pr['log'][-3000:]
    v.coverage.update({
        'obligations': n_ob,
        'discharged': n_ob if ok else 0,
        'checker_cmd': 'cd coq && coq_makefile -f _CoqProject -o Makefile && make -j16 %s && coqc -Q theories A2L theories/Props/%s.v'
                       % (' '.join(t + 'o' for t in targets), prop_id),
        'theorems': pr['theorems'],
        'closed_examples': pr['closed'],
        'print_assumptions': {k: (a or 'Closed under the global context') for k, a in pr['assumptions'].items()},
    })
    return ok, info


# ----------------------------------------------------------------------------- model evaluation inside coqc
def run_model_coqc(prop_id, header, terms, ints_per_case, shard_size=400, timeout=900):
    """Evaluate closed Coq terms (each of type list Z with exactly ints_per_case entries) with vm_compute
    inside coqc; used where the model is not extracted (primitive floats).  Returns list of int tuples."""
    work = os.path.join(BUILD, 'coqcases', prop_id)
    os.makedirs(work, exist_ok=True)
    chunks = [terms[i:i + shard_size] for i in range(0, len(terms), shard_size)]

    def one(args):
        idx, chunk = args
        path = os.path.join(work, 'cases_%d.v' % idx)
        with open(path, 'w') as f:
            f.write(header + '\n')
            f.write('Eval vm_compute in (List.concat [\n  ' + ';\n  '.join(chunk) + '\n]).\n')
        rc, out = sh('timeout %d coqc -q -noglob -Q %s/theories A2L %s' % (timeout, COQ, path), cwd=work, timeout=timeout + 30)
        if rc != 0:
            raise CheckFailure('coqc evaluation of model cases failed:\n' + out[-2000:])
        body = out.split('=', 1)[1].rsplit(':', 1)[0]
        nums = [int(x) for x in re.findall(r'-?\d+', body)]
        if len(nums) != ints_per_case * len(chunk):
            raise CheckFailure('unexpected coqc output size %d for %d cases' % (len(nums), len(chunk)))
        return [tuple(nums[i * ints_per_case:(i + 1) * ints_per_case]) for i in range(len(chunk))]

    with ThreadPoolExecutor(max_workers=NPROC) as ex:
        parts = list(ex.map(one, list(enumerate(chunks))))
    return [x for p in parts for x in p]


def run_isolating(cmd, lines, timeout=600, single_timeout=60):
    """like run_sharded, but every case whose shard died is re-run alone, so that a crash is attributed to its input"""
    out = run_sharded(cmd, lines, timeout=timeout)
    died = [i for i, l in enumerate(out) if l is None or l.startswith('DIED')]
    if died:
        with ThreadPoolExecutor(max_workers=NPROC) as ex:
            redo = list(ex.map(lambda i: run_single(cmd, lines[i], timeout=single_timeout), died))
        for i, l in zip(died, redo):
            out[i] = l
    return out


# ----------------------------------------------------------------------------- fresh expansion build (C20)
def build_fresh_harness():
    """a copy of /repo whose specification module is the macro invocation (specification_orig.rs) compiled with the
    IN-TREE a2lmacros, and the same harness linked against it; returns the path of the binary"""
    import shutil
    fresh = os.path.join(BUILD, 'fresh')
    frepo = os.path.join(fresh, 'repo')
    os.makedirs(fresh, exist_ok=True)
    rc, out = sh("rsync -a --delete --exclude target --exclude .git /repo/ %s/" % frepo, timeout=300)
    if rc != 0:
        raise CheckFailure('rsync of /repo failed: ' + out)
    src = os.path.join(frepo, 'a2lfile', 'src')
    shutil.copy(os.path.join(src, 'specification_orig.rs'), os.path.join(src, 'specification.rs'))
    ct = os.path.join(frepo, 'a2lfile', 'Cargo.toml')
    t = open(ct).read()
    t = re.sub(r'\[dependencies\.a2lmacros\]\nversion = "[^"]*"', '[dependencies.a2lmacros]\npath = "../a2lmacros"', t)
    open(ct, 'w').write(t)
    lock = os.path.join(frepo, 'Cargo.lock')
    if os.path.exists(lock):
        os.remove(lock)
    fh = os.path.join(fresh, 'implrun')
    rc, out = sh("rsync -a --delete --exclude target %s/ %s/" % (HARNESS, fh), timeout=120)
    ct = os.path.join(fh, 'Cargo.toml')
    t = open(ct).read().replace('path = "/repo/a2lfile"', 'path = "%s/a2lfile"' % frepo)
    open(ct, 'w').write(t)
    lock = os.path.join(fh, 'Cargo.lock')
    if os.path.exists(lock):
        os.remove(lock)
    cfg = os.path.join(fh, '.cargo', 'config.toml')
    open(cfg, 'w').write('[net]\noffline = true\n')
    target = os.path.join(BUILD, 'cargo-target-fresh')
    rc, out = sh('cargo build --offline', cwd=fh, timeout=2400,
                 env={'RUSTFLAGS': '--cfg %s' % GUARD, 'CARGO_TARGET_DIR': target})
    if rc != 0:
        raise CheckFailure('fresh-expansion build failed:\n' + out[-4000:])
    return os.path.join(target, 'debug', 'implrun')
