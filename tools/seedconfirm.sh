#!/bin/bash
# seedconfirm.sh <seed dir name>: confirm a seeded change against /repo itself:
#  original code: demo exits 0; changed code: cargo test passes and demo exits 1.  /repo is restored afterwards.
set -u
D=/verif/seeded/$1
W=/tmp/seedconfirm/$1
rm -rf $W; mkdir -p $W; cp -r $D/demo $W/demo
sed -i 's#path = "[^"]*a2lfile"#path = "/repo/a2lfile"#; s#path = "[^"]*a2lmacros"#path = "/repo/a2lmacros"#' $W/demo/Cargo.toml
cd $W/demo
git -C /repo status --porcelain | grep -q . && { echo "repo not clean"; exit 2; }
CARGO_NET_OFFLINE=true CARGO_TARGET_DIR=$W/target cargo run --offline -q > $W/orig.txt 2>&1; O=$?
git -C /repo apply $D/patch.diff || { echo "patch does not apply"; exit 2; }
(cd /repo && CARGO_NET_OFFLINE=true CARGO_TARGET_DIR=$W/target-test cargo test --workspace --offline 2>&1 | grep -E "^test result|FAILED|^error" > $W/tests.txt)
CARGO_NET_OFFLINE=true CARGO_TARGET_DIR=$W/target cargo run --offline -q > $W/changed.txt 2>&1; C=$?
git -C /repo checkout -- .
echo "demo original exit=$O changed exit=$C"; tail -3 $W/orig.txt; echo ---; tail -6 $W/changed.txt; echo --- tests; cat $W/tests.txt
FAILS=$(grep -c "FAILED\|^error" $W/tests.txt)
echo "{\"demo_original_exit\": $O, \"demo_changed_exit\": $C, \"test_failures\": $FAILS}" > $D/confirmed.json
rm -rf $W
