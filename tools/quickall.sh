#!/bin/bash
cd /verif
for i in 01 02 03 04 05 06 07 08 09 10 11 12 13 14 15 16 17 18 19 20; do
  s=$(date +%s)
  ./vcheck check C$i --tier quick > build/quick_C$i.out 2>&1
  rc=$?
  echo "C$i rc=$rc $(( $(date +%s) - s ))s $(grep -c VIOLATION build/quick_C$i.out) violations"
done
