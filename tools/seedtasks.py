#!/usr/bin/env python3
"""seedtasks.py <round dir>: one scratch worktree of /repo and one TASK.md per property under <round dir>/Cxx (the task text is
tools/seed_prompt.txt with the property text and the summaries of every change kept under seeded/ for that property)."""
import glob
import json
import os
import subprocess
import sys

rd = sys.argv[1]
t = open(os.path.join(os.path.dirname(os.path.abspath(__file__)), 'seed_prompt.txt')).read()
props = {}
for l in open('/verif/properties.jsonl'):
    p = json.loads(l)
    props[p['id']] = p
for i in range(1, 21):
    pid = 'C%02d' % i
    d = '%s/%s' % (rd, pid)
    os.makedirs(d + '/out', exist_ok=True)
    p = props[pid]
    prop = '%s - %s\n\n%s\n\nQuantified over: %s' % (pid, p['title'], p['statement'], p['quantifier']['text'])
    tried = []
    for m in sorted(glob.glob('/verif/seeded/%s-*/meta.json' % pid)):
        try:
            mj = json.load(open(m))
            tried.append('- ' + (mj.get('summary') or '')[:600].replace('\n', ' '))
        except Exception:
            pass
    subprocess.run(['git', '-C', '/repo', 'worktree', 'add', '--detach', d + '/wt', 'HEAD'], stdout=subprocess.DEVNULL, stderr=subprocess.DEVNULL)
    open(d + '/TASK.md', 'w').write(t.replace('@PROPERTY@', prop).replace('@TRIED@', '\n'.join(tried) or '(nothing yet)')
                                    .replace('@WT@', d + '/wt').replace('@DIR@', d))
print('tasks written under', rd)
