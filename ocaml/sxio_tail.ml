(* Appended after the extracted code of one property (same compilation unit, so the
   extracted types sx / z / positive are in scope).  Reads "<sx>" lines on stdin, prints
   the model's answer as one sx line each. *)

let rec pos_of_int n = if n = 1 then XH else if n land 1 = 1 then XI (pos_of_int (n lsr 1)) else XO (pos_of_int (n lsr 1))

(* hex string -> positive, no size limit *)
let pos_of_hex (h : string) : positive option =
  (* bits most significant first *)
  let bits = ref [] in
  String.iter (fun c ->
    let v = int_of_string ("0x" ^ String.make 1 c) in
    bits := (v land 1 = 1) :: (v land 2 = 2) :: (v land 4 = 4) :: (v land 8 = 8) :: !bits) h;
  (* !bits is least significant first *)
  let rec strip = function [] -> [] | false :: r -> strip r | l -> l in
  let msf = strip (List.rev !bits) in
  match msf with
  | [] -> None
  | _ :: rest -> Some (List.fold_left (fun acc b -> if b then XI acc else XO acc) XH rest)

let hex_of_pos (p : positive) : string =
  let rec bits p acc = match p with XH -> true :: acc | XO q -> bits q (false :: acc) | XI q -> bits q (true :: acc) in
  (* bits returns most significant first *)
  let rec lsf p = match p with XH -> [true] | XO q -> false :: lsf q | XI q -> true :: lsf q in
  ignore bits;
  let l = lsf p in
  let buf = Buffer.create 16 in
  let rec nibbles l acc = match l with
    | [] -> acc
    | _ ->
      let take k l = let rec go k l a = if k = 0 then (List.rev a, l) else match l with [] -> go (k-1) [] (false :: a) | x :: r -> go (k-1) r (x :: a) in go k l [] in
      let (n, rest) = take 4 l in
      let v = List.fold_right (fun b a -> a * 2 + (if b then 1 else 0)) n 0 in
      nibbles rest (v :: acc) in
  let ns = nibbles l [] in
  let rec strip = function 0 :: (_ :: _ as r) -> strip r | l -> l in
  List.iter (fun v -> Buffer.add_string buf (Printf.sprintf "%x" v)) (strip ns);
  Buffer.contents buf

let z_of_tok (t : string) : z =
  (* t starts with 'i' *)
  let neg = String.length t > 1 && t.[1] = '-' in
  let h = String.sub t (if neg then 2 else 1) (String.length t - (if neg then 2 else 1)) in
  match pos_of_hex h with
  | None -> Z0
  | Some p -> if neg then Zneg p else Zpos p

let tok_of_z (v : z) : string =
  match v with Z0 -> "i0" | Zpos p -> "i" ^ hex_of_pos p | Zneg p -> "i-" ^ hex_of_pos p

let chars_of_hex (h : string) : char list =
  let n = String.length h / 2 in
  List.init n (fun i -> Char.chr (int_of_string ("0x" ^ String.sub h (2 * i) 2)))

let hex_of_chars (l : char list) : string =
  let buf = Buffer.create 16 in
  List.iter (fun c -> Buffer.add_string buf (Printf.sprintf "%02x" (Char.code c))) l;
  Buffer.contents buf

let parse_line (line : string) : sx =
  let toks = List.filter (fun s -> s <> "") (String.split_on_char ' ' line) in
  let rec value toks = match toks with
    | [] -> failwith "eol"
    | "(" :: r -> let (l, r') = items r [] in (SL l, r')
    | t :: r when t.[0] = 'i' -> (SZ (z_of_tok t), r)
    | t :: r when t.[0] = 's' -> (SS (chars_of_hex (String.sub t 1 (String.length t - 1))), r)
    | t :: _ -> failwith ("bad token " ^ t)
  and items toks acc = match toks with
    | ")" :: r -> (List.rev acc, r)
    | _ -> let (v, r) = value toks in items r (v :: acc) in
  fst (value toks)

let rec print_sx buf (v : sx) = match v with
  | SZ z -> Buffer.add_string buf (tok_of_z z)
  | SS s -> Buffer.add_char buf 's'; Buffer.add_string buf (hex_of_chars s)
  | SL l -> Buffer.add_string buf "("; List.iter (fun x -> Buffer.add_char buf ' '; print_sx buf x) l; Buffer.add_string buf " )"

let main (run : sx -> sx) =
  try
    while true do
      let line = input_line stdin in
      if String.length line > 0 then begin
        let buf = Buffer.create 256 in
        (try print_sx buf (run (parse_line line))
         with Stack_overflow -> Buffer.add_string buf "( s4d4f44454c5f535441434b )"
            | Failure m -> Buffer.add_string buf ("( s4241445f4c494e45 )"));
        print_endline (Buffer.contents buf)
      end
    done
  with End_of_file -> ()
