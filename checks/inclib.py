"""inclib.py -- /include experiments for property C16 (transparent loading, preserved by writing).

A *file set* is a dict {relative path ('/' separated): text}; the path of a directory ends in '/'.
A *case* is a dict
    files   the file set               main    relative path of the file that is loaded
    strict  bool                       flat    the text with every /include replaced by its content ('' = unknown)
    kind    'split' | 'special' | 'missing' | 'empty' | 'self' | 'cycle' | 'directory' | 'missing-dir'
    expect  'equal'   loading must succeed and agree with `flat` (if `flat` loads; otherwise both must fail)
            'error'   loading must fail with an error that names the directive (`names`: acceptable directive names)
    a2ml    True when an /include sits inside the A2ML block
    label   free text

Public API (everything is deterministic given `rng`)
  scan(text) -> [Tok]                         lexical tokens of A2L text (rules of /repo/a2lfile/src/tokenizer.rs)
  find_includes(text) -> [Inc]                every /include directive: A2L level and inside the A2ML block
  resolve(includer, name) -> path             the path an include name denotes (relative to the INCLUDING file)
  flatten(files, main) -> text                python replica of include expansion; raises IncludeProblem
  split_document(rng, text_or_tree, levels=1, ...) -> (files, main, flat)
  split_case(rng, text_or_tree, levels, strict=True, **kw) -> case
  fault_cases(rng, files, main, strict=True) -> [case]   missing / empty / self-including / directory / missing directory
  special_cases() -> [case]                   hand-written situations (same file twice, CRLF, no trailing newline, ..)
  case_line(case) -> str                      the s-expression line for `implrun INCL`
  run_incl(cases, binary=None) -> [answer | None]        decoded answers (None: the process died on this case)
  check_c16(case, answer) -> None | str       the oracle: the property statement evaluated on the answer;
                                              the description is a ';'-separated list of `tag: detail` items
  problems(case, answer) -> [(tag, detail)]   the same, itemised
  experiment(seed, n, ...) -> dict            generate, run, classify (CLI: python3 -m checks.inclib --n 300)

Answer format: see /verif/harness/implrun/src/incl.rs.
"""
import argparse
import collections
import json
import os
import posixpath
import random
import shutil
import sys

_VERIF = os.path.dirname(os.path.dirname(os.path.abspath(__file__)))
for _p in (os.path.join(_VERIF, 'tools'), _VERIF):
    if _p not in sys.path:
        sys.path.insert(0, _p)

import framework as fw          # noqa: E402
import sx                       # noqa: E402
import docgen                   # noqa: E402

HARNESS_BIN = os.path.join(fw.CARGO_TARGET, 'debug', 'implrun')
TMP_ROOT = os.path.join(fw.BUILD, 'tmp')
WRITTEN = '__written.a2l'


# ------------------------------------------------------------------------------------------------
# 1. lexical level

_WS = ' \t\r\n\x0b\x0c'
_IDENT = set('abcdefghijklmnopqrstuvwxyzABCDEFGHIJKLMNOPQRSTUVWXYZ0123456789.[]_')
_PATH = _IDENT | set('\\/')


class Tok(object):
    """kind: begin | end | include | string | word | a2ml (raw text of the A2ML block) | incname"""
    __slots__ = ('kind', 's', 'e')

    def __init__(self, kind, s, e):
        self.kind, self.s, self.e = kind, s, e

    def __repr__(self):
        return 'Tok(%s %d:%d)' % (self.kind, self.s, self.e)


def _string_end(text, pos):
    """position after the string that starts at text[pos] == '"' (`""` and `\\"` do not end it)"""
    n = len(text)
    i = pos + 1
    while i < n:
        c = text[i]
        if c == '\\':
            i += 2
            continue
        if c == '"':
            if i + 1 < n and text[i + 1] == '"':
                i += 2
                continue
            return i + 1
        i += 1
    return n


def _skip_gap(text, pos, end=None):
    """skip whitespace and comments; returns the position of the next token (or end)"""
    n = len(text) if end is None else end
    while pos < n:
        c = text[pos]
        if c in _WS or c == '﻿':
            pos += 1
        elif text.startswith('/*', pos):
            j = text.find('*/', pos + 2)
            pos = n if j < 0 else j + 2
        elif text.startswith('//', pos):
            j = text.find('\n', pos)
            pos = n if j < 0 else j + 1
        else:
            break
    return min(pos, n)


def _a2ml_end(text, pos):
    """position of the `/end` that closes the raw A2ML text starting at pos (tokenizer.rs handle_a2ml)"""
    n = len(text)
    while pos < n:
        j = text.find('/', pos)
        if j < 0:
            return n
        if text.startswith('//', j):
            k = text.find('\n', j)
            pos = n if k < 0 else k
        elif text.startswith('/*', j):
            k = text.find('*/', j + 2)
            pos = n if k < 0 else k + 2
        elif text.startswith('/end', j):
            return j
        else:
            pos = j + 1
    return n


def scan(text):
    """Tokens of A2L text in order; comments and whitespace are skipped."""
    out = []
    n = len(text)
    pos = 0
    while True:
        pos = _skip_gap(text, pos)
        if pos >= n:
            break
        c = text[pos]
        if c == '"':
            e = _string_end(text, pos)
            out.append(Tok('string', pos, e))
            pos = e
            continue
        if c == '/':
            for kw, kind in (('/begin', 'begin'), ('/end', 'end'), ('/include', 'include')):
                if text.startswith(kw, pos):
                    out.append(Tok(kind, pos, pos + len(kw)))
                    pos += len(kw)
                    break
            else:
                out.append(Tok('word', pos, pos + 1))
                pos += 1
                continue
            if out[-1].kind == 'include':
                q = pos
                while q < n and text[q] in _WS:
                    q += 1
                if q < n and text[q] != '"' and text[q] in _IDENT and not text[q].isdigit():
                    e = q
                    while e < n and text[e] in _PATH:
                        e += 1
                    out.append(Tok('incname', q, e))
                    pos = e
            continue
        e = pos
        while e < n and text[e] not in _WS and text[e] != '"' and not text.startswith('/*', e) \
                and not text.startswith('//', e):
            e += 1
        if e == pos:
            e = pos + 1
        out.append(Tok('word', pos, e))
        pos = e
        if len(out) >= 2 and out[-2].kind == 'begin' and text[out[-1].s:out[-1].e] == 'A2ML':
            e = _a2ml_end(text, pos)
            out.append(Tok('a2ml', pos, e))
            pos = e
    return out


class Inc(object):
    """One /include directive: text[start:end] is `/include <name>`; `name` without quotes."""
    __slots__ = ('start', 'end', 'name', 'quoted', 'a2ml')

    def __init__(self, start, end, name, quoted, a2ml):
        self.start, self.end, self.name, self.quoted, self.a2ml = start, end, name, quoted, a2ml

    def __repr__(self):
        return 'Inc(%d:%d %r%s%s)' % (self.start, self.end, self.name, ' quoted' if self.quoted else '',
                                      ' a2ml' if self.a2ml else '')


def a2ml_scan(text, lo=0, hi=None):
    """(kind, s, e) tokens of A2ML text: comment | tag | include | other"""
    hi = len(text) if hi is None else hi
    out = []
    pos = lo
    while pos < hi:
        c = text[pos]
        if c in _WS:
            pos += 1
        elif text.startswith('/*', pos):
            j = text.find('*/', pos + 2, hi)
            e = hi if j < 0 else j + 2
            out.append(('comment', pos, e))
            pos = e
        elif text.startswith('//', pos):
            j = text.find('\n', pos, hi)
            e = hi if j < 0 else j + 1
            out.append(('comment', pos, e))
            pos = e
        elif text.startswith('/include', pos):
            q = pos + 8
            while q < hi and text[q] in _WS:
                q += 1
            if q < hi and text[q] == '"':
                j = text.find('"', q + 1, hi)
                e = hi if j < 0 else j + 1
            else:
                e = q
                while e < hi and text[e] in _PATH:
                    e += 1
            out.append(('include', pos, e))
            pos = e
        elif c == '"':
            j = text.find('"', pos + 1, hi)
            e = hi if j < 0 else j + 1
            out.append(('tag', pos, e))
            pos = e
        elif c.isalnum() or c == '_':
            e = pos
            while e < hi and (text[e].isalnum() or text[e] == '_'):
                e += 1
            out.append(('other', pos, e))
            pos = e
        else:
            out.append(('other', pos, pos + 1))
            pos += 1
    return out


def _inc_of(text, s, e, a2ml):
    q = s + 8
    while q < e and text[q] in _WS:
        q += 1
    body = text[q:e]
    if body.startswith('"'):
        return Inc(s, e, body[1:-1] if body.endswith('"') and len(body) > 1 else body[1:], True, a2ml)
    return Inc(s, e, body, False, a2ml)


def find_includes(text, a2ml_file=False):
    """All /include directives of a file; `a2ml_file`: the whole text is A2ML (a file included from the A2ML block)."""
    out = []
    if a2ml_file:
        for kind, s, e in a2ml_scan(text):
            if kind == 'include':
                out.append(_inc_of(text, s, e, True))
        return out
    toks = scan(text)
    for i, t in enumerate(toks):
        if t.kind == 'include':
            if i + 1 < len(toks) and toks[i + 1].kind in ('string', 'incname') and \
                    _skip_gap(text, t.e) == toks[i + 1].s:
                out.append(_inc_of(text, t.s, toks[i + 1].e, False))
            else:
                out.append(Inc(t.s, t.e, None, False, False))
        elif t.kind == 'a2ml':
            for kind, s, e in a2ml_scan(text, t.s, t.e):
                if kind == 'include':
                    out.append(_inc_of(text, s, e, True))
    return out


class IncludeProblem(Exception):
    def __init__(self, what, includer, name):
        Exception.__init__(self, '%s: %s includes %r' % (what, includer, name))
        self.what, self.includer, self.name = what, includer, name


def resolve(includer, name):
    """loader.rs make_include_filename: both separators, relative to the directory of the including file"""
    return posixpath.normpath(posixpath.join(posixpath.dirname(includer), name.replace('\\', '/')))


def flatten(files, main, _stack=(), _a2ml=False):
    """The text of `main` with every /include replaced (recursively) by the content of the named file."""
    if main in _stack:
        raise IncludeProblem('cycle', _stack[-1], main)
    text = files[main]
    if not _a2ml and text.startswith('﻿'):
        text = text[1:]
    out = []
    pos = 0
    for inc in find_includes(text, a2ml_file=_a2ml):
        if inc.name is None:
            raise IncludeProblem('incomplete', main, None)
        target = resolve(main, inc.name)
        if target not in files or target.endswith('/'):
            raise IncludeProblem('missing', main, inc.name)
        out.append(text[pos:inc.start])
        out.append(flatten(files, target, _stack + (main,), inc.a2ml))
        pos = inc.end
    out.append(text[pos:])
    return ''.join(out)


# ------------------------------------------------------------------------------------------------
# 2. element spans

class Span(object):
    """An element of the document: tokens t0..t1 (inclusive) of the token list, its sub-elements in order."""
    __slots__ = ('tag', 'is_block', 't0', 't1', 'kids', 'parent', 'raw_tok')

    def __init__(self, tag, is_block, t0, t1):
        self.tag, self.is_block, self.t0, self.t1 = tag, is_block, t0, t1
        self.kids = []
        self.parent = None
        self.raw_tok = None          # A2ML: index of the raw text token

    def __repr__(self):
        return 'Span(%s%s %d..%d, %d kids)' % ('/begin ' if self.is_block else '', self.tag, self.t0, self.t1,
                                               len(self.kids))


def _spans_from_text(text):
    """blocks only (keyword elements cannot be delimited without the grammar); returns (offsets, root)"""
    toks = scan(text)
    offs = [(t.s, t.e) for t in toks]
    root = Span(None, False, 0, len(toks) - 1)
    stack = [root]
    i = 0
    while i < len(toks):
        t = toks[i]
        if t.kind == 'include':
            raise ValueError('split_document: the document already contains /include')
        if t.kind == 'begin' and i + 1 < len(toks):
            sp = Span(text[toks[i + 1].s:toks[i + 1].e], True, i, i)
            sp.parent = stack[-1]
            stack[-1].kids.append(sp)
            stack.append(sp)
            if i + 2 < len(toks) and toks[i + 2].kind == 'a2ml':
                sp.raw_tok = i + 2
            i += 2
            continue
        if t.kind == 'end' and i + 1 < len(toks) and len(stack) > 1:
            sp = stack.pop()
            sp.t1 = i + 1
            i += 2
            continue
        i += 1
    if len(stack) != 1:
        raise ValueError('split_document: unbalanced /begin')
    return offs, root


def _count_val(val):
    if val.items is None:
        return 1
    return sum(_count_val(v) for v in val.items)


def _spans_from_tree(node, text, toks):
    """docgen tree + its rendering (docgen._render) -> (offsets, root span)"""
    offs = []
    pos = 0
    n = len(text)
    for t in toks:
        if t.role == 'raw':
            while pos < n and text[pos] in _WS:
                pos += 1
        else:
            pos = _skip_gap(text, pos)
        if not text.startswith(t.text, pos):
            raise ValueError('inclib: token %r not found at offset %d (%r)' % (t.text, pos, text[pos:pos + 30]))
        offs.append((pos, pos + len(t.text)))
        pos += len(t.text)

    def build(nd, idx, parent):
        """mirrors docgen._flatten; returns (span, next token index)"""
        start = idx
        if nd.tag is not None:
            if toks[idx].owner is not nd or toks[idx].role != 'open':
                raise ValueError('inclib: token stream does not match the tree at %r' % (nd,))
            idx += 2 if nd.is_block else 1
        sp = Span(nd.tag, nd.is_block, start, start)
        sp.parent = parent
        if nd.raw is not None:
            sp.raw_tok = idx
            idx += 1
        for part in nd.parts():
            if isinstance(part, docgen.Node):
                k, idx = build(part, idx, sp)
                sp.kids.append(k)
            else:
                idx += _count_val(part)
        if nd.tag is not None and nd.is_block:
            idx += 2
        for val in nd.trailing or ():
            idx += _count_val(val)
        sp.t1 = idx - 1
        return sp, idx

    root, end = build(node, 0, None)
    if end != len(toks):
        raise ValueError('inclib: token count mismatch (%d / %d)' % (end, len(toks)))
    return offs, root


# ------------------------------------------------------------------------------------------------
# 3. splitting

_EXT = ('.a2l', '.a2l', '.inc', '.A2L', '.aml', '')
_WORDS = ('inc', 'part', 'meas', 'chars', 'common', 'types', 'cm', 'mod', 'axis', 'x', 'Defs', 'ECU_1', 'v1.2',
          'sub', 'lib', 'data', 'begin', 'end', 'include', 'a', 'B', '_', 'rec[0]')
_QUOTED_ONLY = (' ', '-', '+', '(', ')', '&', "'", ',', 'ä')


class SplitOptions(docgen._Record):
    """Options of split_document.

    max_runs      at most this many /include directives per file
    p_subdir      probability that an include file goes into a (new or existing) sub-directory of the includer's
                  directory;  p_updir: .. into the parent directory (only below the root of the file set)
    p_quoted      probability of the quoted name syntax (names with characters outside the path set are always quoted)
    p_backslash   probability of '\\' as separator in a name (per directive; mixed separators with p_mixed)
    p_dot         probability of a leading './'
    p_special     probability of a file name with characters that need quotes (blank, '-', ..)
    p_reuse       probability that a file reuses the base name of another include file (in a different directory)
    p_top         weight of the top level of the file (ASAP2_VERSION / PROJECT) as a place to split; p_ifdata: of the
                  content of IF_DATA blocks
    a2ml          None: never put an /include inside the A2ML text | probability (0..1) of doing so when the
                  document has an A2ML block
    main          relative path of the main file
    """
    _defaults = dict(max_runs=3, p_subdir=0.45, p_updir=0.15, p_quoted=0.5, p_backslash=0.35, p_mixed=0.1,
                     p_dot=0.1, p_special=0.1, p_reuse=0.1, p_top=0.3, p_ifdata=1.0, a2ml=0.5,
                     main=None)


class _Splitter(object):
    def __init__(self, rng, text, offs, root, opts):
        self.rng = rng
        self.text = text
        self.offs = offs
        self.root = root
        self.opts = opts
        self.files = {}
        self.eol = '\r\n' if '\r\n' in text else '\n'
        self.used_dirs = set()
        self.basenames = []
        self.n_a2l = 0
        self.info = dict(directives=0, quoted=0, unquoted=0, backslash=0, subdir=0, updir=0, nested=0, a2ml=0,
                         depth=0, partial=0, whole_module=0, top=0, ifdata=0, reuse=0, no_trailing_newline=0)

    # ---- names
    def _basename(self, need_path_chars, ext=None):
        rng = self.rng
        if self.basenames and rng.random() < self.opts.p_reuse:
            cand = rng.choice(self.basenames)
            if not need_path_chars or all(c in _IDENT for c in cand):
                self.info['reuse'] += 1
                return cand
        stem = rng.choice(_WORDS) + (rng.choice(('', '_', '.', '')) + rng.choice(_WORDS) if rng.random() < 0.5 else '')
        if rng.random() < 0.5:
            stem += str(rng.randint(0, 99))
        if not need_path_chars and rng.random() < self.opts.p_special:
            k = rng.randint(1, len(stem))
            stem = stem[:k] + rng.choice(_QUOTED_ONLY) + stem[k:]
        return stem + (ext if ext is not None else rng.choice(_EXT))

    def new_file(self, cur_dir, a2ml=False):
        """(path of a new file, directive name, quoted)"""
        rng = self.rng
        o = self.opts
        for _ in range(200):
            r = rng.random()
            d = cur_dir
            if r < o.p_subdir:
                existing = sorted(x for x in self.used_dirs if posixpath.dirname(x) == cur_dir and x != cur_dir)
                if existing and rng.random() < 0.4:
                    d = rng.choice(existing)
                else:
                    d = posixpath.join(cur_dir, self._basename(True, ext=''))
                    if rng.random() < 0.25:
                        d = posixpath.join(d, self._basename(True, ext=''))
            elif r < o.p_subdir + o.p_updir and cur_dir:
                d = posixpath.dirname(cur_dir)
                if rng.random() < 0.5:
                    d = posixpath.join(d, self._basename(True, ext=''))
            base = self._basename(a2ml, ext='.aml' if a2ml and rng.random() < 0.7 else None)
            path = posixpath.normpath(posixpath.join(d, base)) if d else base
            low = path.lower()
            if low in (p.lower() for p in self.files) or base == WRITTEN or low == (o.main or '').lower():
                continue
            if any(p.lower().startswith(low + '/') for p in self.files) or low in (x.lower() for x in self.used_dirs):
                continue        # a directory of that name exists
            if any(low.startswith(p.lower() + '/') for p in self.files):
                continue        # a file with the name of the wanted directory exists
            if a2ml and '/end' in '/' + path:
                continue        # `/end` inside the A2ML block ends the block (tokenizer.rs handle_a2ml)
            break
        else:
            raise RuntimeError('inclib: no free file name')
        self.files[path] = None
        self.basenames.append(base)
        dd = posixpath.dirname(path)
        while dd:
            self.used_dirs.add(dd)
            dd = posixpath.dirname(dd)
        rel = posixpath.relpath(path, cur_dir or '.')
        if rel.startswith('../'):
            self.info['updir'] += 1
        elif '/' in rel:
            self.info['subdir'] += 1
        if rng.random() < o.p_dot and not rel.startswith('.'):
            rel = './' + rel
        if '/' in rel:
            if rng.random() < o.p_mixed:
                rel = ''.join('\\' if c == '/' and rng.random() < 0.5 else c for c in rel)
            elif rng.random() < o.p_backslash:
                rel = rel.replace('/', '\\')
            if '\\' in rel:
                self.info['backslash'] += 1
        plain = all(c in _PATH for c in rel) and rel[0] in _IDENT and not rel[0].isdigit() and '/*' not in rel \
            and '//' not in rel
        quoted = (not plain) or rng.random() < o.p_quoted
        self.info['quoted' if quoted else 'unquoted'] += 1
        self.info['directives'] += 1
        return path, rel, quoted

    # ---- geometry
    def tok_end_before(self, t, lo):
        return self.offs[t - 1][1] if t > 0 and self.offs[t - 1][1] >= lo else lo

    def tok_start_after(self, t, hi):
        return self.offs[t + 1][0] if t + 1 < len(self.offs) and self.offs[t + 1][0] <= hi else hi

    def cut_points(self, lo, hi):
        """offsets in text[lo:hi] (a gap: whitespace and comments only) where the text may be cut"""
        text = self.text
        pts = [lo]
        pos = lo
        while pos < hi:
            if text.startswith('/*', pos):
                j = text.find('*/', pos + 2)
                pos = hi if j < 0 else min(hi, j + 2)
            elif text.startswith('//', pos):
                j = text.find('\n', pos)
                pos = hi if j < 0 else min(hi, j)          # before the line end
            else:
                pos += 1
            pts.append(pos)
        return pts

    def groups(self, forest, top_weight):
        """[(weight, [sibling spans])] for the forest itself and every block below it"""
        out = [(top_weight, forest, 'file')] if forest and top_weight > 0 else []
        o = self.opts

        def rec(sp):
            if sp.kids:
                if sp.tag is None:
                    w = o.p_top
                elif sp.tag == 'MODULE':
                    w = 5.0
                elif sp.tag == 'PROJECT':
                    w = 2.0
                elif sp.tag == 'IF_DATA' or self._in_ifdata(sp):
                    w = o.p_ifdata
                else:
                    w = 2.0
                if w > 0:
                    out.append((w, sp.kids, sp.tag))
            for k in sp.kids:
                rec(k)
        for sp in forest:
            rec(sp)
        return out

    @staticmethod
    def _in_ifdata(sp):
        while sp is not None:
            if sp.tag == 'IF_DATA':
                return True
            sp = sp.parent
        return False

    def pick_run(self, groups, taken, lo, hi):
        """a run of token-adjacent siblings that does not overlap a region that is already cut out;
        returns (run, lowest cut start, highest cut end, parent tag, partial)"""
        rng = self.rng
        for _ in range(40):
            total = sum(g[0] for g in groups)
            x = rng.random() * total
            for w, sibs, ptag in groups:
                x -= w
                if x <= 0:
                    break
            i = rng.randrange(len(sibs))
            j = i
            want = rng.choice((1, 1, 2, 3, len(sibs)))
            while j + 1 < len(sibs) and j - i + 1 < want and sibs[j + 1].t0 == sibs[j].t1 + 1:
                j += 1
            run = sibs[i:j + 1]
            first, last = self.offs[run[0].t0][0], self.offs[run[-1].t1][1]
            if any(a < last and first < b for a, b in taken):
                continue
            glo = max([self.tok_end_before(run[0].t0, lo)] + [b for a, b in taken if b <= first])
            ghi = min([self.tok_start_after(run[-1].t1, hi)] + [a for a, b in taken if a >= last])
            return run, glo, ghi, ptag, len(run) < len(sibs)
        return None

    def build(self, lo, hi, forest, path, depth_left, force, level):
        """text of the file `path` covering text[lo:hi]; returns (file text, flat text)"""
        rng = self.rng
        text = self.text
        self.info['depth'] = max(self.info['depth'], level)
        nruns = 0
        if depth_left > 0 and forest:
            nruns = rng.randint(1 if force else 0, self.opts.max_runs)
        chosen = []
        taken = []
        groups = self.groups(forest, 3.0 if level > 0 else 0.0)
        if not groups:
            nruns = 0
        for k in range(nruns):
            got = self.pick_run(groups, taken, lo, hi)
            if got is None:
                break
            run, glo, ghi, ptag, partial = got
            first, last = self.offs[run[0].t0][0], self.offs[run[-1].t1][1]
            before = self.cut_points(glo, first)
            after = self.cut_points(last, ghi)
            a = rng.choice((first, first, before[0], rng.choice(before)))
            b = rng.choice((last, after[-1], after[-1], rng.choice(after)))
            taken.append((a, b))
            chosen.append((a, b, run, ptag, partial, k == 0))
        # an /include inside the A2ML text (main file level only; the A2ML block must not be inside a chosen run)
        a2ml_cut = None
        if self.opts.a2ml and level == 0 and rng.random() < self.opts.a2ml:
            a2ml_cut = self.pick_a2ml(taken)
        chosen.sort(key=lambda c: c[0])
        cur_dir = posixpath.dirname(path)
        out, flat = [], []
        pos = lo
        items = [(c[0], 'run', c) for c in chosen]
        if a2ml_cut:
            items.append((a2ml_cut[0], 'a2ml', a2ml_cut))
            items.sort(key=lambda x: x[0])
        for _, what, c in items:
            if what == 'a2ml':
                a, b = c
                out.append(text[pos:a])
                flat.append(text[pos:a])
                d_text, f_text = self.a2ml_directive(a, b, cur_dir, 2 if rng.random() < 0.3 else 1)
                out.append(d_text)
                flat.append(f_text)
                pos = b
                continue
            a, b, run, ptag, partial, is_first = c
            child, name, quoted = self.new_file(cur_dir)
            sub_left = depth_left - 1
            ctext, cflat = self.build(a, b, run, child, sub_left, is_first and sub_left > 0, level + 1)
            self.files[child] = ctext
            if level > 0:
                self.info['nested'] += 1
            if partial:
                self.info['partial'] += 1
            if ptag == 'PROJECT' and any(s.tag == 'MODULE' for s in run):
                self.info['whole_module'] += 1
            if ptag is None:
                self.info['top'] += 1
            if self._in_ifdata(run[0]):
                self.info['ifdata'] += 1
            if not ctext.endswith('\n'):
                self.info['no_trailing_newline'] += 1
            prefix = text[pos:a]
            line_tail = (''.join(out) + prefix).rsplit('\n', 1)[-1]
            lead = rng.choice((self.eol, ' ', self.eol + '    ', ''))
            if '//' in line_tail:
                lead = self.eol
            elif lead == '' and not (a > 0 and text[a - 1] in _WS) and not (a == lo and not out):
                lead = ' '
            trail = rng.choice((self.eol, ' ', self.eol + '  '))
            if '//' in cflat.rsplit('\n', 1)[-1]:
                trail = self.eol
            directive = '/include ' + ('"%s"' % name if quoted else name)
            if quoted and rng.random() < 0.15:
                directive = '/include' + rng.choice(('  ', '\t', self.eol)) + '"%s"' % name
            out.append(prefix + lead + directive + trail)
            flat.append(prefix + lead + cflat + trail)
            pos = b
        out.append(text[pos:hi])
        flat.append(text[pos:hi])
        return ''.join(out), ''.join(flat)

    # ---- A2ML
    def pick_a2ml(self, taken):
        def find(sp):
            if sp.raw_tok is not None:
                return sp
            for k in sp.kids:
                r = find(k)
                if r:
                    return r
            return None
        sp = find(self.root)
        if sp is None:
            return None
        s, e = self.offs[sp.raw_tok]
        if any(a <= s < b or a < e <= b for a, b in taken):
            return None
        toks = [t for t in a2ml_scan(self.text, s, e) if t[0] != 'comment']
        if not toks:
            return None
        i = self.rng.randrange(len(toks))
        j = self.rng.randint(i, min(len(toks) - 1, i + self.rng.choice((0, 1, 3, 8, 50))))
        a, b = toks[i][1], toks[j][2]
        taken.append((s, e))
        return (a, b)

    def a2ml_directive(self, a, b, cur_dir, levels):
        """replace text[a:b] (inside the A2ML text) by an include; returns (directive text, flat text)"""
        piece = self.text[a:b]
        child, name, quoted = self.new_file(cur_dir, a2ml=True)
        self.info['a2ml'] += 1
        content = piece
        if levels > 1:
            toks = [t for t in a2ml_scan(piece) if t[0] != 'comment']
            if toks:
                i = self.rng.randrange(len(toks))
                j = self.rng.randint(i, len(toks) - 1)
                x, y = toks[i][1], toks[j][2]
                sub, sname, squoted = self.new_file(posixpath.dirname(child), a2ml=True)
                self.files[sub] = piece[x:y]
                tail = '' if squoted else ' '
                content = piece[:x] + '/include ' + ('"%s"' % sname if squoted else sname) + tail + piece[y:]
                piece = piece[:x] + piece[x:y] + tail + piece[y:]
                self.info['nested'] += 1
        self.files[child] = content
        tail = '' if quoted and self.rng.random() < 0.5 else ' '
        return '/include ' + ('"%s"' % name if quoted else name) + tail, piece + tail


def split_document(rng, doc, levels=1, layout=None, spec=None, opts=None, info=None, **kw):
    """Split a valid include-free document into a main file plus include files.

    doc     a docgen tree (Node; rendered with `layout`, default canonical) or the text of a document (then only
            /begin../end blocks are moved, keyword elements stay where they are)
    levels  length of the longest include chain (1: main -> a; 3: main -> a -> b -> c)
    opts    SplitOptions (or its fields as keyword arguments);  info: a dict that receives counters
    Returns (files {relative path: text}, main relative path, flat text).
    flat is the text the includes expand to: the document itself except for the whitespace around the directives.
    """
    opts = opts or SplitOptions(**kw)
    if isinstance(doc, docgen.Node):
        text, toks = docgen._render(doc, rng, layout or docgen.Layout(), spec)
        offs, root = _spans_from_tree(doc, text, toks)
    else:
        text = doc
        offs, root = _spans_from_text(text)
    main = opts.main or rng.choice(('main.a2l', 'main.a2l', 'proj/main.a2l', 'work/ecu/top.A2L'))
    opts = opts.replace(main=main)
    sp = _Splitter(rng, text, offs, root, opts)
    d = posixpath.dirname(main)
    while d:
        sp.used_dirs.add(d)
        d = posixpath.dirname(d)
    sp.files[main] = None
    # the root span (tag None) stands for the file: its sub-elements are ASAP2_VERSION / PROJECT
    body, flat = sp.build(0, len(text), [root], main, levels, True, 0)
    sp.files[main] = body
    if info is not None:
        info.update(sp.info)
        info['files'] = len(sp.files)
    return sp.files, main, flat


def split_case(rng, doc, levels=1, strict=True, label='', **kw):
    info = {}
    files, main, flat = split_document(rng, doc, levels, info=info, **kw)
    return dict(files=files, main=main, strict=strict, flat=flat, kind='split', expect='equal',
                a2ml=info.get('a2ml', 0) > 0, label=label, info=info, levels=levels)


# ------------------------------------------------------------------------------------------------
# 4. fault cases

def _include_graph(files, main):
    """[(includer, Inc, target path)] reachable from main"""
    out = []
    seen = set()
    todo = [(main, False)]
    while todo:
        f, a2ml = todo.pop()
        if f in seen or f not in files or files[f] is None or f.endswith('/'):
            continue
        seen.add(f)
        for inc in find_includes(files[f], a2ml_file=a2ml):
            if inc.name is None:
                continue
            t = resolve(f, inc.name)
            out.append((f, inc, t))
            todo.append((t, inc.a2ml))
    return out


def _try_flat(files, main):
    try:
        return flatten(files, main)
    except (IncludeProblem, KeyError):
        return ''


def fault_cases(rng, files, main, strict=True, label=''):
    """Variants of a file set in which exactly one include is broken (or emptied)."""
    edges = _include_graph(files, main)
    if not edges:
        return []
    out = []

    def case(kind, fs, expect, names=(), a2ml=False, flat=None):
        out.append(dict(files=fs, main=main, strict=strict, flat=_try_flat(fs, main) if flat is None else flat,
                        kind=kind, expect=expect, names=list(names), a2ml=a2ml, label=label))

    # include file missing
    includer, inc, target = rng.choice(edges)
    fs = dict(files)
    del fs[target]
    case('missing', fs, 'error', [e[1].name for e in edges if e[2] == target], inc.a2ml)
    # empty include file (also: only whitespace / only a comment)
    includer, inc, target = rng.choice(edges)
    fs = dict(files)
    # (a `//` comment without line end would change the meaning of the literally flattened text)
    fs[target] = rng.choice(('', '', ' \n', '/* nothing */\n', '// nothing\n', '/* nothing */'))
    case('empty', fs, 'equal', a2ml=any(e[1].a2ml for e in edges))
    # a file that includes itself
    includer, inc, target = rng.choice(edges)
    fs = dict(files)
    own = posixpath.basename(target)
    if inc.a2ml:
        fs[target] = files[target] + ' /include "%s" ' % own
    else:
        fs[target] = files[target] + '\n/include "%s"\n' % own
    case('self', fs, 'error', [own], inc.a2ml, flat='')
    # two files including each other
    a2l_edges = [e for e in edges if not e[1].a2ml]
    if a2l_edges:
        includer, inc, target = rng.choice(a2l_edges)
        fs = dict(files)
        back = posixpath.relpath(includer, posixpath.dirname(target) or '.')
        fs[target] = files[target] + '\n/include "%s"\n' % back
        case('cycle', fs, 'error', [back, inc.name], False, flat='')
    # the name denotes a directory
    includer, inc, target = rng.choice(edges)
    fs = dict((k, v) for k, v in files.items() if k != target and not k.startswith(target + '/'))
    fs[target + '/'] = ''
    case('directory', fs, 'error', [e[1].name for e in edges if e[2] == target], inc.a2ml)
    # the name points into a directory that does not exist
    includer, inc, target = rng.choice(edges)
    fs = dict(files)
    sep = rng.choice('/\\')
    bad = 'no_such_dir' + sep + posixpath.basename(target)
    if not all(c in _PATH for c in bad):
        bad = 'no_such_dir' + sep + 'x.a2l'
    t = files[includer]
    fs[includer] = t[:inc.start] + '/include "%s"' % bad + t[inc.end:]
    case('missing-dir', fs, 'error', [bad], inc.a2ml)
    return out


# ------------------------------------------------------------------------------------------------
# 5. hand-written situations

_HEAD = 'ASAP2_VERSION 1 71\n/begin PROJECT p ""\n  /begin MODULE m ""\n'
_TAIL = '  /end MODULE\n/end PROJECT\n'


def _meas(name, extra=''):
    return '    /begin MEASUREMENT %s "" UBYTE NO_COMPU_METHOD 0 0 0 255\n%s    /end MEASUREMENT\n' % (name, extra)


def special_cases(strict=True):
    """Hand-written file sets; every one is expected to behave like its flattened text."""
    out = []

    def add(label, files, main='main.a2l', a2ml=False, expect='equal', names=(), kind='special', flat=None):
        out.append(dict(files=files, main=main, strict=strict, flat=_try_flat(files, main) if flat is None else flat,
                        kind=kind, expect=expect, names=list(names), a2ml=a2ml, label=label))

    m1, m2, m3 = _meas('m1'), _meas('m2'), _meas('m3')
    add('one include, same directory', {'main.a2l': _HEAD + '    /include "a.a2l"\n' + _TAIL, 'a.a2l': m1})
    add('unquoted name', {'main.a2l': _HEAD + '    /include a.a2l\n' + _TAIL, 'a.a2l': m1})
    add('sub-directory, slash', {'main.a2l': _HEAD + '    /include "sub/a.a2l"\n' + _TAIL, 'sub/a.a2l': m1})
    add('sub-directory, backslash', {'main.a2l': _HEAD + '    /include sub\\a.a2l\n' + _TAIL, 'sub/a.a2l': m1})
    add('nested, same directory', {'main.a2l': _HEAD + '    /include "a.a2l"\n' + _TAIL,
                                   'a.a2l': m1 + '/include "c.a2l"\n', 'c.a2l': m2})
    add('nested from a sub-directory', {'main.a2l': _HEAD + '    /include "sub/a.a2l"\n' + _TAIL,
                                        'sub/a.a2l': m1 + '/include "c.a2l"\n', 'sub/c.a2l': m2})
    # the same file name on two directory levels (the process works in the directory of the main file): the directive of the file
    # in the sub-directory means the file next to it
    add('same name in the directory of the main file and next to the including file',
        {'main.a2l': _HEAD + '    /include "sub/group.a2l"\n    /include "defs.a2l"\n' + _TAIL,
         'sub/group.a2l': m1 + '/include defs.a2l\n', 'sub/defs.a2l': m2, 'defs.a2l': m3})
    add('same name on three levels, quoted, backslash',
        {'main.a2l': _HEAD + '    /include "a/b/inner.a2l"\n' + _TAIL,
         'a/b/inner.a2l': m1 + '/include "x\\defs.a2l"\n', 'a/b/x/defs.a2l': m2, 'x/defs.a2l': m3, 'a/x/defs.a2l': _meas('m4')})
    add('nested: the inner include is inside a block of the outer file',
        {'main.a2l': _HEAD + '    /include "sub/a.a2l"\n' + _TAIL,
         'sub/a.a2l': '/begin MEASUREMENT m1 "" UBYTE NO_COMPU_METHOD 0 0 0 255\n/include "c.a2l"\n/end MEASUREMENT\n',
         'sub/c.a2l': 'ECU_ADDRESS 0x10\n'})
    add('include file consisting of an include only', {'main.a2l': _HEAD + '    /include "a.a2l"\n' + _TAIL,
                                                       'a.a2l': '/include "c.a2l"', 'c.a2l': m2})
    add('same name in two directories', {'main.a2l': _HEAD + '    /include "x.a2l"\n    /include "sub/a.a2l"\n' + _TAIL,
                                         'x.a2l': m1, 'sub/a.a2l': '/include "x.a2l"\n', 'sub/x.a2l': m2})
    add('same file twice in one block', {'main.a2l': _HEAD + '    /include "a.a2l"\n' + m2 + '    /include "a.a2l"\n' + _TAIL,
                                         'a.a2l': '/begin GROUP g "" /end GROUP\n'})
    ann = '      /begin ANNOTATION ANNOTATION_LABEL "l" /end ANNOTATION\n'
    add('same file twice in one block (ANNOTATION)',
        {'main.a2l': _HEAD + _meas('m1', '      /include "ann.a2l"\n      ECU_ADDRESS 0x10\n      /include "ann.a2l"\n') + _TAIL,
         'ann.a2l': ann})
    add('same file in two blocks', {'main.a2l': _HEAD + _meas('m1', '      /include "ann.a2l"\n')
                                    + _meas('m2', '      /include "ann.a2l"\n') + _TAIL, 'ann.a2l': ann})
    add('some children of a block', {'main.a2l': _HEAD + _meas('m1', '      ECU_ADDRESS 0x1\n      /include "k.a2l"\n      BIT_MASK 0xF\n')
                                     + _TAIL, 'k.a2l': 'FORMAT "%3.1"\nPHYS_UNIT "V"'})
    add('include between elements of the main file', {'main.a2l': _HEAD + m1 + '    /include "a.a2l"\n' + m3 + _TAIL, 'a.a2l': m2})
    add('two includes in one block', {'main.a2l': _HEAD + '    /include "a.a2l"\n    /include "b.a2l"\n' + _TAIL,
                                      'a.a2l': m1, 'b.a2l': m2})
    add('no trailing newline', {'main.a2l': _HEAD + '    /include "a.a2l"\n' + _TAIL, 'a.a2l': m1.rstrip()})
    add('include on the line of other tokens', {'main.a2l': _HEAD.rstrip('\n') + ' /include "a.a2l" /end MODULE\n/end PROJECT\n',
                                                'a.a2l': m1.strip()})
    crlf = lambda s: s.replace('\n', '\r\n')      # noqa: E731
    add('CRLF everywhere', {'main.a2l': crlf(_HEAD + '    /include "a.a2l"\n' + _TAIL), 'a.a2l': crlf(m1)})
    add('CRLF include in LF main', {'main.a2l': _HEAD + '    /include "a.a2l"\n' + _TAIL, 'a.a2l': crlf(m1)})
    add('LF include in CRLF main', {'main.a2l': crlf(_HEAD + '    /include "a.a2l"\n' + _TAIL), 'a.a2l': m1})
    add('BOM in the include file', {'main.a2l': _HEAD + '    /include "a.a2l"\n' + _TAIL, 'a.a2l': '﻿' + m1})
    add('comments in the include file', {'main.a2l': _HEAD + '    /include "a.a2l"\n' + _TAIL,
                                         'a.a2l': '/* first */\n' + m1 + '// last\n'})
    add('comment inside an included block', {'main.a2l': _HEAD + '    /include "a.a2l"\n' + _TAIL,
                                             'a.a2l': _meas('m1', '      /* inner */\n      ECU_ADDRESS 0x1\n')})
    # position-numbered components (RECORD_LAYOUT): the include file supplies components around / between those of the main file
    rl = lambda body: '    /begin RECORD_LAYOUT rl\n' + body + '    /end RECORD_LAYOUT\n'      # noqa: E731
    add('RECORD_LAYOUT: included components around one of the main file',
        {'main.a2l': _HEAD + rl('      /include "layouts/axis_x.a2l"\n      FNC_VALUES 2 UBYTE ROW_DIR DIRECT\n') + _TAIL,
         'layouts/axis_x.a2l': 'NO_AXIS_PTS_X 1 UBYTE\nAXIS_PTS_X 3 UBYTE INDEX_INCR DIRECT\n'})
    add('RECORD_LAYOUT: included component between two of the main file',
        {'main.a2l': _HEAD + rl('      NO_AXIS_PTS_X 1 UBYTE\n      /include "fnc.a2l"\n      AXIS_PTS_X 3 UBYTE INDEX_INCR DIRECT\n') + _TAIL,
         'fnc.a2l': 'FNC_VALUES 2 UBYTE ROW_DIR DIRECT\n'})
    add('RECORD_LAYOUT: two include files with interleaved positions',
        {'main.a2l': _HEAD + rl('      /include "a.a2l"\n      /include "b.a2l"\n') + _TAIL,
         'a.a2l': 'NO_AXIS_PTS_X 1 UBYTE\nFNC_VALUES 3 UBYTE ROW_DIR DIRECT\n', 'b.a2l': 'AXIS_PTS_X 2 UBYTE INDEX_INCR DIRECT\nNO_AXIS_PTS_Y 4 UBYTE\n'})
    add('whole MODULE', {'main.a2l': 'ASAP2_VERSION 1 71\n/begin PROJECT p ""\n/include "mod.a2l"\n/end PROJECT\n',
                         'mod.a2l': '  /begin MODULE m ""\n' + m1 + '  /end MODULE\n'})
    add('two MODULEs, one included', {'main.a2l': 'ASAP2_VERSION 1 71\n/begin PROJECT p ""\n  /begin MODULE m0 ""\n  /end MODULE\n'
                                      '/include "mod.a2l"\n/end PROJECT\n',
                                      'mod.a2l': '  /begin MODULE m ""\n' + m1 + '  /end MODULE\n'})
    add('ASAP2_VERSION included', {'main.a2l': '/include "ver.a2l"\n/begin PROJECT p ""\n  /begin MODULE m ""\n' + _TAIL,
                                   'ver.a2l': 'ASAP2_VERSION 1 71\n'})
    add('PROJECT included', {'main.a2l': 'ASAP2_VERSION 1 71\n/include "prj.a2l"\n',
                             'prj.a2l': '/begin PROJECT p ""\n  /begin MODULE m ""\n' + _TAIL})
    add('everything included', {'main.a2l': '/include "all.a2l"\n',
                                'all.a2l': 'ASAP2_VERSION 1 71\n/begin PROJECT p ""\n  /begin MODULE m ""\n' + _TAIL})
    add('main in a sub-directory, include from the parent', {'proj/main.a2l': _HEAD + '    /include "../common/a.a2l"\n' + _TAIL,
                                                            'common/a.a2l': m1}, main='proj/main.a2l')
    add('name with blanks', {'main.a2l': _HEAD + '    /include "my file.a2l"\n' + _TAIL, 'my file.a2l': m1})
    add('empty include only', {'main.a2l': _HEAD + '    /include "a.a2l"\n' + _TAIL, 'a.a2l': ''})
    aml = 'block "IF_DATA" taggedunion if_data { "XCP" struct { uint; }; };'
    a2ml_main = _HEAD + '    /begin A2ML\n      %s\n    /end A2ML\n' + _TAIL
    add('A2ML: quoted include', {'main.a2l': a2ml_main % 'block "IF_DATA" taggedunion if_data { /include "x.aml" };',
                                 'x.aml': '"XCP" struct { uint; };'}, a2ml=True)
    add('A2ML: unquoted include in a sub-directory', {'main.a2l': a2ml_main % 'block "IF_DATA" taggedunion if_data { /include aml\\x.aml };',
                                                      'aml/x.aml': '"XCP" struct { uint; };'}, a2ml=True)
    add('A2ML: whole text included', {'main.a2l': a2ml_main % '/include "x.aml"', 'x.aml': aml}, a2ml=True)
    add('A2ML: nested include', {'main.a2l': a2ml_main % '/include "aml/x.aml"',
                                 'aml/x.aml': 'block "IF_DATA" taggedunion if_data { /include "y.aml" };',
                                 'aml/y.aml': '"XCP" struct { uint; };'}, a2ml=True)
    add('A2ML: CRLF include file', {'main.a2l': a2ml_main % '/include "x.aml"', 'x.aml': crlf(aml.replace('{ "XCP"', '{\n "XCP"'))}, a2ml=True)
    add('A2ML: include path with a component starting with "end"',
        {'main.a2l': a2ml_main % 'block "IF_DATA" taggedunion if_data { /include "aml/endian.aml" };',
         'aml/endian.aml': '"XCP" struct { uint; };'}, a2ml=True)
    add('A2ML block included as a whole', {'main.a2l': _HEAD + '    /include "a2ml.a2l"\n' + _TAIL,
                                           'a2ml.a2l': '    /begin A2ML\n      %s\n    /end A2ML\n' % aml})
    inc_aml = '    /begin A2ML\n      block "IF_DATA" taggedunion if_data { /include "%s" };\n    /end A2ML\n'
    add('A2ML block in an included file of a sub-directory, with its own include relative to that file',
        {'main.a2l': _HEAD + '    /include "defs/interface.a2l"\n' + _TAIL, 'defs/interface.a2l': inc_aml % 'aml/types.aml',
         'defs/aml/types.aml': '"XCP" struct { uint; };'}, a2ml=True)
    add('A2ML block in an included file of a sub-directory, include next to that file',
        {'main.a2l': _HEAD + '    /include defs\\interface.a2l\n' + _TAIL, 'defs/interface.a2l': inc_aml % 'types.aml',
         'defs/types.aml': '"XCP" struct { uint; };'}, a2ml=True)
    add('A2ML block two include levels down, include from the parent directory of that file',
        {'main.a2l': _HEAD + '    /include "a/first.a2l"\n' + _TAIL, 'a/first.a2l': '/include "b/second.a2l"\n',
         'a/b/second.a2l': inc_aml % '../aml/types.aml', 'a/aml/types.aml': '"XCP" struct { uint; };'}, a2ml=True)
    add('A2ML include of an included file that exists only next to the main file',
        {'main.a2l': _HEAD + '    /include "defs/interface.a2l"\n' + _TAIL, 'defs/interface.a2l': inc_aml % 'types.aml',
         'types.aml': '"XCP" struct { uint; };'}, a2ml=True, expect='error', names=['types.aml'], kind='missing')
    add('IF_DATA content included', {'main.a2l': _HEAD + '    /begin IF_DATA XCP\n      /include "if.a2l"\n    /end IF_DATA\n' + _TAIL,
                                     'if.a2l': '/begin DAQ 1 2 /end DAQ\n'})
    add('IF_DATA: tagged items partly included',
        {'main.a2l': _HEAD + '    /begin A2ML\n      block "IF_DATA" taggedunion if_data { "XCP" taggedstruct { (block "DAQ" struct { uint; })*; }; };\n'
         '    /end A2ML\n    /begin IF_DATA XCP\n      /begin DAQ 1 /end DAQ\n      /include "if.a2l"\n      /begin DAQ 3 /end DAQ\n    /end IF_DATA\n' + _TAIL,
         'if.a2l': '/begin DAQ 2 /end DAQ\n'})
    # uninterpreted IF_DATA whose content comes (partly or wholly) from an include file: the leading tag in the include file,
    # in the main file, nested blocks and keywords on either side
    add('IF_DATA: the whole content, leading tag first, from an include file',
        {'main.a2l': _HEAD + '    /begin IF_DATA /include "sub/xcp.a2l" /end IF_DATA\n' + _TAIL,
         'sub/xcp.a2l': 'XCP 1 /begin DAQ 2 /begin EVENT 3 /end EVENT /end DAQ\n'})
    add('IF_DATA inside a MEASUREMENT: the whole content from an include file',
        {'main.a2l': _HEAD + _meas('m1', '      /begin IF_DATA\n        /include "xcp.a2l"\n      /end IF_DATA\n') + _TAIL,
         'xcp.a2l': 'XCP 1 0x10 /begin DAQ 2 /end DAQ K 3 /begin SEG "s" /begin PAGE 1 /end PAGE /end SEG\n'})
    add('IF_DATA: leading tag in the main file, blocks from two include files',
        {'main.a2l': _HEAD + '    /begin IF_DATA XCP 1\n      /include "a.a2l"\n      K 2\n      /include "b.a2l"\n    /end IF_DATA\n' + _TAIL,
         'a.a2l': '/begin DAQ 1 /end DAQ /begin DAQ 2 /end DAQ\n', 'b.a2l': '/begin SEG 3 /begin PAGE 4 /end PAGE /end SEG\n'})
    # faults that do not depend on a split
    add('missing include', {'main.a2l': _HEAD + '    /include "nothing.a2l"\n' + _TAIL}, expect='error',
        names=['nothing.a2l'], kind='missing')
    add('missing include, unquoted', {'main.a2l': _HEAD + '    /include sub\\nothing.a2l\n' + _TAIL}, expect='error',
        names=['sub\\nothing.a2l'], kind='missing')
    add('missing nested include', {'main.a2l': _HEAD + '    /include "sub/a.a2l"\n' + _TAIL,
                                   'sub/a.a2l': m1 + '/include "nothing.a2l"\n'}, expect='error',
        names=['nothing.a2l'], kind='missing')
    add('nested include that exists only next to the main file',
        {'main.a2l': _HEAD + '    /include "sub/a.a2l"\n' + _TAIL, 'sub/a.a2l': m1 + '/include "c.a2l"\n', 'c.a2l': m2},
        expect='error', names=['c.a2l'], kind='missing')
    add('include of a directory', {'main.a2l': _HEAD + '    /include "dir"\n' + _TAIL, 'dir/': ''}, expect='error',
        names=['dir'], kind='directory')
    add('include without a name', {'main.a2l': _HEAD + '    /include\n' + _TAIL}, expect='error', names=[''],
        kind='incomplete')
    add('include followed by a number', {'main.a2l': _HEAD + '    /include 123\n' + _TAIL}, expect='error', names=[''],
        kind='incomplete')
    add('self include', {'main.a2l': _HEAD + '    /include "main.a2l"\n' + _TAIL}, expect='error', names=['main.a2l'],
        kind='self', flat='')
    add('A2ML: missing include', {'main.a2l': a2ml_main % 'block "IF_DATA" taggedunion if_data { /include "nothing.aml" };'},
        expect='error', names=['nothing.aml'], kind='missing', a2ml=True)
    add('A2ML: self include', {'main.a2l': a2ml_main % '/include "x.aml"', 'x.aml': aml + ' /include "x.aml"'},
        expect='error', names=['x.aml'], kind='self', a2ml=True, flat='')
    return out


# ------------------------------------------------------------------------------------------------
# 6. running

def _bytes(v):
    return v if isinstance(v, (bytes, bytearray)) else v.encode('utf-8')


def case_line(case):
    files = []
    for path in sorted(case['files']):
        files.append([path, _bytes(case['files'][path] or '')])
    items = [files, case['main'], 1 if case.get('strict', True) else 0, _bytes(case.get('flat') or '')]
    items.append(case.get('ops') or [])    # edits through the API before the model is written (harness kind INCL)
    items.append([_bytes(d) for d in decoys_of(case)])
    # the main file once more by its bare name from its own directory (only where everything resolves: the fall-back to the working
    # directory would find files next to the main file that are missing next to an including file in a sub-directory)
    items.append(1 if (case.get('expect', 'equal') == 'equal' and case.get('kind') in ('split', 'special')) else 0)
    return sx.enc(items)


def decoys_of(case):
    """Files with other content that the harness puts into the WORKING directory of the process (which is not the directory of the
    main file): one for the name of every directive that resolves next to its including file.  make_include_filename falls back to
    the working directory only for names that are missing next to the including file, so no decoy may carry such a name."""
    if case.get('kind') == 'cycle':
        return []           # a cycle ends when the path outgrows the limit of the operating system and the fall-back is tried
    good, bad = set(), set()
    for f in sorted(case['files']):
        text = case['files'][f]
        if f.endswith('/') or text is None:
            continue
        if isinstance(text, bytes):
            text = text.decode('utf-8', 'replace')
        for a2ml_file in (False, True) if f.endswith('.aml') else (False,):
            try:
                incs = find_includes(text, a2ml_file=a2ml_file)
            except Exception:
                continue
            for inc in incs:
                if inc.name is None:
                    continue
                n = posixpath.normpath(inc.name.replace('\\', '/'))
                target = resolve(f, inc.name)
                if target in case['files'] and not target.endswith('/') and case['files'][target] is not None:
                    if not n.startswith('/') and not n.startswith('..') and n not in ('.', ''):
                        good.add(n)
                else:
                    bad.add(n)
                    bad.add(inc.name)
    return sorted(good - bad)


def cleanup_tmp():
    """remove case directories left behind by harness processes that died"""
    if os.path.isdir(TMP_ROOT):
        for n in os.listdir(TMP_ROOT):
            if n.startswith('incl-'):
                shutil.rmtree(os.path.join(TMP_ROOT, n), ignore_errors=True)


def run_incl(cases, binary=None):
    """Run cases (dicts, or ready-made case lines) on `implrun INCL`; one decoded answer per case, None where the
    process died on the case (crashes are isolated: every case of a dead shard is re-run alone)."""
    lines = [c if isinstance(c, str) else case_line(c) for c in cases]
    out = fw.run_isolating([binary or HARNESS_BIN, 'INCL'], lines, single_timeout=120)
    res = []
    for l in out:
        if l is None or l.startswith('DIED'):
            res.append(None)
        else:
            res.append(sx.dec(l))
    cleanup_tmp()
    return res


# ------------------------------------------------------------------------------------------------
# 7. the oracle

def _t(b):
    return b.decode('utf-8', 'replace') if isinstance(b, (bytes, bytearray)) else b


def _short(s, n=160):
    s = _t(s)
    return s if len(s) <= n else s[:n] + '...'


def _tokenizer_trim(t):
    """tokenizer.rs handle_a2ml: trailing blanks of the A2ML text and one line end before them are not part of the text"""
    i = len(t)
    while i > 0 and t[i - 1] in ' \t\x0b\x0c':
        i -= 1
    if i >= 2 and t[i - 2:i] == '\r\n':
        i -= 2
    elif i >= 1 and t[i - 1] == '\n':
        i -= 1
    return t[:i]


def a2ml_trailing_blank(files):
    """True when some A2ML block of the case ends in an include directive and the text merged by the library (expansion of
    the trimmed block text) differs from the trimmed expansion of the untrimmed text only in trailing whitespace."""
    for name, text in files.items():
        if not isinstance(text, str) or name.endswith('/'):
            continue
        try:
            toks = scan(text)
        except Exception:
            continue
        for t in toks:
            if t.kind != 'a2ml':
                continue
            end = _a2ml_end(text, t.s)
            raw = text[t.s:end]
            tmp = dict(files)
            try:
                tmp['\0blk'] = None
                key = posixpath.join(posixpath.dirname(name), '\0a2mlblock')
                tmp[key] = _tokenizer_trim(raw)
                merged = flatten(tmp, key, (), True)
                tmp[key] = raw
                flat = _tokenizer_trim(flatten(tmp, key, (), True))
            except Exception:
                continue
            if merged != flat and merged.rstrip() == flat.rstrip():
                return True
    return False


def problems(case, ans):
    """[(tag, detail)]: every way in which the answer contradicts the property statement.

    tags  died, panic                       the process died / a panic was caught (stage in the detail)
          load-err                          loading through /include fails although the flattened text loads
          flat-err                          loading through /include succeeds although the flattened text is rejected
          not-transparent                   the model differs from the model of the flattened text
          a2ml-text                         (A2ML include) the models differ only until merge_includes() is applied
          diag-differ                       different number of warnings with and without includes
          reload-err, reload-model          the written file does not load from the same directory / loads to another model
          reload-text                       (weaker) the written file loads to an equal model that is written differently
          merged-err, merged-model          the output of merge_includes() does not load / differs
          merged-include                    the output of merge_includes() still contains an include directive
          no-error                          a broken include is accepted (partial result)
          error-kind, error-name            the error is not an include error / does not name the directive
    """
    out = []
    if ans is None:
        return [('died', 'the harness process died (stack overflow / abort) on this case')]
    st = _t(ans[0])
    if st == 'PANIC':
        return [('panic', 'panic in stage ' + _t(ans[1]))]
    if st == 'ERR' and _t(ans[1]) == 'Harness':
        return [('harness', _t(ans[2]))]
    expect = case.get('expect', 'equal')
    a2ml = bool(case.get('a2ml'))
    if expect == 'error':
        if st != 'ERR':
            diags = [_t(d) for d in ans[2]]
            named = any(n and n in d for d in diags for n in case.get('names', ()))
            out.append(('no-error', 'a broken include is accepted: load returns a model, %d warnings%s'
                        % (len(diags), ' (one names the file)' if named else '')))
            return out
        outer, text, inner = _t(ans[1]), _t(ans[2]), _t(ans[3])
        ok_kind = (inner in ('IncludeFileError', 'IncompleteIncludeError')) or (a2ml and inner == 'A2mlError')
        if not ok_kind:
            out.append(('error-kind', '%s/%s: %s' % (outer, inner, _short(text))))
        names = [n for n in case.get('names', ()) if n is not None]
        # the message may show the name with the separators normalised (a\\b.aml -> a/b.aml): that still names the directive
        if names and not any(n in text or n.replace('\\', '/') in text for n in names) and inner != 'IncompleteIncludeError':
            out.append(('error-name', 'the message does not name the directive %r: %s' % (names, _short(text))))
        return out
    # expect == 'equal'
    if st == 'ERR':
        fl = ans[4] if len(ans) > 4 else []
        if fl and _t(fl[0]) == 'OK':
            out.append(('load-err', '%s/%s: %s' % (_t(ans[1]), _t(ans[3]), _short(ans[2]))))
        elif fl and _t(fl[0]) == 'PANIC':
            out.append(('panic', 'flattened text: panic'))
        elif not fl and case.get('flat') == '':
            out.append(('load-err', '(no flattened text to compare) %s/%s: %s' % (_t(ans[1]), _t(ans[3]), _short(ans[2]))))
        return out
    dump, diags, text1, rel, mrg, flt = ans[1:7]
    if len(ans) > 7 and ans[7]:
        bs = _t(ans[7][0])
        if bs == 'PANIC':
            out.append(('panic', 'load of the main file by its bare name: panic'))
        elif bs == 'ERR':
            out.append(('bare-name', 'the main file given by its bare name (working directory = its directory) does not load: ' + _short(ans[7][1], 200)))
        elif bs == 'DIFF':
            out.append(('bare-name', 'the main file given by its bare name (working directory = its directory) loads to a different model'))
    a2ml_unparsed = [_t(d) for d in diags if 'A2ML parser reports' in _t(d) or 'A2mlError' in _t(d)]
    # transparency
    if flt:
        fs = _t(flt[0])
        if fs == 'PANIC':
            out.append(('panic', 'flattened text: panic in ' + _t(flt[1])))
        elif fs == 'ERR':
            out.append(('flat-err', 'the flattened text is rejected: ' + _short(flt[1])))
        else:
            eq, eqm, fdiags = flt[1], flt[2], flt[3]
            if not eq:
                if a2ml and eqm:
                    out.append(('a2ml-text', 'model != model of the flattened text until merge_includes() is applied '
                                             '(A2ML text keeps the directive)'))
                elif a2ml and a2ml_unparsed:
                    out.append(('a2ml-unparsed', 'the A2ML text with its include is rejected by the A2ML parser (%s): there is no '
                                                 'merged form, the directive stays in the text' % _short(a2ml_unparsed[0], 100)))
                elif a2ml and a2ml_trailing_blank(case.get('files', {})):
                    out.append(('a2ml-trailing-blank', 'A2ML include at the very end of the A2ML block: the merged text keeps the '
                                                       'trailing whitespace of the include file, which the tokenizer trims from '
                                                       'the flattened text'))
                else:
                    out.append(('not-transparent', 'model differs from the model of the flattened text'
                                + ('' if not eqm else ' (equal after merge_includes)')))
            if len(fdiags) != len(diags):
                out.append(('diag-differ', '%d warnings with includes, %d flattened' % (len(diags), len(fdiags))))
    # reload from the same directory
    rs = _t(rel[0])
    if rs == 'PANIC':
        out.append(('panic', 'reload: panic in ' + _t(rel[1])))
    elif rs == 'ERR':
        out.append(('reload-err', 'the written file does not load: ' + _short(rel[1], 240)))
    else:
        if not rel[1]:
            out.append(('reload-model', 'the written file loads to a different model'))
        elif not rel[2]:
            out.append(('reload-text', 'the written file loads to an equal model but is written differently'))
    # merge_includes
    ms = _t(mrg[0])
    if ms == 'PANIC':
        out.append(('panic', 'merge_includes: panic in ' + _t(mrg[1])))
    elif ms == 'ERR':
        out.append(('merged-err', 'output of merge_includes() does not load: ' + _short(mrg[1], 240)))
    else:
        mtext, contains, eq_orig, eq_merged, tok_left = _t(mrg[1]), mrg[2], mrg[3], mrg[4], mrg[5]
        left = bool(tok_left)
        if not left and contains:
            # "/include" may be part of a string of the document; look at the A2ML text separately
            left = any(i.a2ml for i in find_includes(mtext))
        if left and a2ml and a2ml_unparsed:
            if not any(t == 'a2ml-unparsed' for t, _ in out):
                out.append(('a2ml-unparsed', 'the A2ML text is rejected by the A2ML parser: merge_includes() leaves its directive'))
        elif left:
            out.append(('merged-include', 'output of merge_includes() still contains an include directive'))
        if not eq_merged:
            out.append(('merged-model', 'output of merge_includes() loads to a model different from the merged model'))
        elif not eq_orig and not a2ml:
            out.append(('merged-model', 'output of merge_includes() loads to a model different from the loaded one'))
    return out


def check_c16(case, ans):
    p = problems(case, ans)
    if not p:
        return None
    return '; '.join('%s: %s' % x for x in p)


# ------------------------------------------------------------------------------------------------
# 8. experiments

def gen_split_cases(rng, n, sizes=('tiny', 'small', 'small', 'medium'), strict=None, **kw):
    from checks import docs
    out = []
    spec = docs.spec()
    while len(out) < n:
        size = rng.choice(sizes)
        a2ml = rng.choice((None, 'simple', 'simple'))
        ifdata = rng.choice((None, 'unknown', 'empty'))
        node, text, _ = docs.random_doc(rng, size=size, a2ml=a2ml, ifdata=ifdata)
        if '/include' in text:
            continue            # docgen uses "/include" as string content now and then: keeps the oracle simple
        # position-restricted items in ascending order: re-ordering on write is a finding of its own (C01)
        docs.order_positions(node)
        lay = docgen.Layout(mode=rng.choice(['canonical', 'canonical', 'random', 'oneline']), crlf=rng.random() < 0.2,
                            comments=rng.choice([None, None, 'block-level', 'everywhere']))
        levels = rng.choice((1, 1, 2, 2, 3))
        st = rng.random() < 0.7 if strict is None else strict
        try:
            c = split_case(rng, node, levels, strict=st, layout=lay, spec=spec,
                           label='split #%d %s L%d %s' % (len(out), size, levels, lay.mode), **kw)
        except RuntimeError:
            continue
        if '/include' in c['flat']:
            continue
        out.append(c)
    return out


def self_check(cases):
    """the generator's own consistency: flatten(files) must reproduce the flat text"""
    bad = []
    for c in cases:
        if c['kind'] != 'split':
            continue
        try:
            f = flatten(c['files'], c['main'])
        except IncludeProblem as e:
            bad.append((c['label'], str(e)))
            continue
        if f != c['flat']:
            bad.append((c['label'], 'flatten() differs from the flat text of split_document'))
    return bad


def experiment(seed=1, n=300, faults_every=4, binary=None, verbose=False):
    rng = random.Random('inclib/%s' % seed)
    cases = gen_split_cases(rng, n)
    bad = self_check(cases)
    fcases = []
    for i, c in enumerate(cases):
        if i % faults_every == 0:
            fcases.extend(fault_cases(rng, c['files'], c['main'], strict=c['strict'], label=c['label']))
    spc = special_cases(True) + special_cases(False)
    allc = cases + fcases + spc
    answers = run_incl(allc, binary)
    tally = collections.Counter()
    by_kind = collections.defaultdict(collections.Counter)
    examples = {}
    info = collections.Counter()
    for c in cases:
        for k, v in c['info'].items():
            info[k] += v
    for c, a in zip(allc, answers):
        p = problems(c, a)
        by_kind[c['kind']]['cases'] += 1
        if not p:
            by_kind[c['kind']]['clean'] += 1
        for tag, detail in p:
            tally[tag] += 1
            by_kind[c['kind']][tag] += 1
            key = (c['kind'], tag)
            size = sum(len(v or '') for v in c['files'].values())
            if key not in examples or size < examples[key][0]:
                examples[key] = (size, c, detail)
    res = dict(seed=seed, cases=len(allc), splits=len(cases), faults=len(fcases), special=len(spc),
               generator_self_check_failures=bad, tally=dict(tally),
               by_kind={k: dict(v) for k, v in by_kind.items()}, split_info=dict(info))
    if verbose:
        print(json.dumps(res, indent=1))
        for (kind, tag), (size, c, detail) in sorted(examples.items()):
            print('--- smallest example %s / %s (%d bytes) [%s] strict=%s: %s' % (kind, tag, size, c['label'],
                                                                                 c['strict'], detail))
    res['examples'] = examples
    res['all'] = (allc, answers)
    return res


def main(argv=None):
    ap = argparse.ArgumentParser()
    ap.add_argument('--seed', default='1')
    ap.add_argument('--n', type=int, default=300)
    ap.add_argument('--special', action='store_true', help='only the hand-written cases, one line each')
    ap.add_argument('--binary', help='harness binary (default: the shared debug build)')
    ap.add_argument('--dump', help='directory: write the file sets of the smallest example per finding')
    a = ap.parse_args(argv)
    if a.special:
        for strict in (True, False):
            cs = special_cases(strict)
            for c, ans in zip(cs, run_incl(cs, a.binary)):
                print('%-7s %-62s %s' % ('strict' if strict else 'lenient', c['label'], check_c16(c, ans) or 'ok'))
        return 0
    res = experiment(a.seed, a.n, binary=a.binary, verbose=True)
    if a.dump:
        for (kind, tag), (size, c, detail) in res['examples'].items():
            d = os.path.join(a.dump, '%s_%s' % (kind, tag))
            for p, t in c['files'].items():
                fp = os.path.join(d, p)
                if p.endswith('/'):
                    os.makedirs(fp, exist_ok=True)
                    continue
                os.makedirs(os.path.dirname(fp), exist_ok=True)
                with open(fp, 'wb') as f:
                    f.write(_bytes(t))
            with open(os.path.join(d, '__finding.txt'), 'w') as f:
                f.write('%s\nmain=%s strict=%s\n%s\n' % (c['label'], c['main'], c['strict'], detail))
    return 0


if __name__ == '__main__':
    sys.exit(main())
