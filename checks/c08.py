"""C08 merge conservation: proof (Props/C08.v: closed form of the merged namespace, A kept in place, every element of B
represented, nothing invented, names unique, make_unique_name terminates and is fresh/injective, neutral cases, sequences,
GROUP/FUNCTION only gain members) + correspondence of the Merge model with A2lFile::merge_modules on generated module
pairs in every namespace + the statement of the property evaluated on the implementation's results (abstract pairs and
grammar-generated documents)."""
import re
import framework as fw
import sx

PROP = 'C08'
KIND = 'C08'
TARGETS = ['theories/Proofs/MergeProofs.v', 'theories/Run/RunC08.v']
NS_KINDS = [5, 5, 3, 1, 1, 1, 1, 1, 1]
NS_NAMES = ['objects', 'typedefs', 'compu_tabs', 'COMPU_METHOD', 'UNIT', 'RECORD_LAYOUT', 'FRAME', 'TRANSFORMER', 'MEMORY_SEGMENT']
RULE = ('pairs (A,B) of modules written as A2L text, per namespace (objects x5 kinds, typedefs x5, conversion tables x3, '
        'COMPU_METHOD, UNIT, RECORD_LAYOUT, FRAME, TRANSFORMER, MEMORY_SEGMENT): names from a pool of 6 base names and their '
        '.MERGE/.MERGE2/.MERGE3 forms, B drawn relative to A as identical twin / same name other content / same name other '
        'kind / new name; several namespaces per pair; sequences of up to 4 merges; GROUP and FUNCTION pairs with overlapping '
        'member lists; non-trivial = at least one conflict or twin; distinct = distinct implementation answer')
ASSUMPTIONS = ['names are unique per namespace in each input (files with duplicate names are outside the property)',
               'SYSTEM_CONSTANT, MEMORY_LAYOUT and the all-or-nothing singletons (A2ML, MOD_COMMON, IF_DATA, VARIANT_CODING, '
               'USER_RIGHTS) are not named namespaces of the statement; they are covered by the document-level oracle only '
               'as far as "A is kept"']
TRUSTED_BASE = ['the content of an element is represented by an id placed in its long identifier (FNC_VALUES position for '
                'RECORD_LAYOUT, version string for TRANSFORMER); equality of the real elements is the derived PartialEq']


def pool(rng):
    bases = ['n%d' % i for i in range(6)]
    out = list(bases)
    for b in bases[:4]:
        out += [b + '.MERGE', b + '.MERGE2', b + '.MERGE3']
    out += ['n0.MERGE.MERGE', 'n1.MERGE2.MERGE']
    return out


def gen_side(rng, names, nk, n):
    chosen = rng.sample(names, min(n, len(names)))
    return [[rng.randrange(nk), nm, rng.randrange(1, 4)] for nm in chosen]


def gen_b(rng, a, names, nk, n):
    out, used = [], set()
    cand = list(a)
    rng.shuffle(cand)
    for it in cand:
        if len(out) >= n:
            break
        if it[1] in used:
            continue
        r = rng.random()
        if r < 0.3:
            out.append(list(it))
        elif r < 0.5:
            out.append([it[0], it[1], it[2] % 3 + 1])
        elif r < 0.65 and nk > 1:
            out.append([(it[0] + 1 + rng.randrange(nk - 1)) % nk, it[1], it[2]])
        else:
            continue
        used.add(it[1])
    free = [x for x in names if x not in used and x not in [i[1] for i in a]] + [x for x in names if x not in used]
    rng.shuffle(free)
    for nm in free:
        if len(out) >= n:
            break
        if nm in used:
            continue
        used.add(nm)
        out.append([rng.randrange(nk), nm, rng.randrange(1, 4)])
    rng.shuffle(out)
    return out


def gen_members(rng):
    return rng.sample(['m%d' % i for i in range(6)], rng.randrange(0, 5))


def gen_grp(rng, name):
    return [name, rng.randrange(1, 3), [([gen_members(rng)] if rng.random() < 0.6 else []) for _ in range(4)]]


def gen_cases(rng, tier):
    n = 300 if tier == 'quick' else 60000
    names = pool(rng)
    cases = []
    for i in range(n):
        r = rng.random()
        if r < 0.6:
            parts = []
            for ns in rng.sample(range(9), rng.choice([1, 1, 2, 4, 9])):
                nk = NS_KINDS[ns]
                a = gen_side(rng, names, nk, rng.choice([0, 1, 3, 6, 12]))
                mode = rng.random()
                if mode < 0.08:
                    b = [list(x) for x in a]
                elif mode < 0.14:
                    b = []
                else:
                    b = gen_b(rng, a, names, nk, rng.choice([1, 3, 6, 12]))
                parts.append([ns, a, b])
            cases.append(['NS', parts])
        elif r < 0.75:
            ns = rng.randrange(9)
            nk = NS_KINDS[ns]
            a = gen_side(rng, names, nk, rng.choice([0, 2, 5]))
            bs = []
            cur = a
            for _ in range(rng.randrange(2, 5)):
                b = gen_b(rng, cur, names, nk, rng.choice([1, 3, 6]))
                bs.append(b)
                seen = {x[1] for x in cur}
                cur = cur + [x for x in b if x[1] not in seen]
            cases.append(['SEQ', ns, a, bs])
        else:
            gn = ['g%d' % k for k in range(5)]
            a = [gen_grp(rng, x) for x in rng.sample(gn, rng.randrange(0, 5))]
            mode = rng.random()
            if mode < 0.1:
                b = [[g[0], g[1], [list(map(list, l)) for l in g[2]]] for g in a]
            else:
                b = []
                for x in rng.sample(gn, rng.randrange(0, 5)):
                    twin = [g for g in a if g[0] == x]
                    if twin and rng.random() < 0.25:
                        b.append([twin[0][0], twin[0][1], [list(map(list, l)) for l in twin[0][2]]])
                    else:
                        b.append(gen_grp(rng, x))
            cases.append(['GRP', rng.randrange(2), a, b])
    return cases


def _dec(line):
    if line is None or line.startswith('DIED'):
        return None
    return sx.pretty(sx.dec(line))


MERGE_RE = re.compile(r'^(.*)\.MERGE(\d*)$')


def fresh_form(name, base):
    return name == base + '.MERGE' or (name.startswith(base + '.MERGE') and name[len(base) + 6:].isdigit())


def check_ns(ns, a, b, lists):
    nk = NS_KINDS[ns]
    if len(lists) != nk:
        return 'namespace %s: %d kind lists' % (NS_NAMES[ns], len(lists))
    appended = []
    for k in range(nk):
        ak = [x for x in a if x[0] == k]
        rk = [list(x) for x in lists[k]]
        if rk[:len(ak)] != ak:
            return '%s kind %d: the elements of A are not kept unchanged in place: %s -> %s' % (NS_NAMES[ns], k, ak, rk[:len(ak)])
        appended += rk[len(ak):]
    anames = {x[1]: x for x in a}
    bnames = {x[1] for x in b}
    expect = 0
    rest = list(appended)
    for m in b:
        o = anames.get(m[1])
        if o is not None and list(o) == list(m):
            continue
        expect += 1
        if o is None:
            if m not in rest:
                return '%s: new element %s of B is not in the result' % (NS_NAMES[ns], m)
            rest.remove(m)
        else:
            hits = [x for x in rest if x[0] == m[0] and x[2] == m[2] and fresh_form(x[1], m[1]) and
                    x[1] not in anames and x[1] not in bnames]
            if not hits:
                return '%s: conflicting element %s of B is not represented under a fresh name (appended: %s)' % (NS_NAMES[ns], m, appended)
            rest.remove(hits[0])
    if rest:
        return '%s: elements that come from neither input: %s' % (NS_NAMES[ns], rest)
    allnames = [x[1] for l in lists for x in l]
    if len(set(allnames)) != len(allnames):
        return '%s: duplicate names after the merge: %s' % (NS_NAMES[ns], sorted(n for n in set(allnames) if allnames.count(n) > 1))
    return None


def check_grp(a, b, res):
    res = [list(x) for x in res]
    if len(res) < len(a):
        return 'groups of A disappeared'
    for o, r in zip(a, res):
        if r[0] != o[0] or r[1] != o[1]:
            return 'group %s of A changed its name or content: %s' % (o[0], r)
        for lo, lr in zip(o[2], r[2]):
            if lo:
                if not lr or list(lr[0][:len(lo[0])]) != list(lo[0]):
                    return 'group %s of A lost members: %s -> %s' % (o[0], lo, lr)
    names = [r[0] for r in res]
    if len(set(names)) != len(names):
        return 'duplicate group names %s' % names
    for g in b:
        hit = [r for r in res if r[0] == g[0]]
        if not hit:
            return 'group %s of B is not represented' % g[0]
        for lg, lr in zip(g[2], hit[0][2]):
            if lg and (not lr or not set(lg[0]) <= set(lr[0])):
                return 'members of group %s of B are missing: %s vs %s' % (g[0], lg, lr)
    for r in res:
        src = [x for x in a + b if x[0] == r[0]]
        if not src:
            return 'group %s comes from neither input' % r[0]
        for k, lr in enumerate(r[2]):
            have = set()
            for x in src:
                if x[2][k]:
                    have |= set(x[2][k][0])
            if lr and not set(lr[0]) <= have:
                return 'group %s has members from neither input' % r[0]
    return None


def oracle(case, impl_line):
    out = _dec(impl_line)
    if out is None:
        return 'implementation process died: %s' % impl_line
    if out[0] == 'PANIC':
        return 'panic in %s' % out[1]
    if out[0] != 'OK':
        return 'generated module does not load: %s' % (out[1:],)
    if case[0] == 'NS':
        for (ns, a, b), lists in zip(case[1], out[1]):
            why = check_ns(ns, a, b, lists)
            if why:
                return why
            flat_a = [[x for x in a if x[0] == k] for k in range(NS_KINDS[ns])]
            got = [[list(x) for x in l] for l in lists]
            if not b and got != flat_a:
                return '%s: merging an empty module changed A' % NS_NAMES[ns]
            if sorted(map(tuple, b)) == sorted(map(tuple, a)) and got != flat_a:
                return '%s: merging an identical copy changed A' % NS_NAMES[ns]
            if not a and got != [[x for x in b if x[0] == k] for k in range(NS_KINDS[ns])]:
                return '%s: merging into an empty module does not yield B' % NS_NAMES[ns]
        return None
    if case[0] == 'SEQ':
        _, ns, a, bs = case
        lists = out[1]
        for k in range(NS_KINDS[ns]):
            ak = [x for x in a if x[0] == k]
            if [list(x) for x in lists[k]][:len(ak)] != ak:
                return 'sequence: A not kept'
        allitems = [list(x) for l in lists for x in l]
        names = [x[1] for x in allitems]
        if len(set(names)) != len(names):
            return 'sequence: duplicate names %s' % names
        for b in bs:
            for m in b:
                if not any(x[0] == m[0] and x[2] == m[2] and (x[1] == m[1] or x[1].startswith(m[1] + '.MERGE')) for x in allitems):
                    return 'sequence: element %s is not represented in the final result' % m
        return None
    if case[0] == 'GRP':
        _, which, a, b = case
        why = check_grp(a, b, out[1])
        if why:
            return ('FUNCTION: ' if which else 'GROUP: ') + why
        res = [list(x) for x in out[1]]
        norm = lambda gs: [[g[0], g[1], [[list(l[0])] if l else [] for l in g[2]]] for g in gs]
        if not b and norm(res) != norm(a):
            return 'merging no groups changed A'
        if norm(b) == norm(a) and norm(res) != norm(a):
            return 'merging identical groups changed A'
        if not a and norm(res) != norm(b):
            return 'merging groups into an empty module does not yield B'
        return None
    return 'unknown case'


def nontrivial_key(case, impl_line):
    if case[0] == 'NS':
        ok = False
        for ns, a, b in case[1]:
            an = {x[1] for x in a}
            if any(m[1] in an for m in b):
                ok = True
        if not ok:
            return None
    elif case[0] == 'GRP':
        if not ({g[0] for g in case[2]} & {g[0] for g in case[3]}):
            return None
    return hash(impl_line)


def distribution(cases, impl_out):
    d = {'NS': 0, 'SEQ': 0, 'GRP': 0, 'twins': 0, 'conflicts': 0, 'cross_kind_conflicts': 0, 'new': 0,
         'premerged_names_in_A': 0, 'namespaces': {n: 0 for n in NS_NAMES}, 'answers': {}}
    for c, o in zip(cases, impl_out):
        d[c[0]] += 1
        st = (o or 'DIED').split(' ')[1] if o and o.startswith('(') else 'DIED'
        d['answers'][st] = d['answers'].get(st, 0) + 1
        if c[0] == 'NS':
            for ns, a, b in c[1]:
                d['namespaces'][NS_NAMES[ns]] += 1
                an = {x[1]: x for x in a}
                d['premerged_names_in_A'] += sum(1 for x in a if '.MERGE' in x[1])
                for m in b:
                    o2 = an.get(m[1])
                    if o2 is None:
                        d['new'] += 1
                    elif o2 == m:
                        d['twins'] += 1
                    elif o2[0] != m[0]:
                        d['cross_kind_conflicts'] += 1
                    else:
                        d['conflicts'] += 1
    return d


def shrink(case, still_fails):
    def try_lists(get, put):
        changed = True
        while changed:
            changed = False
            cur = get()
            for i in range(len(cur)):
                cand = cur[:i] + cur[i + 1:]
                c2 = put(cand)
                if still_fails(c2):
                    nonlocal_case[0] = c2
                    changed = True
                    break
    nonlocal_case = [case]
    if case[0] == 'NS':
        try_lists(lambda: nonlocal_case[0][1], lambda l: ['NS', l])
        for pi in range(len(nonlocal_case[0][1])):
            for side in (1, 2):
                def get(pi=pi, side=side):
                    return nonlocal_case[0][1][pi][side]

                def put(l, pi=pi, side=side):
                    parts = [list(p) for p in nonlocal_case[0][1]]
                    parts[pi][side] = l
                    return ['NS', parts]
                try_lists(get, put)
    elif case[0] == 'GRP':
        for side in (2, 3):
            def get(side=side):
                return nonlocal_case[0][side]

            def put(l, side=side):
                c = list(nonlocal_case[0])
                c[side] = l
                return c
            try_lists(get, put)
    return nonlocal_case[0]


# ---------------------------------------------------------------------------------------------------------------------
# "keeps every element of A unchanged", on documents whose elements refer to each other at every reference site of the
# grammar (the abstract pairs above carry an id as content and cannot see a reference inside A being rewritten)
KEEP_GAIN = {b'Group', b'Function'}          # may gain members


def a_kept(sites, dump_before, dump_after):
    """None, or what happened to a named element of A"""
    from checks import reflib as R, loadlib
    before = R.definitions_in_dump(dump_before, sites, with_nodes=True).get(0, {})
    after = R.definitions_in_dump(dump_after, sites, with_nodes=True).get(0, {})
    for ns in sorted(before):
        for name, (tname, node) in sorted(before[ns].items()):
            hit = after.get(ns, {}).get(name)
            if hit is None:
                return '%s %s of A is gone after the merge' % (tname, name)
            if hit[0] != tname:
                return '%s %s of A is a %s after the merge' % (tname, name, hit[0])
            if node[0] in KEEP_GAIN:
                continue
            d = loadlib.veq(node, hit[1])
            if d:
                return '%s %s of A is changed by the merge: %s' % (tname, name, d)
    return None


def extra_stage(v, tier, rng, impl):
    from checks import reflib as R
    sites = R.load_sites()
    n = 60 if tier == 'quick' else 3000
    pairs = []
    for j in range(n):
        ov = R.OVERLAPS[j % len(R.OVERLAPS)]
        ta, tb, info = R.gen_merge_pair(rng, sites, ov, size=rng.choice(['small', 'small', 'medium']), p_conflict=rng.choice([0.3, 0.5, 0.9]))
        pairs.append((ov, ta, tb))
    loads = R.run_cases('LOAD', [R.load_case(ta) for ov, ta, tb in pairs], binary=impl)
    merges = R.run_cases('MERGE', [R.merge_case(ta, tb) for ov, ta, tb in pairs], binary=impl)
    found, n_ok, n_defs = [], 0, 0
    for (ov, ta, tb), la, m in zip(pairs, loads, merges):
        if not la or la[0] != b'OK' or not m:
            continue
        why = None
        if m[0] != b'OK':
            why = 'merge_modules: %s' % sx.pretty(m[:2])
        else:
            why = a_kept(sites, la[1], m[1])
            n_defs += sum(len(x) for x in R.definitions_in_dump(la[1], sites).get(0, {}).values())
        if why is None:
            n_ok += 1
        elif len(found) < 3:
            found.append({'payload': {'kind': 'MERGEKEEP', 'textA': ta, 'textB': tb, 'overlap': ov, 'why': why,
                                      'stage': 'W (every element of A unchanged, documents with references)'}})
    v.coverage['keep_pairs'] = len(pairs)
    v.coverage['keep_pairs_ok'] = n_ok
    v.coverage['keep_elements_of_A_compared'] = n_defs
    return found


def replay(r):
    if r.get('kind') == 'MERGEKEEP':
        from checks import reflib as R
        impl = fw.build_harness()
        sites = R.load_sites()
        la = R.run_cases('LOAD', [R.load_case(r['textA'])], binary=impl)[0]
        m = R.run_cases('MERGE', [R.merge_case(r['textA'], r['textB'])], binary=impl)[0]
        print('A:\n' + r['textA'][:3000])
        print('B:\n' + r['textB'][:3000])
        why = 'merge failed' if not m or m[0] != b'OK' or not la or la[0] != b'OK' else a_kept(sites, la[1], m[1])
        print('oracle:', why or 'every element of A is unchanged')
        return 1 if why else 0
    return None          # every other kind: the generic replay of vcheck
