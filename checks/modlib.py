"""shared generators / decoders for the module-level histories of C14 and C15"""
import sx

TAGS = ["AXIS_PTS", "BLOB", "CHARACTERISTIC", "COMPU_METHOD", "COMPU_TAB", "COMPU_VTAB", "COMPU_VTAB_RANGE",
        "FRAME", "FUNCTION", "GROUP", "INSTANCE", "MEASUREMENT", "RECORD_LAYOUT", "TRANSFORMER", "TYPEDEF_AXIS",
        "TYPEDEF_BLOB", "TYPEDEF_CHARACTERISTIC", "TYPEDEF_MEASUREMENT", "TYPEDEF_STRUCTURE", "UNIT"]
CANON = ["A2ML", "MOD_COMMON", "MOD_PAR", "IF_DATA", "CHARACTERISTIC", "MEASUREMENT", "AXIS_PTS", "INSTANCE", "BLOB",
         "COMPU_METHOD", "COMPU_TAB", "COMPU_VTAB", "COMPU_VTAB_RANGE", "TYPEDEF_STRUCTURE", "TYPEDEF_CHARACTERISTIC",
         "TYPEDEF_MEASUREMENT", "TYPEDEF_AXIS", "TYPEDEF_BLOB", "FRAME", "FUNCTION", "GROUP", "RECORD_LAYOUT",
         "TRANSFORMER", "UNIT", "USER_RIGHTS", "VARIANT_CODING"]
U32 = 1 << 32


def el(tag, name, uid, line, so=1, eo=1):
    return [tag, name, 0, uid, line, so, eo]


def gen_module(rng, n_items, uid_scale=1, with_new=0.0, kinds=None):
    """a module 'as loaded': unique ascending uids in file order, spread over random kinds"""
    kinds = kinds if kinds is not None else list(range(20))
    uid_scale = max(1, min(uid_scale, (U32 - 1) // (20 + 6 * n_items)))   # all uids are u32
    lists = [[] for _ in range(20)]
    uid = rng.randrange(1, 5)
    line = 1
    opt = [[], [], [], []]
    names = ['e%02d' % i for i in range(n_items * 2)]
    rng.shuffle(names)
    if rng.random() < 0.5:
        opt[0] = [el('A2ML', '', uid * uid_scale, line)]
        uid += rng.randrange(1, 4); line += 3
    if rng.random() < 0.5:
        opt[1] = [el('MOD_COMMON', '', uid * uid_scale, line)]
        uid += rng.randrange(1, 4); line += 3
    if rng.random() < 0.5:
        opt[2] = [el('MOD_PAR', '', uid * uid_scale, line)]
        uid += rng.randrange(1, 4); line += 3
    ifd, ur = [], []
    for i in range(n_items):
        r = rng.random()
        if r < 0.06:
            ifd.append(el('IF_DATA', '', uid * uid_scale, line))
        elif r < 0.12:
            ur.append(el('USER_RIGHTS', names.pop(), uid * uid_scale, line))
        else:
            k = rng.choice(kinds)
            if rng.random() < with_new:
                lists[k].append(el(TAGS[k], names.pop(), 0, rng.choice([0, 0, line]), 2, 1))
            else:
                lists[k].append(el(TAGS[k], names.pop(), uid * uid_scale, line, rng.randrange(1, 3), 1))
        uid += rng.randrange(1, 6)
        line += rng.randrange(1, 9)
    if rng.random() < 0.3:
        opt[3] = [el('VARIANT_CODING', '', uid * uid_scale, line)]
    return [opt[0], opt[1], opt[2], opt[3], ifd, ur, [], lists]


def all_elements(state):
    """[(tag, name, uid)] of everything the writer orders in the module"""
    out = []
    for o in state[0:4]:
        for e in o:
            out.append((e[0], e[1], e[3]))
    for e in state[4] + state[5]:
        out.append((e[0], e[1], e[3]))
    for l in state[7]:
        for e in l:
            out.append((e[0], e[1], e[3]))
    return out


def decode_out(line):
    if line.startswith('DIED'):
        return None
    return sx.pretty(sx.dec(line))
