"""C11 check(): reference diagnostics are sound, complete on the covered sites, and total.
   T  ref/sites.json -> Gen/Sites.v; every identifier field of the grammar recovered from /repo is classified
   P  Props/C11.v (soundness, completeness on covered sites, empty report on consistent modules, single corruption named,
      closed obligations pinning the sites check() does not look at)
   C  the extracted reference-check model against check() of the library on the reference graphs of generated documents
      (consistent, randomly inconsistent, single corruptions), compared as multisets of missing target names per document;
      the table against the implementation at every (site, parent) instance
   W  on the implementation: no panic and no modification of the model on any loadable document (incl. >5 AXIS_DESCR,
      duplicate names, missing MOD_PAR, empty lists), empty cross-reference report on consistent documents, every single
      corruption of a covered reference reported with the missing name"""
import collections
import json

import docgen
import framework as fw
import sx
from checks import docs, reflib as R, refprobe as P

PROP = 'C11'
TARGETS = ['theories/Proofs/RefCheckProofs.v', 'theories/Run/RunC11.v']

HEAD = 'ASAP2_VERSION 1 71\n/begin PROJECT p "" /begin MODULE m ""\n'
TAIL = '/end MODULE /end PROJECT\n'
AXD = '/begin AXIS_DESCR STD_AXIS NO_INPUT_QUANTITY NO_COMPU_METHOD 1 0 100 /end AXIS_DESCR\n'
ODD = {
    'six_axis_descr': HEAD + '/begin CHARACTERISTIC c "" CUBE_5 0x10 rl 0 NO_COMPU_METHOD 0 1\n' + AXD * 6 + '/end CHARACTERISTIC\n' + TAIL,
    'nine_axis_descr_typedef': HEAD + '/begin TYPEDEF_CHARACTERISTIC c "" CUBE_5 rl 0 NO_COMPU_METHOD 0 1\n' + AXD * 9 + '/end TYPEDEF_CHARACTERISTIC\n' + TAIL,
    'axis_descr_on_value': HEAD + '/begin CHARACTERISTIC c "" VALUE 0x10 rl 0 NO_COMPU_METHOD 0 1\n' + AXD * 2 + '/end CHARACTERISTIC\n' + TAIL,
    'duplicate_names': HEAD + '/begin MEASUREMENT x "" UBYTE NO_COMPU_METHOD 1 1 0 100 /end MEASUREMENT\n' * 2 +
                       '/begin CHARACTERISTIC x "" VALUE 0x10 rl 0 NO_COMPU_METHOD 0 1 /end CHARACTERISTIC\n' + TAIL,
    'empty_lists': HEAD + '/begin GROUP g "" /begin SUB_GROUP /end SUB_GROUP /begin REF_MEASUREMENT /end REF_MEASUREMENT /end GROUP\n'
                   '/begin FUNCTION f "" /begin SUB_FUNCTION /end SUB_FUNCTION /end FUNCTION\n' + TAIL,
    'group_cycle': HEAD + '/begin GROUP a "" ROOT /begin SUB_GROUP b /end SUB_GROUP /end GROUP\n/begin GROUP b "" /begin SUB_GROUP a b /end SUB_GROUP /end GROUP\n' + TAIL,
    'no_module': 'ASAP2_VERSION 1 71\n/begin PROJECT p "" /end PROJECT\n',
    'record_layout_refs': HEAD + '/begin RECORD_LAYOUT rl FNC_VALUES 1 UBYTE ROW_DIR DIRECT /end RECORD_LAYOUT\n'
                          '/begin AXIS_PTS ap "" 0x10 NO_INPUT_QUANTITY rl 0 NO_COMPU_METHOD 3 0 10 /end AXIS_PTS\n'
                          '/begin CHARACTERISTIC c "" CURVE 0x10 rl 0 NO_COMPU_METHOD 0 1\n'
                          '/begin AXIS_DESCR COM_AXIS NO_INPUT_QUANTITY NO_COMPU_METHOD 1 0 100 AXIS_PTS_REF ap /end AXIS_DESCR /end CHARACTERISTIC\n' + TAIL,
    'transformer_self': HEAD + '/begin TRANSFORMER t "" "a" "b" 1 ON_CHANGE t /end TRANSFORMER\n' + TAIL,
}


def stage_t(v):
    docs.translate_shipped()
    import sites_to_coq
    sites_to_coq.main()
    S = P.sites()
    bad = R.check_classified(R.spec_json(), S)
    return {'ok': not bad, 'what': 'identifier fields of the grammar without a classification in ref/sites.json', 'detail': bad[:10]}


def abstract(node, S):
    """reference graph of every module of a docgen tree: [(defs [(ns, name)], slots [(site index, target, local)])]"""
    inst = {(sid, p): i for i, (sid, h, f, p) in enumerate(P.instances())}
    defs = R.tree_definitions(node, S)
    mods = {}
    for mi, d in defs.items():
        mods[mi] = ([[ns, nm] for ns, l in sorted(d.items()) for (nm, t, n) in l], [])
    ctx = {}
    dangling_ids = set(id(r.val) for r in R.dangling(node, S))
    for r in R.tree_refs(node, S):
        if r.module is None or r.module_index not in mods:
            continue
        e = r.entry
        i = inst.get((r.site, r.parent_type))
        if i is None:
            continue
        local = []
        if e['ns'] in ('VCVAL',):
            local = [0 if id(r.val) in dangling_ids else 1]
        elif e.get('this_prefix') and r.target.startswith('THIS.'):
            tc = next((c for c in r.chain if c.type == 'TypedefCharacteristic'), None)
            if tc is not None:
                if r.module_index not in ctx:
                    ctx[r.module_index] = R._this_context(r.module)
                direct, containing = ctx[r.module_index]
                if tc.fields[0].text not in direct and containing.get(tc.fields[0].text, []):
                    local = [0 if id(r.val) in dangling_ids else 1]
        mods[r.module_index][1].append([i, r.target, local])
    return [mods[k] for k in sorted(mods)]


def names_of(reports):
    return collections.Counter(e[3] for e in R.xref_errors(reports))


def check(tier, seed):
    v = fw.Verdict(PROP, tier, seed)
    rng = fw.rng_for(seed, PROP)
    known = fw.load_known_findings().get(PROP, {})
    S = P.sites()
    t_info = stage_t(v)
    ok_p, p_info = fw.proof_stage(v, PROP, TARGETS)
    impl = fw.build_harness(release=False)
    model_exe, model_err = None, None
    try:
        ok_m, log_m = fw.coq_make(TARGETS)
        if not ok_m:
            raise fw.CheckFailure('model does not compile:\n' + log_m[-2000:])
        model_exe = fw.build_model(PROP)
    except fw.CheckFailure as e:
        model_err = str(e)

    n = 120 if tier == 'quick' else 1500
    sp = docs.spec()
    documents = []            # (class, node, text)
    for j in range(n):
        node, text, refs = R.gen_consistent_doc(rng, rng.choice(['small', 'small', 'medium', 'large']), S,
                                                single_module=rng.random() < 0.6)
        documents.append(('consistent', node, text))
    base = list(documents)
    for j in range(n):          # single corruptions
        cls, node, text = base[j % len(base)]
        refs = [r for r in R.tree_refs(node, S) if P.plain(r)]
        if not refs:
            continue
        r = rng.choice(refs)
        bogus = 'zz_missing_%d' % j
        R.corrupt(node, r, bogus)
        t = P.render(node, rng)
        import copy
        documents.append(('corrupt1:' + P.inst_of(r), copy.deepcopy(node), t))
        R.restore(node, r)
    for j in range(n // 2):     # arbitrary (mostly inconsistent) documents
        node, text, toks = docs.random_doc(rng, rng.choice(['small', 'medium']), layout=docgen.Layout())
        documents.append(('random', node, text))
    res = R.run_cases('CHECK', [R.check_case(t) for c, nd, t in documents], binary=impl)
    odd = R.run_cases('CHECK', [R.check_case(t) for t in ODD.values()], binary=impl)

    # ---- stage C: model against implementation
    lines, owner = [], []
    for j, (cls, node, text) in enumerate(documents):
        if res[j] is None or res[j][0] != b'OK':
            continue
        for m in abstract(node, S):
            lines.append(sx.enc([m[0], m[1]]))
            owner.append(j)
    mismatches = []
    if model_exe:
        out = fw.run_sharded([model_exe], lines)
        per_doc = {}
        for j, line in zip(owner, out):
            m = sx.pretty(sx.dec(line)) if line and not line.startswith('DIED') else None
            c = per_doc.setdefault(j, collections.Counter())
            if m and m[0] == 'OK':
                c.update(m[1])
            else:
                c['<model failed>'] += 1
        for j, c in per_doc.items():
            got = names_of(res[j][1])
            if got != c:
                mismatches.append((j, dict(c - got), dict(got - c)))
    table = P.probe_check(rng.randrange(1 << 30), per=2 if tier == 'quick' else 5)
    table_bad = []
    for sid, h, f, p in P.instances():
        k = P.inst_key(sid, p)
        e = R.site_flags(S, h, f, p)
        row = table.get(k)
        if not row or not row['n']:
            continue
        want_reports = e.get('check_reports', 1 if e['check'] else 0)
        ok = (row['detected'] == row['n'] and row['reports'] == want_reports * row['n']) if e['check'] else row['detected'] == 0
        if not ok or row['panic']:
            table_bad.append({'instance': k, 'table_says_checked': e['check'], 'reports_per_reference': want_reports,
                              'observed': {x: row[x] for x in ('n', 'detected', 'reports', 'panic')},
                              'text': row['cases'][0][0], 'bogus': row['cases'][0][1]})

    # ---- stage W
    failures = []
    for j, (cls, node, text) in enumerate(documents):
        r = res[j]
        if r is None:
            failures.append((j, 'died', 'the process died in check()'))
        elif r[0] == b'PANIC':
            failures.append((j, 'panic', 'panic in %s' % sx.pretty(r[1])))
        elif r[0] == b'OK':
            if not r[2]:
                failures.append((j, 'modified', 'check() modified the model'))
            x = R.xref_errors(r[1])
            if cls == 'consistent' and x:
                failures.append((j, 'false-positive', 'consistent document, reported: %s' % (x[:3],)))
    for (name, text), r in zip(ODD.items(), odd):
        if r is None or r[0] == b'PANIC':
            failures.append((('odd', name), 'panic', 'panic on structurally odd document %s' % name))
        elif r[0] == b'OK' and not r[2]:
            failures.append((('odd', name), 'modified', 'check() modified the model (%s)' % name))
    for rec in table_bad:
        if rec['table_says_checked'] and rec['observed']['detected'] < rec['observed']['n']:
            failures.append((('probe', rec['instance']), 'missed', 'corrupted covered reference at %s not reported' % rec['instance']))

    classes = collections.Counter(c.split(':')[0] for c, nd, t in documents)
    v.coverage.update({
        'evaluations': len(documents) + len(ODD) + sum(r['n'] for r in table.values()),
        'distinct_nontrivial': len(set(c for c, nd, t in documents if c.startswith('corrupt1'))) + classes['consistent'],
        'rule': ('grammar-generated consistent documents (1-3 modules, every reference site populated over the run), each with one '
                 'reference redirected to an undefined name, arbitrary generated documents with unresolved references, %d '
                 'hand-written structurally odd documents, and 60 site-instance probes; non-trivial = consistent documents + '
                 'distinct corrupted site instances' % len(ODD)),
        'documents_by_class': dict(classes), 'odd_documents': sorted(ODD),
        'model_cases': len(lines), 'correspondence_mismatches': len(mismatches),
        'traces_validated_against_impl': len(set(owner)) - len(mismatches) if model_exe else 0,
        'site_instances_probed': len([k for k in table if table[k]['n']]), 'table_mismatches': len(table_bad),
        'oracle_failures': len(failures),
        'implementation_answers': dict(collections.Counter((r[0].decode() if r else 'DIED') for r in res)),
        'translator': t_info,
        'samples': [documents[0][2][:500], documents[n][2][:500] if len(documents) > n else ''],
        'trusted_base': ['Coq kernel; extraction (ExtrOcamlBasic, ExtrOcamlString) and OCaml for the model run',
                         'checks/reflib.py: abstraction of a document into definitions and reference slots (incl. whether the THIS. rule '
                         'of an indirectly used TYPEDEF_CHARACTERISTIC resolves a reference) - shared by model input and generator',
                         'ref/sites.json classification (completeness checked against the grammar; check flags observed per site instance)',
                         'harness CHECK handler: catch_unwind around check(), model compared before/after with PartialEq and written text'],
    })
    v.assumptions = ['"covered" references = the sites check() looks at (46 of 60 site instances; the other 14 are listed in '
                     'Props/C11.v and are outside the completeness claim of the property)']

    reported, seen = 0, set()
    for j, cls, why in failures:
        if cls in known:
            v.known(cls, known[cls])
            continue
        if cls in seen or reported >= 3:
            continue
        seen.add(cls)
        if isinstance(j, tuple) and j[0] == 'odd':
            text = ODD[j[1]]
        elif isinstance(j, tuple):
            rec = [r for r in table_bad if r['instance'] == j[1]][0]
            text = rec['text']
        else:
            text = documents[j][2]
        v.violation('input', {'kind': 'CHECK', 'text': text, 'why': why, 'class': cls, 'stage': 'W (oracle on the implementation)'})
        reported += 1
    if reported == 0:
        if not t_info['ok']:
            v.violation('translate', {'stage': 'T', 'broken': t_info['what'], 'detail': t_info['detail']}, no_input=True)
        if not ok_p:
            v.violation('proof', {'stage': 'P', 'broken_obligation': p_info.get('failing'), 'problems': p_info.get('problems'),
                                  'forbidden_constructs': p_info.get('forbidden'), 'log_tail': p_info.get('log', '')}, no_input=True)
        if model_err:
            v.violation('model', {'stage': 'C', 'broken': 'model build', 'detail': model_err}, no_input=True)
        elif mismatches or table_bad:
            j = mismatches[0][0] if mismatches else None
            # a mismatch is a property violation when the implementation reports a name the model resolves (false positive)
            # or misses one at a covered site; both are decided by the model, so the document is the failing input
            v.violation('correspondence', {
                'stage': 'C', 'broken': 'reference-check model / site table against check()',
                'kind': 'CHECK', 'text': documents[j][2] if j is not None else table_bad[0]['text'],
                'model_only': mismatches[0][1] if mismatches else None, 'implementation_only': mismatches[0][2] if mismatches else None,
                'documents_differing': len(mismatches),
                'table_mismatches': [{k: x[k] for k in ('instance', 'table_says_checked', 'reports_per_reference', 'observed')} for x in table_bad[:10]]},
                no_input=not mismatches and not table_bad)
    return v.finish('proof')


def replay(r):
    impl = fw.build_harness(release=False)
    if not r.get('text'):
        print('replay: no concrete input recorded; broken:', r.get('broken_obligation') or r.get('broken'))
        return 1
    res = R.run_cases('CHECK', [R.check_case(r['text'])], binary=impl)[0]
    print(r['text'][:4000])
    if res is None or res[0] != b'OK':
        print('check():', 'process died' if res is None else sx.pretty(res))
        return 1
    print('cross reference reports:', R.xref_errors(res[1]))
    print('model unchanged by check():', bool(res[2]))
    print('expected (recorded):', {k: r.get(k) for k in ('why', 'model_only', 'implementation_only')})
    return 1
