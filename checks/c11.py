"""C11 check(): reference diagnostics are sound, complete on the covered sites, and total.
   T  ref/sites.json -> Gen/Sites.v; every identifier field of the grammar recovered from /repo is classified
   P  Props/C11.v (soundness, completeness on covered sites, empty report on consistent modules, single corruption named,
      closed obligations pinning the sites check() does not look at)
   C  the extracted reference-check model against check() of the library on the reference graphs of generated documents
      (consistent, randomly inconsistent, single corruptions), compared as multisets of missing target names per document;
      the table against the implementation at every (site, parent) instance
   W  on the implementation: no panic and no modification of the model on any loadable document (incl. >5 AXIS_DESCR,
      duplicate names, missing MOD_PAR, empty lists), empty cross-reference report on consistent documents, every single
      corruption of a covered reference reported with the missing name"""
import collections
import json

import docgen
import framework as fw
import sx
from checks import docs, reflib as R, refprobe as P

PROP = 'C11'
TARGETS = ['theories/Proofs/RefCheckProofs.v', 'theories/Run/RunC11.v']

HEAD = 'ASAP2_VERSION 1 71\n/begin PROJECT p "" /begin MODULE m ""\n'
TAIL = '/end MODULE /end PROJECT\n'
AXD = '/begin AXIS_DESCR STD_AXIS NO_INPUT_QUANTITY NO_COMPU_METHOD 1 0 100 /end AXIS_DESCR\n'
ODD = {
    'six_axis_descr': HEAD + '/begin CHARACTERISTIC c "" CUBE_5 0x10 rl 0 NO_COMPU_METHOD 0 1\n' + AXD * 6 + '/end CHARACTERISTIC\n' + TAIL,
    'nine_axis_descr_typedef': HEAD + '/begin TYPEDEF_CHARACTERISTIC c "" CUBE_5 rl 0 NO_COMPU_METHOD 0 1\n' + AXD * 9 + '/end TYPEDEF_CHARACTERISTIC\n' + TAIL,
    'axis_descr_on_value': HEAD + '/begin CHARACTERISTIC c "" VALUE 0x10 rl 0 NO_COMPU_METHOD 0 1\n' + AXD * 2 + '/end CHARACTERISTIC\n' + TAIL,
    'duplicate_names': HEAD + '/begin MEASUREMENT x "" UBYTE NO_COMPU_METHOD 1 1 0 100 /end MEASUREMENT\n' * 2 +
                       '/begin CHARACTERISTIC x "" VALUE 0x10 rl 0 NO_COMPU_METHOD 0 1 /end CHARACTERISTIC\n' + TAIL,
    'empty_lists': HEAD + '/begin GROUP g "" /begin SUB_GROUP /end SUB_GROUP /begin REF_MEASUREMENT /end REF_MEASUREMENT /end GROUP\n'
                   '/begin FUNCTION f "" /begin SUB_FUNCTION /end SUB_FUNCTION /end FUNCTION\n' + TAIL,
    'group_cycle': HEAD + '/begin GROUP a "" ROOT /begin SUB_GROUP b /end SUB_GROUP /end GROUP\n/begin GROUP b "" /begin SUB_GROUP a b /end SUB_GROUP /end GROUP\n' + TAIL,
    'no_module': 'ASAP2_VERSION 1 71\n/begin PROJECT p "" /end PROJECT\n',
    'record_layout_refs': HEAD + '/begin RECORD_LAYOUT rl FNC_VALUES 1 UBYTE ROW_DIR DIRECT /end RECORD_LAYOUT\n'
                          '/begin AXIS_PTS ap "" 0x10 NO_INPUT_QUANTITY rl 0 NO_COMPU_METHOD 3 0 10 /end AXIS_PTS\n'
                          '/begin CHARACTERISTIC c "" CURVE 0x10 rl 0 NO_COMPU_METHOD 0 1\n'
                          '/begin AXIS_DESCR COM_AXIS NO_INPUT_QUANTITY NO_COMPU_METHOD 1 0 100 AXIS_PTS_REF ap /end AXIS_DESCR /end CHARACTERISTIC\n' + TAIL,
    'transformer_self': HEAD + '/begin TRANSFORMER t "" "a" "b" 1 ON_CHANGE t /end TRANSFORMER\n' + TAIL,
}


def stage_t(v):
    docs.translate_shipped()
    import sites_to_coq
    sites_to_coq.main()
    S = P.sites()
    bad = R.check_classified(R.spec_json(), S)
    return {'ok': not bad, 'what': 'identifier fields of the grammar without a classification in ref/sites.json', 'detail': bad[:10]}


def abstract(node, S):
    """reference graph of every module of a docgen tree: [(defs [(ns, name)], slots [(site index, target, local)])]"""
    inst = {(sid, p): i for i, (sid, h, f, p) in enumerate(P.instances())}
    defs = R.tree_definitions(node, S)
    mods = {}
    for mi, d in defs.items():
        mods[mi] = ([[ns, nm] for ns, l in sorted(d.items()) for (nm, t, n) in l], [])
    ctx = {}
    dangling_ids = set(id(r.val) for r in R.dangling(node, S))
    for r in R.tree_refs(node, S):
        if r.module is None or r.module_index not in mods:
            continue
        e = r.entry
        i = inst.get((r.site, r.parent_type))
        if i is None:
            continue
        local = []
        if e['ns'] in ('VCVAL',):
            local = [0 if id(r.val) in dangling_ids else 1]
        elif e.get('this_prefix') and r.target.startswith('THIS.'):
            tc = next((c for c in r.chain if c.type == 'TypedefCharacteristic'), None)
            if tc is not None:
                if r.module_index not in ctx:
                    ctx[r.module_index] = R._this_context(r.module)
                direct, containing = ctx[r.module_index]
                if tc.fields[0].text not in direct and containing.get(tc.fields[0].text, []):
                    local = [0 if id(r.val) in dangling_ids else 1]
        mods[r.module_index][1].append([i, r.target, local])
    return [mods[k] for k in sorted(mods)]


def gen_this_doc(rng, S):
    """(text, expected multiset of reported names, abstract module) for the THIS. convention: a TYPEDEF_CHARACTERISTIC that is
    a component of 0..3 TYPEDEF_STRUCTUREs with different component sets, optionally instantiated directly, whose AXIS_DESCRs
    refer to THIS.<component> through AXIS_PTS_REF and CURVE_AXIS_REF"""
    inst = {(sid, p): i for i, (sid, h, f, p) in enumerate(P.instances())}
    pool = ['ax', 'ay', 'az']
    nstruct = rng.choice([0, 1, 2, 2, 3])
    structs = []
    for k in range(nstruct):
        comps = [c for c in pool if rng.random() < 0.6]
        structs.append(('ts%d' % k, comps))
    direct = rng.random() < 0.25
    refs = []
    for _ in range(rng.randrange(1, 4)):
        kind = rng.choice(['AXIS_PTS_REF', 'CURVE_AXIS_REF'])
        tgt = rng.choice(['THIS.' + rng.choice(pool + ['nowhere']), 'apx', 'gone'])
        refs.append((kind, tgt))
    out = [HEAD.rstrip('\n'), '/begin RECORD_LAYOUT rl FNC_VALUES 1 UBYTE ROW_DIR DIRECT AXIS_PTS_X 2 UBYTE INDEX_INCR DIRECT /end RECORD_LAYOUT',
           '/begin AXIS_PTS apx "" 0x0 NO_INPUT_QUANTITY rl 0 NO_COMPU_METHOD 3 0 255 /end AXIS_PTS',
           '/begin TYPEDEF_AXIS ta "" NO_INPUT_QUANTITY rl 0 NO_COMPU_METHOD 3 0 255 /end TYPEDEF_AXIS',
           '/begin TYPEDEF_CHARACTERISTIC tc "" CUBOID rl 0 NO_COMPU_METHOD 0 255']
    for kind, tgt in refs:
        axis = 'COM_AXIS' if kind == 'AXIS_PTS_REF' else 'CURVE_AXIS'
        out.append('  /begin AXIS_DESCR %s NO_INPUT_QUANTITY NO_COMPU_METHOD 3 0 255 %s %s /end AXIS_DESCR' % (axis, kind, tgt))
    out.append('/end TYPEDEF_CHARACTERISTIC')
    for name, comps in structs:
        out.append('/begin TYPEDEF_STRUCTURE %s "" 16' % name)
        for j, cname in enumerate(comps):
            out.append('  /begin STRUCTURE_COMPONENT %s ta %d /end STRUCTURE_COMPONENT' % (cname, j))
        out.append('  /begin STRUCTURE_COMPONENT cu tc 8 /end STRUCTURE_COMPONENT')
        out.append('/end TYPEDEF_STRUCTURE')
        if rng.random() < 0.5:
            out.append('/begin INSTANCE i_%s "" %s 0x100 /end INSTANCE' % (name, name))
    if direct:
        out.append('/begin INSTANCE i_direct "" tc 0x200 /end INSTANCE')
    out.append(TAIL)
    objects = {'apx'} | {'i_' + n for n, _ in structs if ('/begin INSTANCE i_%s ' % n) in '\n'.join(out)} | ({'i_direct'} if direct else set())
    expected = collections.Counter()
    slots = []
    for kind, tgt in refs:
        site = inst[('AxisPtsRef.axis_points' if kind == 'AXIS_PTS_REF' else 'CurveAxisRef.curve_axis', 'AxisDescr')]
        if tgt.startswith('THIS.') and not direct and structs:
            ok = all(tgt[5:] in comps for _n, comps in structs)
            slots.append([site, tgt, [1 if ok else 0]])
            if not ok:
                expected[tgt[5:]] += 1
        else:
            slots.append([site, tgt, []])
            if tgt not in objects:
                expected[tgt] += 1
    defs = [['OBJ', o] for o in sorted(objects)] + [['RL', 'rl'], ['TD', 'ta'], ['TD', 'tc']] + [['TD', n] for n, _ in structs]
    # the remaining references of the document resolve (record layouts, component types, instance types)
    return '\n'.join(out), expected, [defs, slots]


def names_of(reports):
    return collections.Counter(e[3] for e in R.xref_errors(reports))


def check(tier, seed):
    v = fw.Verdict(PROP, tier, seed)
    rng = fw.rng_for(seed, PROP)
    known = fw.load_known_findings().get(PROP, {})
    S = P.sites()
    t_info = stage_t(v)
    ok_p, p_info = fw.proof_stage(v, PROP, TARGETS)
    impl = fw.build_harness(release=False)
    model_exe, model_err = None, None
    try:
        ok_m, log_m = fw.coq_make(TARGETS)
        if not ok_m:
            raise fw.CheckFailure('model does not compile:\n' + log_m[-2000:])
        model_exe = fw.build_model(PROP)
    except fw.CheckFailure as e:
        model_err = str(e)

    n = 120 if tier == 'quick' else 8000
    sp = docs.spec()
    documents = []            # (class, node, text)
    for j in range(n):
        node, text, refs = R.gen_consistent_doc(rng, rng.choice(['small', 'small', 'medium', 'large']), S,
                                                single_module=rng.random() < 0.6)
        documents.append(('consistent', node, text))
    base = list(documents)
    for j in range(n):          # single corruptions
        cls, node, text = base[j % len(base)]
        refs = [r for r in R.tree_refs(node, S) if P.plain(r)]
        if not refs:
            continue
        r = rng.choice(refs)
        # mostly a fresh name; now and then a reserved name that belongs to ANOTHER kind of reference (NO_COMPU_METHOD where an input
        # quantity stands, ...): each convention holds for its own sites only, anywhere else such a name is a missing target
        foreign = [x for x in sorted(S['special_names']) if x not in r.entry.get('special', [])]
        bogus = rng.choice(foreign) if (foreign and rng.random() < 0.35) else 'zz_missing_%d' % j
        R.corrupt(node, r, bogus)
        t = P.render(node, rng)
        import copy
        documents.append(('corrupt1:' + P.inst_of(r), copy.deepcopy(node), t))
        R.restore(node, r)
    for j in range(n // 2):     # arbitrary (mostly inconsistent) documents
        node, text, toks = docs.random_doc(rng, rng.choice(['small', 'medium']), layout=docgen.Layout())
        documents.append(('random', node, text))
    this_docs = [gen_this_doc(rng, S) for _ in range(n // 2)]
    this_res = R.run_cases('CHECK', [R.check_case(t) for t, e, m in this_docs], binary=impl)
    res = R.run_cases('CHECK', [R.check_case(t) for c, nd, t in documents], binary=impl)
    odd = R.run_cases('CHECK', [R.check_case(t) for t in ODD.values()], binary=impl)

    # ---- stage C: model against implementation
    lines, owner = [], []
    for j, (cls, node, text) in enumerate(documents):
        if res[j] is None or res[j][0] != b'OK':
            continue
        for m in abstract(node, S):
            lines.append(sx.enc([m[0], m[1]]))
            owner.append(j)
    mismatches = []
    this_failures = []
    if model_exe:
        tout = fw.run_sharded([model_exe], [sx.enc(m) for t, e, m in this_docs])
    for k, (t, e, m) in enumerate(this_docs):
        r = this_res[k]
        if r is None or r[0] != b'OK':
            this_failures.append((k, 'panic', 'check() on a THIS. document: %s' % (r and sx.pretty(r[:2]))))
            continue
        got = names_of(r[1])
        if got != e:
            this_failures.append((k, 'this-convention', 'THIS. references: reported %s, missing according to "component of every containing '
                                  'structure": %s' % (dict(got), dict(e))))
        if model_exe:
            mm = sx.pretty(sx.dec(tout[k])) if tout[k] and not tout[k].startswith('DIED') else None
            if not mm or mm[0] != 'OK' or collections.Counter(mm[1]) != got:
                mismatches.append((('this', k), dict(collections.Counter(mm[1]) - got) if mm else None, dict(got - collections.Counter(mm[1])) if mm else None))
    if model_exe:
        out = fw.run_sharded([model_exe], lines)
        per_doc = {}
        for j, line in zip(owner, out):
            m = sx.pretty(sx.dec(line)) if line and not line.startswith('DIED') else None
            c = per_doc.setdefault(j, collections.Counter())
            if m and m[0] == 'OK':
                c.update(m[1])
            else:
                c['<model failed>'] += 1
        for j, c in per_doc.items():
            got = names_of(res[j][1])
            if got != c:
                mismatches.append((j, dict(c - got), dict(got - c)))
    table = P.probe_check(rng.randrange(1 << 30), per=2 if tier == 'quick' else 8)
    table_bad = []
    for sid, h, f, p in P.instances():
        k = P.inst_key(sid, p)
        e = R.site_flags(S, h, f, p)
        row = table.get(k)
        if not row or not row['n']:
            continue
        want_reports = e.get('check_reports', 1 if e['check'] else 0)
        ok = (row['detected'] == row['n'] and row['reports'] == want_reports * row['n']) if e['check'] else row['detected'] == 0
        if not ok or row['panic']:
            table_bad.append({'instance': k, 'table_says_checked': e['check'], 'reports_per_reference': want_reports,
                              'observed': {x: row[x] for x in ('n', 'detected', 'reports', 'panic')},
                              'text': row['cases'][0][0], 'bogus': row['cases'][0][1]})

    # ---- stage W
    failures = []
    for j, (cls, node, text) in enumerate(documents):
        r = res[j]
        if r is None:
            failures.append((j, 'died', 'the process died in check()'))
        elif r[0] == b'PANIC':
            failures.append((j, 'panic', 'panic in %s' % sx.pretty(r[1])))
        elif r[0] == b'OK':
            if not r[2]:
                failures.append((j, 'modified', 'check() modified the model'))
            x = R.xref_errors(r[1])
            if cls == 'consistent' and x:
                failures.append((j, 'false-positive', 'consistent document, reported: %s' % (x[:3],)))
    for k, cls, why in this_failures:
        failures.append((('this', k), cls, why))
    for (name, text), r in zip(ODD.items(), odd):
        if r is None or r[0] == b'PANIC':
            failures.append((('odd', name), 'panic', 'panic on structurally odd document %s' % name))
        elif r[0] == b'OK' and not r[2]:
            failures.append((('odd', name), 'modified', 'check() modified the model (%s)' % name))
    for rec in table_bad:
        if rec['table_says_checked'] and rec['observed']['detected'] < rec['observed']['n']:
            failures.append((('probe', rec['instance']), 'missed', 'corrupted covered reference at %s not reported' % rec['instance']))

    classes = collections.Counter(c.split(':')[0] for c, nd, t in documents)
    v.coverage.update({
        'evaluations': len(documents) + len(ODD) + sum(r['n'] for r in table.values()),
        'distinct_nontrivial': len(set(c for c, nd, t in documents if c.startswith('corrupt1'))) + classes['consistent'],
        'rule': ('grammar-generated consistent documents (1-3 modules, every reference site populated over the run), each with one '
                 'reference redirected to an undefined name, arbitrary generated documents with unresolved references, %d '
                 'hand-written structurally odd documents, and 60 site-instance probes; non-trivial = consistent documents + '
                 'distinct corrupted site instances' % len(ODD)),
        'documents_by_class': dict(classes), 'odd_documents': sorted(ODD),
        'model_cases': len(lines) + len(this_docs), 'this_convention_documents': len(this_docs), 'correspondence_mismatches': len(mismatches),
        'traces_validated_against_impl': len(set(owner)) - len(mismatches) if model_exe else 0,
        'site_instances_probed': len([k for k in table if table[k]['n']]), 'table_mismatches': len(table_bad),
        'oracle_failures': len(failures),
        'implementation_answers': dict(collections.Counter((r[0].decode() if r else 'DIED') for r in res)),
        'translator': t_info,
        'samples': [documents[0][2][:500], documents[n][2][:500] if len(documents) > n else ''],
        'trusted_base': ['Coq kernel; extraction (ExtrOcamlBasic, ExtrOcamlString) and OCaml for the model run',
                         'checks/reflib.py: abstraction of a document into definitions and reference slots (incl. whether the THIS. rule '
                         'of an indirectly used TYPEDEF_CHARACTERISTIC resolves a reference) - shared by model input and generator',
                         'ref/sites.json classification (completeness checked against the grammar; check flags observed per site instance)',
                         'harness CHECK handler: catch_unwind around check(), model compared before/after with PartialEq and written text'],
    })
    v.assumptions = ['"covered" references = the sites check() looks at (46 of 60 site instances; the other 14 are listed in '
                     'Props/C11.v and are outside the completeness claim of the property)']

    reported, seen = 0, set()
    for j, cls, why in failures:
        if cls in known:
            v.known(cls, known[cls])
            continue
        if cls in seen or reported >= 3:
            continue
        seen.add(cls)
        if isinstance(j, tuple) and j[0] == 'odd':
            text = ODD[j[1]]
        elif isinstance(j, tuple) and j[0] == 'this':
            text = this_docs[j[1]][0]
        elif isinstance(j, tuple):
            rec = [r for r in table_bad if r['instance'] == j[1]][0]
            text = rec['text']
        else:
            text = documents[j][2]
        v.violation('input', {'kind': 'CHECK', 'text': text, 'why': why, 'class': cls, 'stage': 'W (oracle on the implementation)'})
        reported += 1
    if reported == 0:
        if not t_info['ok']:
            v.violation('translate', {'stage': 'T', 'broken': t_info['what'], 'detail': t_info['detail']}, no_input=True)
        if not ok_p:
            v.violation('proof', {'stage': 'P', 'broken_obligation': p_info.get('failing'), 'problems': p_info.get('problems'),
                                  'forbidden_constructs': p_info.get('forbidden'), 'log_tail': p_info.get('log', '')}, no_input=True)
        if model_err:
            v.violation('model', {'stage': 'C', 'broken': 'model build', 'detail': model_err}, no_input=True)
        elif mismatches or table_bad:
            j = mismatches[0][0] if mismatches else None
            if isinstance(j, tuple):
                documents.append(('this', None, this_docs[j[1]][0]))
                j = len(documents) - 1
            # a mismatch is a property violation when the implementation reports a name the model resolves (false positive)
            # or misses one at a covered site; both are decided by the model, so the document is the failing input
            v.violation('correspondence', {
                'stage': 'C', 'broken': 'reference-check model / site table against check()',
                'kind': 'CHECK', 'text': documents[j][2] if j is not None else table_bad[0]['text'],
                'model_only': mismatches[0][1] if mismatches else None, 'implementation_only': mismatches[0][2] if mismatches else None,
                'documents_differing': len(mismatches),
                'classes_differing': sorted(set(documents[m[0]][0] for m in mismatches if not isinstance(m[0], tuple)))[:20],
                'table_mismatches': [{k: x[k] for k in ('instance', 'table_says_checked', 'reports_per_reference', 'observed')} for x in table_bad[:10]]},
                no_input=not mismatches and not table_bad)
    return v.finish('proof')


def replay(r):
    impl = fw.build_harness(release=False)
    if not r.get('text'):
        print('replay: no concrete input recorded; broken:', r.get('broken_obligation') or r.get('broken'))
        return 1
    res = R.run_cases('CHECK', [R.check_case(r['text'])], binary=impl)[0]
    print(r['text'][:4000])
    if res is None or res[0] != b'OK':
        print('check():', 'process died' if res is None else sx.pretty(res))
        return 1
    print('cross reference reports:', R.xref_errors(res[1]))
    print('model unchanged by check():', bool(res[2]))
    print('expected (recorded):', {k: r.get(k) for k in ('why', 'model_only', 'implementation_only')})
    return 1
