"""C17 text encodings: proof (Props/C17.v: for all ten encodings and every text, load-decoding the encoded bytes
gives the UTF-8 text; Latin-1 fallback; codec lemmas) + byte-exact correspondence of the detection-cascade model with
loader.rs decode_raw_bytes (cfg hook) + end-to-end oracle a2lfile::load(file) == load_from_string(text)."""
import framework as fw
import sx
from checks import docs

PROP = 'C17'
KIND = 'C17'
TARGETS = ['theories/Proofs/EncodingProofs.v', 'theories/Run/RunC17.v']
RULE = ('generated documents (non-ASCII, non-BMP strings and comments) x 10 encodings x padded to every length residue mod 4; '
        'long files with a non-BMP character at and around every power-of-two byte offset 1 KiB..64 KiB (128 KiB thorough) in each encoding; '
        'random byte strings (uniform, zero-heavy, BOM-prefixed, truncated encodings) for totality and the Latin-1 fallback; text that mixes valid UTF-8 sequences and Latin-1 bytes, also behind a UTF-8 byte order mark, and arbitrary bytes behind every byte order mark, each through load() of a file; '
        'non-trivial = non-UTF-8 encoding or invalid bytes; distinct = distinct byte string')
ASSUMPTIONS = ['texts contain no NUL character (hypothesis of C17_decode_encode, forced by the UTF-32 heuristic)',
               'std::fs file reading returns the bytes written']
ENCS = ['utf-8', 'utf-8-sig', 'utf-16-le', 'utf-16-be', 'utf-16-le-bom', 'utf-16-be-bom',
        'utf-32-le', 'utf-32-be', 'utf-32-le-bom', 'utf-32-be-bom']


def encode(text, enc):
    if enc.endswith('-bom'):
        return ('﻿' + text).encode(enc[:-4])
    return text.encode(enc)


def gen_cases(rng, tier):
    cases = []
    ndocs = 12 if tier == 'quick' else 300
    for i in range(ndocs):
        node, text, toks = docs.random_doc(rng, size='small' if tier == 'quick' else rng.choice(['small', 'medium']),
                                           strings=['plain', 'utf8', 'escapes'])
        extra = ' /* ä€\U0001F600 */'
        if i % 4 == 2:
            extra = ' /* ä\ufffd€ \U0010ffff\ud7ff\ue000 */'
            if '""' in text:
                text = text.replace('""', '"\ufffd\x85"', 1)
        if i % 2:
            # U+FEFF inside a string and inside a comment is an ordinary character (only a leading one is a byte order mark)
            extra = ' /* ä\ufeff€\U0001F600 */'
            if '""' in text:
                text = text.replace('""', '"z\ufeffz"', 1)
        for pad in range(4):
            t = text + extra + ' ' * pad
            for enc in ENCS:
                cases.append([encode(t, enc), t.encode('utf-8'), 1])
    # short texts: every length residue, first char ASCII
    for t in ['A', 'AB', 'Aé', 'AB\U0001F600', 'ASAP2_VERSION 1 71', 'A€€€', 'A\ufeffB', 'AB\ufeff', 'A\ufeff\ufeff "\ufeff"',
              # characters a decoder might use as a sentinel or treat specially: U+FFFD, U+FFFE/U+FFFF, the last scalar value,
              # the neighbours of the surrogate range, C1 controls, U+0080, U+07FF/U+0800 (UTF-8 length boundaries)
              'A\ufffd', 'Prüfstand \ufffd /* \ufffd */', 'A\ufffe\uffff', 'A\U0010ffff', 'A\ud7ff\ue000', 'A\x80\x9f', 'A\u07ff\u0800\uffff\U00010000']:
        for enc in ENCS:
            cases.append([encode(t, enc), t.encode('utf-8'), 1])
    # a text that itself starts with U+FEFF: exactly one leading U+FEFF of the decoded text is taken as the byte order mark
    for t in ['\ufeffAB', '\ufeff\ufeffA\ufeffB', '\ufeffASAP2_VERSION 1 71 /* \ufeff */']:
        for enc in ENCS:
            full = ('\ufeff' + t) if enc.endswith('-bom') or enc == 'utf-8-sig' else t
            cases.append([encode(t, enc), full[1:].encode('utf-8'), 1])
    # long files: a multi-byte / non-BMP character placed at and around every power-of-two byte offset that a block-wise
    # reader could use as a buffer size (a split surrogate pair or UTF-8 sequence must not change the result)
    base = 'ASAP2_VERSION 1 71 /begin PROJECT p "" /begin MODULE m "" /end MODULE /end PROJECT'
    bounds = [1024, 4096, 8192, 16384, 65536] if tier == 'quick' else [512, 1024, 2048, 4096, 8192, 16384, 32768, 65536, 131072]
    offs = [-2, -1, 0, 1] if tier == 'quick' else [-4, -3, -2, -1, 0, 1, 2, 3]
    for enc in ENCS:
        head = len(encode(base + ' /*', enc))
        unit = len(encode('xx', enc)) - len(encode('x', enc))
        for bnd in bounds:
            for off in offs:
                want = bnd + off - head
                if want < 0:
                    continue
                n = want // unit
                t = base + ' /*' + 'x' * n + '\U0001F600\u20ac\U0001F600' + 'y' * 7 + '*/'
                cases.append([encode(t, enc), t.encode('utf-8'), 1])
    # totality / fallback: arbitrary bytes
    nrand = 1500 if tier == 'quick' else 100000
    for i in range(nrand):
        n = rng.choice([0, 1, 2, 3, 4, 5, 6, 7, 8, 12, 16, 33])
        mode = rng.randrange(5)
        if mode == 0:
            b = bytes(rng.randrange(256) for _ in range(n))
        elif mode == 1:
            b = bytes(rng.choice([0, 0, 65, 0xff, 0xfe, 0xd8, 0xdc, 0x80]) for _ in range(n))
        elif mode == 2:
            b = rng.choice([b'\xff\xfe', b'\xfe\xff', b'\xef\xbb\xbf', b'\x00\x00\xfe\xff', b'\xff\xfe\x00\x00']) + \
                bytes(rng.randrange(256) for _ in range(n))
        elif mode == 3:
            t = ''.join(rng.choice('Aaé€\U0001F600\n') for _ in range(max(1, n // 2)))
            b = encode('X' + t, rng.choice(ENCS))
            b = b[:rng.randrange(len(b) + 1)]
        else:
            b = ('A' + ''.join(chr(rng.choice([0xe4, 0xff, 0x80, 0x41])) for _ in range(n))).encode('latin-1')
        cases.append([b, b'', 0])
    # text that is not valid UTF-8 as a whole but contains well-formed multi-byte sequences (before and behind the
    # offending bytes): the fallback has to treat the whole file alike
    pieces = [b'A', b'MotorOel ', '\u00d6l'.encode('utf-8'), '\u20ac'.encode('utf-8'), '\U0001F600'.encode('utf-8'), b'\xf6\xdf', b'\xe4',
              b'\x80', b'\xc3', b'\xe2\x82', b'\xff', b' "', b'" ', b'\n']
    for i in range(400 if tier == 'quick' else 20000):
        b = b'A' + b''.join(rng.choice(pieces) for _ in range(rng.randrange(2, 9)))
        try:
            b.decode('utf-8')
            cases.append([b, b, 2])                                        # valid UTF-8 after all: stays as it is
        except UnicodeDecodeError:
            cases.append([b, b.decode('latin-1').encode('utf-8'), 2])      # every byte is one Latin-1 character
    # the same behind a byte order mark: a UTF-8 BOM in front of valid UTF-8 is removed; in front of text that is not valid
    # UTF-8 its three bytes are three Latin-1 characters like all others.  Through load() as well (flag 2).
    for i in range(300 if tier == 'quick' else 10000):
        body = b'A' + b''.join(rng.choice(pieces) for _ in range(rng.randrange(1, 9)))
        b = b'\xef\xbb\xbf' + body
        try:
            body.decode('utf-8')
            cases.append([b, body, 2])
        except UnicodeDecodeError:
            cases.append([b, b.decode('latin-1').encode('utf-8'), 2])
    # arbitrary bytes behind every byte order mark, through load(): no expectation about the text, only totality (flag 3)
    for i in range(300 if tier == 'quick' else 10000):
        b = rng.choice([b'\xff\xfe', b'\xfe\xff', b'\xef\xbb\xbf', b'\x00\x00\xfe\xff', b'\xff\xfe\x00\x00', b'']) + \
            bytes(rng.choice([0x41, 0x20, 0xe4, 0xff, 0x80, 0xc3, 0xa4, 0x00, 0xd8, 0xdc, rng.randrange(256)]) for _ in range(rng.randrange(0, 12)))
        cases.append([b, b'', 3])
    return cases


def canon(case, line):
    if line is None or line.startswith('DIED'):
        return line
    r = sx.dec(line)
    return r[:2] if isinstance(r, list) else r


def oracle(case, impl_line):
    if impl_line.startswith('DIED'):
        return 'implementation died: ' + impl_line
    r = sx.dec(impl_line)
    if r == [b'PANIC']:
        return 'panic while decoding / loading %d bytes' % len(case[0])
    if case[2] in (1, 2):
        if r[1] != case[1]:
            return 'decoded text differs from the original text (first bytes %r)' % case[0][:12]
        if case[2] == 1 and r[2] != 1:
            return 'load(file) and load_from_string(text) disagree: %s' % r[3].decode('utf-8', 'replace')
    return None


def nontrivial_key(case, impl_line):
    b = bytes(case[0])
    try:
        b.decode('ascii')
        return None
    except UnicodeDecodeError:
        return hash(b)


def shrink(case, still_fails):
    b, t, f = case
    if f:
        return case
    b = bytes(b)
    changed = True
    while changed and len(b) > 1:
        changed = False
        for i in range(len(b)):
            cand = b[:i] + b[i + 1:]
            if still_fails([cand, t, f]):
                b = cand
                changed = True
                break
    return [b, t, f]
