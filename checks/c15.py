"""C15 sort_new_items(): proof (Props/C15.v: placed prefix keeps order and uids double, new elements get the uid
directly behind the last placed element of their kind, k calls scale uids by 2^k, 32 calls must overflow) +
correspondence of the Sort model with A2lFile::sort_new_items on API-built modules (debug and release build) +
placement oracle on the written text."""
import framework as fw
import sx
from checks import modlib as ml

PROP = 'C15'
KIND = 'C15'
TARGETS = ['theories/Proofs/SortProofs.v', 'theories/Run/RunC15.v']
ALSO_RELEASE = False   # release-mode wrap-around is exercised through the model's debug=false flag in thorough tier
RULE = ('modules built through the public API with loaded-like unique uids (optionally scaled close to 2^32), histories over '
        '{push new element of kind K (uid 0, line 0 or merged-like line>0), sort_new_items, sort}; up to 64 consecutive '
        'sort_new_items calls; non-trivial = history contains a sort_new_items call with at least one new and one placed element; '
        'distinct = distinct final observation')
TRUSTED_BASE = ['comments (crate-private) cannot be created through the API and are empty in these cases; their uid doubling is covered by the model only']
ASSUMPTIONS = ['placed uids are unique when the file was loaded (sequential ids of the parser)']


def gen_history(rng, state, length, p_sni=0.3):
    ops = []
    counter = [0]
    for _ in range(length):
        r = rng.random()
        if r < p_sni:
            ops.append(['sni'])
        elif r < p_sni + 0.03:
            ops.append(['sort'])
        else:
            k = rng.randrange(20)
            counter[0] += 1
            name = 'n%03d_%s' % (counter[0], rng.choice('abcxyz'))
            line = 0 if rng.random() < 0.7 else rng.randrange(1, 500)
            ops.append(['push', k, ml.el(ml.TAGS[k], name, 0, line, 2, 1)])
    return ops


def gen_cases(rng, tier):
    cases = []
    n = 150 if tier == 'quick' else 15000
    # corpus: the overflow history (known finding) and small regression shapes
    st = ml.gen_module(rng, 6)
    cases.append([1, st, [['sni']] * 40])
    for i in range(n):
        size = rng.choice([0, 1, 3, 8, 20, 40])
        scale = rng.choice([1, 1, 1, 1, 1000, 1 << 20, 1 << 26])
        st = ml.gen_module(rng, size, uid_scale=scale, with_new=rng.choice([0, 0, 0.2]),
                           kinds=rng.choice([None, None, [11], [2, 11], [0, 2, 10, 11, 19]]))
        cases.append([1, st, gen_history(rng, st, rng.choice([2, 5, 12, 30]))])
    for i in range(n // 10):
        st = ml.gen_module(rng, rng.choice([2, 10, 30]))
        k = rng.randrange(1, 65)
        ops = []
        for j in range(k):
            if rng.random() < 0.3:
                kk = rng.randrange(20)
                ops.append(['push', kk, ml.el(ml.TAGS[kk], 'p%d' % j, 0, 0, 2, 1)])
            ops.append(['sni'])
        cases.append([1, st, ops])
    return cases


def overflow_predicted(state):
    uids = [u for (_, _, u) in ml.all_elements(state)]
    return any(2 * u + 1 >= ml.U32 for u in uids)


def oracle_detail(case, impl_line):
    """returns (why, known_key) or (None, None)"""
    out = ml.decode_out(impl_line)
    if out is None:
        return 'implementation process died: ' + impl_line, None
    ops = case[2]
    for i, op in enumerate(ops):
        if i + 1 >= len(out):
            return 'missing observation for step %d' % i, None
        prev, cur = out[i], out[i + 1]
        if prev == ['PANIC']:
            return None, None
        if op[0] != 'sni':
            if cur == ['PANIC']:
                return 'panic in %s at step %d' % (op[0], i), None
            if op[0] == 'push':
                # adding an element must not disturb the output order of the elements that are already placed either
                els0 = ml.all_elements(prev[0])
                placed0 = {(t, n) for (t, n, u) in els0 if u != 0}
                a = [tuple(x) for x in prev[1] if tuple(x) in placed0]
                b = [tuple(x) for x in cur[1] if tuple(x) in placed0]
                if a != b:
                    return 'step %d (push): relative order of already placed elements changed: %s -> %s' % (i, a[:12], b[:12]), None
            continue
        pstate, porder = prev[0], prev[1]
        of = overflow_predicted(pstate)
        if cur == ['PANIC']:
            if of:
                return 'sort_new_items panics: uid doubling overflows u32 at step %d' % i, 'uid-doubling-overflow'
            return 'sort_new_items panics at step %d although 2*max_uid+1 < 2^32' % i, None
        cstate, corder = cur[0], cur[1]
        els = ml.all_elements(pstate)
        placed = {(t, n) for (t, n, u) in els if u != 0}
        isnew = {(t, n) for (t, n, u) in els if u == 0}
        p_prev = [tuple(x) for x in porder if tuple(x) in placed]
        p_cur = [tuple(x) for x in corder if tuple(x) in placed]
        if p_prev != p_cur:
            key = 'uid-doubling-overflow' if of else None
            return 'step %d: relative order of already placed elements changed: %s -> %s' % (i, p_prev[:12], p_cur[:12]), key
        # new elements of the 20 named kinds
        cur_list = [tuple(x) for x in corder]
        for (t, n) in isnew:
            if t not in ml.TAGS:
                continue
            same_kind_placed = [x for x in p_prev if x[0] == t]
            if (t, n) not in cur_list:
                return 'step %d: new element %s %s missing from the output' % (i, t, n), None
            pos = cur_list.index((t, n))
            j = pos - 1
            while j >= 0 and cur_list[j] in isnew:
                j -= 1
            before = cur_list[j] if j >= 0 else None
            if same_kind_placed:
                want = same_kind_placed[-1]
            else:
                want = p_prev[-1] if p_prev else None
            if before != want:
                key = 'uid-doubling-overflow' if of else None
                return ('step %d: new %s %s is placed after %s, expected directly after %s' % (i, t, n, before, want)), key
    return None, None


def oracle(case, impl_line):
    why, key = oracle_detail(case, impl_line)
    return why


def canon(case, line):
    """the harness appends reload flags to the observation of a sort step (used by C14); the model has none"""
    out = ml.decode_out(line)
    if out is None:
        return line
    return [o[:2] if isinstance(o, list) and len(o) >= 2 else o for o in out]


def classify_known(case, why):
    return 'uid-doubling-overflow' if 'overflow' in why else None


def nontrivial_key(case, impl_line):
    ops = case[2]
    has_new = any(o[0] == 'push' for o in ops) or any(e[3] == 0 for l in case[1][7] for e in l)
    if not (any(o[0] == 'sni' for o in ops) and has_new):
        return None
    return hash(impl_line)


def shrink(case, still_fails):
    dbg, st, ops = case
    ops = list(ops)
    changed = True
    while changed and len(ops) > 1:
        changed = False
        for i in range(len(ops)):
            cand = ops[:i] + ops[i + 1:]
            if still_fails([dbg, st, cand]):
                ops = cand
                changed = True
                break
    return [dbg, st, ops]


# ---------------------------------------------------------------------------------------------------------------------
# elements that a merge brings in are new elements: merge_modules + sort_new_items on real documents (harness kind MERGESNI)
def module_sequence(text):
    """[(kind, name)] of the elements directly inside the first MODULE, in the order of the text"""
    from checks import loadlib
    toks = loadlib.scan_tokens(text)
    if toks is None:
        return None
    out, depth, i, in_mod = [], 0, 0, False
    while i < len(toks):
        t = toks[i]
        if t[0] == 'begin':
            tag = toks[i + 1][1] if i + 1 < len(toks) else ''
            if depth == 1 and tag == 'MODULE':
                if in_mod:
                    break
                in_mod = True
            elif depth == 2 and in_mod:
                nm = toks[i + 2][1] if i + 2 < len(toks) and toks[i + 2][0] in ('ident', 'string') else ''
                out.append((tag, nm))
            depth += 1
            i += 2
            continue
        if t[0] == 'end':
            depth -= 1
            if depth == 1 and in_mod:
                break
            i += 2
            continue
        i += 1
    return out


NAMED = set(ml.TAGS)


def placement(seq_a, seq_out):
    """None if every element that is not in A stands directly behind the last element of its kind that was in A (together with
    the other new elements of that kind), or at the end if A has none of that kind"""
    in_a = set(seq_a)
    kinds_a = {k for k, n in seq_a}
    last_a = {}
    for pos, e in enumerate(seq_out):
        if e in in_a:
            last_a[e[0]] = pos
    old_out = [e for e in seq_out if e in in_a]
    if old_out != [e for e in seq_a if e in set(seq_out)]:
        return 'the elements that were in A are written in another order than before'
    end_started = False
    for pos, e in enumerate(seq_out):
        if e in in_a or e[0] not in NAMED:
            if end_started and e in in_a:
                return 'element %s %s of A is written behind new elements that have no placed element of their kind' % e
            continue
        k = e[0]
        if k in last_a:
            # everything between the last A element of the kind and this one must be a new element of the same kind
            between = seq_out[last_a[k] + 1:pos]
            if any(x[0] != k or x in in_a for x in between):
                return 'new %s %s is not written directly behind the last placed %s (between them: %s)' % (k, e[1], k, between[:3])
        else:
            end_started = True
    return None


def extra_stage(v, tier, rng, impl):
    from checks import reflib as R
    sites = R.load_sites()
    n = 40 if tier == 'quick' else 2000
    pairs = []
    for j in range(n):
        ov = ['disjoint', 'disjoint', 'conflict', 'identical'][j % 4]
        ta, tb, info = R.gen_merge_pair(rng, sites, ov, size=rng.choice(['small', 'small', 'medium']))
        pairs.append((ov, ta, tb, rng.choice([0, 0, 1, 3])))
    out = fw.run_isolating([impl, 'MERGESNI'], [sx.enc([ta, tb, k]) for ov, ta, tb, k in pairs], single_timeout=60)
    found, n_ok, n_new = [], 0, 0
    for (ov, ta, tb, k), line in zip(pairs, out):
        why = None
        if line is None or line.startswith('DIED'):
            why = 'implementation died'
        else:
            a = sx.dec(line)
            st = a[0].decode()
            if st == 'ERR':
                continue
            if st == 'PANIC':
                why = 'panic in ' + a[1].decode()
            else:
                sa, s1, s2 = module_sequence(ta), module_sequence(a[1].decode('utf-8', 'replace')), module_sequence(a[2].decode('utf-8', 'replace'))
                if sa is None or s1 is None or s2 is None:
                    continue
                n_new += sum(1 for e in s1 if e not in set(sa) and e[0] in NAMED)
                why = placement(sa, s1)
                if why is None and s2 != s1:
                    why = '%d further sort_new_items() call(s) change the output order of placed elements' % k
        if why is None:
            n_ok += 1
        elif len(found) < 3:
            found.append({'payload': {'kind': 'MERGESNI', 'textA': ta, 'textB': tb, 'extra_calls': k, 'overlap': ov, 'why': why,
                                      'stage': 'W (merge_modules, sort_new_items, write on documents)'}})
    v.coverage['merge_then_sort_new_items_pairs'] = len(pairs)
    v.coverage['merge_then_sort_new_items_ok'] = n_ok
    v.coverage['merged_elements_placed'] = n_new
    return found


def replay(r):
    if r.get('kind') != 'MERGESNI':
        return None
    impl = fw.build_harness()
    line = fw.run_single([impl, 'MERGESNI'], sx.enc([r['textA'], r['textB'], r.get('extra_calls', 0)]))
    a = sx.dec(line) if line and not line.startswith('DIED') else None
    if a is None or a[0] != b'OK':
        print('implementation:', line[:300] if line else None)
        return 1
    sa, s1, s2 = module_sequence(r['textA']), module_sequence(a[1].decode('utf-8', 'replace')), module_sequence(a[2].decode('utf-8', 'replace'))
    print('A:      ', sa)
    print('written:', s1)
    why = placement(sa, s1) or (None if s1 == s2 else 'further sort_new_items() calls change the order')
    print('oracle:', why or 'every merged element stands behind the last placed element of its kind')
    return 1 if why else 0
