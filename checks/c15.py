"""C15 sort_new_items(): proof (Props/C15.v: placed prefix keeps order and uids double, new elements get the uid
directly behind the last placed element of their kind, k calls scale uids by 2^k, 32 calls must overflow) +
correspondence of the Sort model with A2lFile::sort_new_items on API-built modules (debug and release build) +
placement oracle on the written text."""
import framework as fw
import sx
from checks import modlib as ml

PROP = 'C15'
KIND = 'C15'
TARGETS = ['theories/Proofs/SortProofs.v', 'theories/Run/RunC15.v']
ALSO_RELEASE = False   # release-mode wrap-around is exercised through the model's debug=false flag in thorough tier
RULE = ('modules built through the public API with loaded-like unique uids (optionally scaled close to 2^32), histories over '
        '{push new element of kind K (uid 0, line 0 or merged-like line>0), sort_new_items, sort}; up to 64 consecutive '
        'sort_new_items calls; non-trivial = history contains a sort_new_items call with at least one new and one placed element; '
        'distinct = distinct final observation')
TRUSTED_BASE = ['comments (crate-private) cannot be created through the API and are empty in these cases; their uid doubling is covered by the model only']
ASSUMPTIONS = ['placed uids are unique when the file was loaded (sequential ids of the parser)']


def gen_history(rng, state, length, p_sni=0.3):
    ops = []
    counter = [0]
    for _ in range(length):
        r = rng.random()
        if r < p_sni:
            ops.append(['sni'])
        elif r < p_sni + 0.03:
            ops.append(['sort'])
        else:
            k = rng.randrange(20)
            counter[0] += 1
            name = 'n%03d_%s' % (counter[0], rng.choice('abcxyz'))
            line = 0 if rng.random() < 0.7 else rng.randrange(1, 500)
            ops.append(['push', k, ml.el(ml.TAGS[k], name, 0, line, 2, 1)])
    return ops


def gen_cases(rng, tier):
    cases = []
    n = 150 if tier == 'quick' else 15000
    # corpus: the overflow history (known finding) and small regression shapes
    st = ml.gen_module(rng, 6)
    cases.append([1, st, [['sni']] * 40])
    for i in range(n):
        size = rng.choice([0, 1, 3, 8, 20, 40])
        scale = rng.choice([1, 1, 1, 1, 1000, 1 << 20, 1 << 26])
        st = ml.gen_module(rng, size, uid_scale=scale, with_new=rng.choice([0, 0, 0.2]),
                           kinds=rng.choice([None, None, [11], [2, 11], [0, 2, 10, 11, 19]]))
        cases.append([1, st, gen_history(rng, st, rng.choice([2, 5, 12, 30]))])
    for i in range(n // 10):
        st = ml.gen_module(rng, rng.choice([2, 10, 30]))
        k = rng.randrange(1, 65)
        ops = []
        for j in range(k):
            if rng.random() < 0.3:
                kk = rng.randrange(20)
                ops.append(['push', kk, ml.el(ml.TAGS[kk], 'p%d' % j, 0, 0, 2, 1)])
            ops.append(['sni'])
        cases.append([1, st, ops])
    return cases


def overflow_predicted(state):
    uids = [u for (_, _, u) in ml.all_elements(state)]
    return any(2 * u + 1 >= ml.U32 for u in uids)


def oracle_detail(case, impl_line):
    """returns (why, known_key) or (None, None)"""
    out = ml.decode_out(impl_line)
    if out is None:
        return 'implementation process died: ' + impl_line, None
    ops = case[2]
    for i, op in enumerate(ops):
        if i + 1 >= len(out):
            return 'missing observation for step %d' % i, None
        prev, cur = out[i], out[i + 1]
        if prev == ['PANIC']:
            return None, None
        if op[0] != 'sni':
            if cur == ['PANIC']:
                return 'panic in %s at step %d' % (op[0], i), None
            if op[0] == 'push':
                # adding an element must not disturb the output order of the elements that are already placed either
                els0 = ml.all_elements(prev[0])
                placed0 = {(t, n) for (t, n, u) in els0 if u != 0}
                a = [tuple(x) for x in prev[1] if tuple(x) in placed0]
                b = [tuple(x) for x in cur[1] if tuple(x) in placed0]
                if a != b:
                    return 'step %d (push): relative order of already placed elements changed: %s -> %s' % (i, a[:12], b[:12]), None
            continue
        pstate, porder = prev[0], prev[1]
        of = overflow_predicted(pstate)
        if cur == ['PANIC']:
            if of:
                return 'sort_new_items panics: uid doubling overflows u32 at step %d' % i, 'uid-doubling-overflow'
            return 'sort_new_items panics at step %d although 2*max_uid+1 < 2^32' % i, None
        cstate, corder = cur[0], cur[1]
        els = ml.all_elements(pstate)
        placed = {(t, n) for (t, n, u) in els if u != 0}
        isnew = {(t, n) for (t, n, u) in els if u == 0}
        p_prev = [tuple(x) for x in porder if tuple(x) in placed]
        p_cur = [tuple(x) for x in corder if tuple(x) in placed]
        if p_prev != p_cur:
            key = 'uid-doubling-overflow' if of else None
            return 'step %d: relative order of already placed elements changed: %s -> %s' % (i, p_prev[:12], p_cur[:12]), key
        # new elements of the 20 named kinds
        cur_list = [tuple(x) for x in corder]
        for (t, n) in isnew:
            if t not in ml.TAGS:
                continue
            same_kind_placed = [x for x in p_prev if x[0] == t]
            if (t, n) not in cur_list:
                return 'step %d: new element %s %s missing from the output' % (i, t, n), None
            pos = cur_list.index((t, n))
            j = pos - 1
            while j >= 0 and cur_list[j] in isnew:
                j -= 1
            before = cur_list[j] if j >= 0 else None
            if same_kind_placed:
                want = same_kind_placed[-1]
            else:
                want = p_prev[-1] if p_prev else None
            if before != want:
                key = 'uid-doubling-overflow' if of else None
                return ('step %d: new %s %s is placed after %s, expected directly after %s' % (i, t, n, before, want)), key
    return None, None


def oracle(case, impl_line):
    why, key = oracle_detail(case, impl_line)
    return why


def canon(case, line):
    """the harness appends reload flags to the observation of a sort step (used by C14); the model has none"""
    out = ml.decode_out(line)
    if out is None:
        return line
    return [o[:2] if isinstance(o, list) and len(o) >= 2 else o for o in out]


def classify_known(case, why):
    return 'uid-doubling-overflow' if 'overflow' in why else None


def nontrivial_key(case, impl_line):
    ops = case[2]
    has_new = any(o[0] == 'push' for o in ops) or any(e[3] == 0 for l in case[1][7] for e in l)
    if not (any(o[0] == 'sni' for o in ops) and has_new):
        return None
    return hash(impl_line)


def shrink(case, still_fails):
    dbg, st, ops = case
    ops = list(ops)
    changed = True
    while changed and len(ops) > 1:
        changed = False
        for i in range(len(ops)):
            cand = ops[:i] + ops[i + 1:]
            if still_fails([dbg, st, cand]):
                ops = cand
                changed = True
                break
    return [dbg, st, ops]
