"""C20 shipped generated code = fresh expansion: proof (Props/C20.v: closed obligations - the grammar recovered from the
shipped code equals the grammar the in-tree DSL parser reads from the in-tree specification; every shipped stringify /
PartialEq is the template instance) + translator 'fully accounted for' rule + differential of TWO builds of the crate
(shipped specification.rs vs the macro invocation compiled with the in-tree a2lmacros) on the C01/C03/C04/C06 corpora."""
import time
import framework as fw
import sx
from checks import docs, loadlib, loadcheck, c06

PROP = 'C20'
TARGETS = ['theories/Proofs/GrammarObligations.v', 'theories/Run/RunLoad.v']
RULE = ('valid documents (all element kinds, six versions, all layouts, IF_DATA / A2ML), documents with injected faults of 14 classes, '
        'token-level mutations; each in strict and non-strict mode; complete transcripts (model dump, diagnostics, written text, reload) '
        'of the two builds compared byte for byte; non-trivial = document with diagnostics or > 300 bytes; distinct = distinct text')
ASSUMPTIONS = ['rustc expands the in-tree proc macro as the generator functions specify (observed through the compiled fresh build)']


def check(tier, seed):
    v = fw.Verdict(PROP, tier, seed)
    rng = fw.rng_for(seed, PROP)
    t_info = loadcheck.stage_t(v)
    ok_p, p_info = fw.proof_stage(v, PROP, TARGETS)
    model_exe, model_err = None, None
    try:
        ok_m, log_m = fw.coq_make(['theories/Run/RunLoad.v'])
        if not ok_m:
            raise fw.CheckFailure('model does not compile:\n' + log_m[-2000:])
        model_exe = fw.build_model('LOAD')
    except fw.CheckFailure as e:
        model_err = str(e)
    impl = fw.build_harness()
    fresh_err = None
    try:
        fresh = fw.build_fresh_harness()
    except fw.CheckFailure as e:
        fresh, fresh_err = None, str(e)
    texts = []
    n = 150 if tier == 'quick' else 5000
    for i in range(n):
        node, text, toks = docs.random_doc(rng, size=rng.choice(['tiny', 'small', 'small', 'medium']),
                                           ifdata=rng.choice([None, 'unknown', 'empty']), a2ml='simple' if rng.random() < 0.15 else None)
        texts.append(('valid', text))
    texts += c06.gen_texts(rng, tier)
    # code that the translator could not account for: search around the element types it names
    import docgen
    import random as _random
    sp = docs.spec()
    for tname in sorted(set(f.get('type') for f in docs.TRANSLATION_FAILURES if f.get('type'))):
        for j in range(40 if tier == 'quick' else 400):
            try:
                opts = docgen.GenOptions(version=rng.choice(docs.VERSIONS[-2:]), focus=tname, all_optionals=True, max_depth=4, p_optional=0.2)
                node = docgen.gen_tree(sp, _random.Random(rng.randrange(1 << 30)), opts)
            except Exception:
                continue
            targets = [n for n, _p in node.walk() if n.type == tname]
            for n in targets[:2]:
                slots = docgen._safe_keyword_slots(sp, n)
                blocks = list(range(len(n.kids) + 1))
                for slot, is_block in [(s_, False) for s_ in slots] + [(rng.choice(blocks), True)]:
                    new = docgen.Node(None, 'UNKNOWN_%s' % ('BLOCK' if is_block else 'KW'), is_block,
                                      payload=[docgen.Val('int', 1, '1'), docgen.Val('int', 2, '2')])
                    n.kids.insert(slot, new)
                    text, _ = docgen.render(node, _random.Random(1), docgen.Layout(mode='canonical'), sp)
                    n.kids.pop(slot)
                    texts.append(('targeted:' + tname, text))
    tuples = []
    for kind, t in texts:
        tuples.append((t, True, None, 1))
        tuples.append((t, False, None, 1))
    t1 = time.time()
    res, lines = loadlib.run_impl(tuples, impl)
    diffs = []
    if fresh:
        out_fresh = fw.run_sharded([fresh, 'LOAD'], lines)
        for i, (a, b) in enumerate(zip(res, out_fresh)):
            if a.raw != b:
                diffs.append(i)
    # documents that live in several files (include directives): the two builds through a2lfile::load + write
    inc_diffs, n_inc = [], 0
    if fresh:
        from checks import inclib, c16
        icases = inclib.gen_split_cases(rng, 40 if tier == 'quick' else 600)
        ilines = [sx.enc(list(c16.loadinc_line(c))) for c in icases]
        n_inc = len(ilines)
        out_a = fw.run_isolating([impl, 'LOADINC'], ilines, single_timeout=60)
        out_b = fw.run_isolating([fresh, 'LOADINC'], ilines, single_timeout=60)
        inclib.cleanup_tmp()

        def _canon(line):
            if line is None or line.startswith('DIED'):
                return line
            a = sx.dec(line)
            d = a[-1] if isinstance(a[-1], (bytes, bytearray)) else b''
            return c16.strip_dir(a, bytes(d))[:-1] if d else a
        for i, (x, y) in enumerate(zip(out_a, out_b)):
            cx, cy = _canon(x), _canon(y)
            if cx != cy:
                what = 'several files'
                if isinstance(cx, list) and isinstance(cy, list) and cx and cy and cx[0] == cy[0] == b'OK':
                    what = 'model' if cx[1] != cy[1] else 'diagnostics' if cx[2] != cy[2] else 'written text' if cx[3] != cy[3] else 'other'
                inc_diffs.append((i, what))
    # models built through the API (T::new() + push) and written: the constructors are generated code as well
    api_diffs, n_api = [], 0
    if fresh:
        from checks import modlib as ml
        acases = []
        for i in range(60 if tier == 'quick' else 1500):
            st = ml.gen_module(rng, rng.choice([0, 2, 6]), with_new=0)
            st[0] = []
            ops = []
            for j in range(rng.choice([1, 3, 12])):
                k = rng.randrange(20)
                ops.append(['push', k, ml.el(ml.TAGS[k], 'new_%03d_%s' % (j, rng.choice('abxyz')), 0, 0, 2, 1)])
            if rng.random() < 0.3:
                ops.append(['sni'])
            ops.append(['wt'])
            acases.append([1, st, ops])
        alines = [sx.enc(c_) for c_ in acases]
        n_api = len(alines)
        oa = fw.run_sharded([impl, 'C15'], alines)
        ob = fw.run_sharded([fresh, 'C15'], alines)
        for i, (x, y) in enumerate(zip(oa, ob)):
            if x != y:
                api_diffs.append(i)
    mism = []
    if model_exe:
        mout, _ = loadlib.run_model(tuples, res, model_exe)
        for i, (r, m) in enumerate(zip(res, mout)):
            d = loadlib.compare(r, m)
            if d is not None:
                mism.append((i, d))
    status = {}
    for r in res:
        status[r.status] = status.get(r.status, 0) + 1
    v.coverage.update({
        'evaluations': len(tuples), 'distinct_nontrivial': len({t[0] for t, r in zip(tuples, res) if len(t[0]) > 300 or r.status != 'OK' or r.diags}),
        'rule': RULE, 'samples': [tuples[0][0][:300]],
        'programs': 2, 'disagreements_checked': len(diffs),
        'traces_validated_against_impl': len(tuples) - len(mism) if model_exe else 0,
        'correspondence_mismatches': len(mism), 'fresh_vs_shipped_differences': len(diffs) + len(inc_diffs) + len(api_diffs),
        'multi_file_documents_compared': n_inc, 'api_built_models_compared': n_api,
        'correspondence_wall_s': round(time.time() - t1, 1), 'input_distribution': {'status': status},
        'trusted_base': ['the fresh build: copy of /repo with specification.rs := specification_orig.rs and a2lmacros taken from the in-tree path; rustc / cargo',
                         'translators, float oracle and extraction as in C01'],
    })
    v.assumptions = ASSUMPTIONS
    if diffs:
        i = diffs[0]
        a = res[i]
        b = loadlib.Loaded(out_fresh[i])
        what = 'status %s vs %s' % (a.status, b.status)
        if a.status == b.status == 'OK':
            if a.node != b.node:
                what = 'model: ' + loadlib.first_diff(a.node, b.node)
            elif a.diags != b.diags:
                what = 'diagnostics: %s vs %s' % (a.diag_list()[:3], b.diag_list()[:3])
            elif a.text1 != b.text1:
                what = 'written text differs'
            else:
                what = 'reload cycle differs'
        elif a.status == b.status == 'ERR':
            what = 'error %s vs %s' % (sx.pretty(a.err), sx.pretty(b.err))
        v.violation('input', {'kind': 'LOAD', 'case': lines[i], 'text': tuples[i][0], 'strict': tuples[i][1],
                              'why': 'the shipped code and the fresh expansion behave differently: ' + what,
                              'stage': 'W (differential of the two builds)'})
    elif api_diffs:
        i = api_diffs[0]
        v.violation('input', {'kind': 'C15', 'case': alines[i], 'case_readable': acases[i],
                              'why': 'the shipped code and the fresh expansion write a model built through the API (T::new() + push) differently',
                              'stage': 'W (differential of the two builds, API-built models)'})
    elif inc_diffs:
        i, what = inc_diffs[0]
        c = icases[i]
        v.violation('input', {'kind': 'INCL', 'files': {p_: (t_ if isinstance(t_, str) else (t_ or b'').decode('utf-8', 'replace')) for p_, t_ in c['files'].items()},
                              'main': c['main'], 'strict': c['strict'], 'label': c.get('label'),
                              'why': 'the shipped code and the fresh expansion behave differently on a document split into include files: ' + what,
                              'stage': 'W (differential of the two builds, a2lfile::load + write)'})
    else:
        if not t_info.get('ok', True):
            v.violation('translate', {'stage': 'T', 'broken': t_info.get('what'), 'detail': t_info.get('detail')}, no_input=True)
        if not ok_p:
            v.violation('proof', {'stage': 'P', 'broken_obligation': p_info.get('failing'), 'problems': p_info.get('problems'),
                                  'forbidden_constructs': p_info.get('forbidden'), 'log_tail': p_info.get('log', '')}, no_input=True)
        if fresh_err:
            v.violation('freshbuild', {'stage': 'C', 'broken': 'the fresh expansion (specification_orig.rs + in-tree a2lmacros) does not build against the harness', 'detail': fresh_err[-3000:]}, no_input=True)
        if model_err:
            v.violation('model', {'stage': 'C', 'broken': 'model build', 'detail': model_err}, no_input=True)
        elif mism:
            i, d = mism[0]
            v.violation('correspondence', {'stage': 'C', 'broken': 'correspondence of the template model with the shipped code (%d of %d differ)' % (len(mism), len(tuples)),
                                           'first_difference': d, 'kind': 'LOAD', 'case': lines[i], 'text': tuples[i][0]}, no_input=True)
    return v.finish('proof')


def replay(r):
    impl = fw.build_harness()
    fresh = fw.build_fresh_harness()
    if r.get('kind') == 'C15':
        a = fw.run_single([impl, 'C15'], r['case'], timeout=120)
        b = fw.run_single([fresh, 'C15'], r['case'], timeout=120)
        print('history:', str(r.get('case_readable'))[:1200])
        from checks import modlib as ml
        ta, tb = ml.decode_out(a), ml.decode_out(b)
        print('shipped build writes:\n', (ta[-1][-1] if ta and isinstance(ta[-1], list) else a)[:1500] if ta else a[:400])
        print('fresh build writes:\n', (tb[-1][-1] if tb and isinstance(tb[-1], list) else b)[:1500] if tb else b[:400])
        print('oracle:', 'the two builds differ' if a != b else 'identical')
        return 1 if a != b else 0
    if r.get('kind') == 'INCL':
        from checks import inclib, c16
        case = dict(files=r['files'], main=r['main'], strict=r['strict'])
        line = sx.enc(list(c16.loadinc_line(case)))
        outs = []
        for exe in (impl, fresh):
            o = fw.run_single([exe, 'LOADINC'], line, timeout=120)
            a = sx.dec(o) if o and not o.startswith('DIED') else o
            if isinstance(a, list) and isinstance(a[-1], (bytes, bytearray)):
                a = c16.strip_dir(a, bytes(a[-1]))[:-1]
            outs.append(a)
        inclib.cleanup_tmp()
        for p_, t_ in sorted(r['files'].items()):
            print('--- %s\n%s' % (p_, (t_ or '')[:800]))
        print('oracle:', 'the two builds differ' if outs[0] != outs[1] else 'identical')
        if outs[0] != outs[1] and isinstance(outs[0], list) and isinstance(outs[1], list) and len(outs[0]) > 3 and len(outs[1]) > 3:
            print('written by the shipped build:\n', bytes(outs[0][3]).decode('utf-8', 'replace')[:1500])
            print('written by the fresh build:\n', bytes(outs[1][3]).decode('utf-8', 'replace')[:1500])
        return 1 if outs[0] != outs[1] else 0
    a = fw.run_single([impl, 'LOAD'], r['case'], timeout=120)
    b = fw.run_single([fresh, 'LOAD'], r['case'], timeout=120)
    print('shipped:', a[:400])
    print('fresh:  ', b[:400])
    print('oracle:', 'transcripts differ' if a != b else 'identical transcripts')
    return 1 if a != b else 0
