"""C07 unknown elements: proof (Props/C07.v: skipping of block- and keyword-form unknown elements for every payload,
strict error) + correspondence of the parser model + oracle: load(T + unknown element, non-strict) gives exactly one
UnknownSubBlock warning and a model equal to load(T); strict loading fails with an error naming the element."""
import copy
import random
import framework as fw
import sx
import docgen
from checks import docs, loadlib, loadcheck

PROP = 'C07'
DIAG_LINES_ARE_PROPERTY = True
TARGETS = ['theories/Proofs/UnknownProofs.v', 'theories/Run/RunLoad.v']
RULE = ('valid documents x every insertion point inside blocks that admit optional sub-elements x unknown payloads: keyword with '
        'scalar arguments, /begin X .. /end X with nested unknown blocks (also of the same tag X), comments inside; the payload never reuses a tag of the '
        'enclosing block and a bare keyword is not placed behind an open identifier list; each injected document is loaded in both '
        'modes and compared with the base document; documents in several files with the unknown element (keyword and block form) as the last / first thing of an '
        'include file and directly in front of / behind the /include directive; non-trivial = every injected case; distinct = distinct text')
ASSUMPTIONS = ['the base document is valid (loads strictly without diagnostics)']


def payload(rng, block, depth=0, outer_tag=None):
    items = []
    for _ in range(rng.randrange(0, 4)):
        k = rng.randrange(5)
        if k == 0:
            items.append(docgen.Val('int', rng.randrange(0, 70000), str(rng.randrange(0, 70000))))
        elif k == 1:
            items.append(docgen.Val('string', 'pay load', '"pay load"'))
        elif k == 2:
            items.append(docgen.Val('float', 1.5, '1.5e3'))
        elif k == 3:
            items.append(docgen.Val('ident', 'uk_value_%d' % rng.randrange(10), 'uk_value_%d' % rng.randrange(10)))
        else:
            items.append(docgen.Val('ident', '/* c */', '/* in unknown */'))
    if block and depth < 2 and rng.random() < 0.6:
        # a nested block, sometimes with the very tag of the unknown block around it (balanced all the same)
        inner_tag = outer_tag if (outer_tag and rng.random() < 0.35) else 'UK_INNER_%d' % depth
        items.append(docgen.Node(None, inner_tag, True, payload=payload(rng, True, depth + 1, outer_tag)))
        if rng.random() < 0.4:
            items.append(docgen.Val('int', 7, '7'))
    return items


def gen_cases(rng, tier):
    sp = docs.spec()
    cases = []
    ndocs = 25 if tier == 'quick' else 2000
    per_doc = 6 if tier == 'quick' else 12
    for d in range(ndocs):
        # one element per line, everything on one line, random line breaks: what stands on the line of the unknown element must not matter
        lay = docgen.Layout(mode=('canonical', 'oneline', 'random')[d % 3])
        seed = rng.randrange(1 << 30)
        opts = docgen.GenOptions(version=rng.choice(docs.VERSIONS), max_depth=5, max_repeat=2, p_optional=0.4)
        node = docgen.gen_tree(sp, random.Random(seed), opts)
        docs.order_positions(node)
        base_text, _ = docgen.render(node, random.Random(1), lay, sp)
        base_idx = len(cases)
        cases.append({'text': base_text, 'strict': False, 'kind': 'base'})
        # candidate insertion points
        cands = []
        for n, p in node.walk():
            ti = sp.info.get(n.type) if n.type else None
            if ti is not None and ti.special is None and ti.group and n.tag is not None and n.is_block:
                for s in range(len(n.kids) + 1):
                    cands.append((n, s, True))
                for s in docgen._safe_keyword_slots(sp, n):
                    cands.append((n, s, False))
        rng.shuffle(cands)
        for (n, slot, block) in cands[:per_doc]:
            utag = 'UNKNOWN_%s_%d' % ('BLOCK' if block else 'KW', rng.randrange(100))
            new = docgen.Node(None, utag, block, payload=payload(rng, block, 0, utag))
            n.kids.insert(slot, new)
            text, _ = docgen.render(node, random.Random(1), lay, sp)
            n.kids.pop(slot)
            i = len(cases)
            cases.append({'text': text, 'strict': False, 'kind': 'injected', 'base': base_idx, 'tag': utag, 'pair': i + 1})
            cases.append({'text': text, 'strict': True, 'kind': 'injected-strict', 'base': base_idx, 'tag': utag, 'pair': i})
    return cases


def oracle(c, r, cases, res):
    if r.status in ('DIED', 'PANIC'):
        return 'panic / crash'
    if c['kind'] == 'base':
        return None
    base = res[c['base']]
    if base.status != 'OK' or base.diags:
        return None               # generator problem, not a property matter (counted in the distribution)
    if c['kind'] == 'injected':
        if r.status != 'OK':
            return 'non-strict loading fails on an unknown element %s: %s' % (c['tag'], sx.pretty(r.err)[1:3])
        ds = r.diag_list()
        if len(ds) != 1 or ds[0][1] != 'UnknownSubBlock' or ds[0][3] != c['tag']:
            return 'expected exactly one UnknownSubBlock warning for %s, got %s' % (c['tag'], [(d[1], d[3]) for d in ds])
        d = loadlib.veq(base.node, r.node)
        if d:
            return 'the rest of the file is loaded differently with the unknown element present: %s' % d
        return None
    # strict
    if r.status != 'ERR':
        return 'strict loading accepts the unknown element %s' % c['tag']
    e = loadlib.diag_key(r.err)
    if e[1] != 'UnknownSubBlock' or e[3] != c['tag']:
        return 'strict error does not name the unknown element: %s' % (e,)
    return None


def nontrivial_key(c, r):
    return hash(c['text']) if c['kind'] != 'base' else None


def distribution(cases, res):
    return {'base_docs': sum(1 for c in cases if c['kind'] == 'base'),
            'base_not_clean': sum(1 for c, r in zip(cases, res) if c['kind'] == 'base' and (r.status != 'OK' or r.diags)),
            'injected': sum(1 for c in cases if c['kind'] == 'injected'),
            'block_form': sum(1 for c in cases if c['kind'] == 'injected' and 'BLOCK' in c['tag'])}


# ---------------------------------------------------------------------------------------------- documents that live in several files
_MEAS = '/begin MEASUREMENT %s "" UBYTE NO_COMPU_METHOD 0 0 0 255 /end MEASUREMENT\n'


def _kw_payload(rng):
    parts = []
    for _ in range(rng.randrange(1, 4)):
        parts.append(rng.choice(['%d' % rng.randrange(70000), '"pay load"', '1.5e3', 'uk_value_%d' % rng.randrange(10), '0x1F']))
    return ' '.join(parts)


def file_cases(rng, tier):
    """(label, files with the unknown element, files without it, tag): the unknown element stands at a file boundary - last
    thing of an include file, first thing of one, directly in front of or behind an /include directive"""
    out = []
    n = 6 if tier == 'quick' else 150
    head = 'ASAP2_VERSION 1 71\n/begin PROJECT p ""\n/begin MODULE m ""\n'
    tail = '/end MODULE\n/end PROJECT\n'
    for i in range(n):
        tag = 'UNKNOWN_KW_%d' % rng.randrange(100)
        kw = '%s %s\n' % (tag, _kw_payload(rng))
        blk = '/begin %s %s /begin INNER 1 /end INNER /end %s\n' % (tag, _kw_payload(rng), tag)
        sub = rng.choice(['', 'sub/'])
        inc = '/include "%sa.a2l"\n' % sub
        for form, u in (('keyword', kw), ('block', blk)):
            for where in ('end-of-include', 'start-of-include', 'before-directive', 'behind-directive'):
                a_with = {'end-of-include': _MEAS % 'm2' + u, 'start-of-include': u + _MEAS % 'm2'}.get(where, _MEAS % 'm2')
                main_mid = {'before-directive': _MEAS % 'm1' + u + inc + _MEAS % 'm3',
                            'behind-directive': _MEAS % 'm1' + inc + u + _MEAS % 'm3'}.get(where, _MEAS % 'm1' + inc + _MEAS % 'm3')
                with_u = {'main.a2l': head + main_mid + tail, sub + 'a.a2l': a_with}
                without = {'main.a2l': head + _MEAS % 'm1' + inc + _MEAS % 'm3' + tail, sub + 'a.a2l': _MEAS % 'm2'}
                out.append(('%s %s' % (form, where), with_u, without, tag))
    return out


def extra_stage(v, tier, rng, impl):
    """unknown elements at the boundary between an including and an included file"""
    from checks import inclib
    fcs = file_cases(rng, tier)
    lines = []
    for label, fw_, fo, tag in fcs:
        for files, strict in ((fo, 0), (fw_, 0), (fw_, 1)):
            lines.append(sx.enc([[[p_, inclib._bytes(files[p_])] for p_ in sorted(files)], 'main.a2l', strict]))
    out = fw.run_isolating([impl, 'LOADINC'], lines, single_timeout=60)
    inclib.cleanup_tmp()
    found = []
    for i, (label, fw_, fo, tag) in enumerate(fcs):
        base, lenient, strict = (loadlib.Loaded(out[3 * i + k]) for k in range(3))
        why = None
        if base.status != 'OK' or base.diags:
            continue
        if lenient.status != 'OK':
            why = 'non-strict loading fails on an unknown element %s at a file boundary (%s): %s' % (tag, label, lenient.status)
        else:
            ds = lenient.diag_list()
            if len(ds) != 1 or ds[0][1] != 'UnknownSubBlock' or ds[0][3] != tag:
                why = 'expected exactly one UnknownSubBlock warning for %s (%s), got %s' % (tag, label, [(d[1], d[3]) for d in ds])
            else:
                d = loadlib.veq(base.node, lenient.node)
                if d:
                    why = 'the rest of the document is loaded differently with the unknown element at a file boundary (%s): %s' % (label, d)
        if why is None:
            if strict.status != 'ERR':
                why = 'strict loading accepts the unknown element %s (%s)' % (tag, label)
            else:
                e = loadlib.diag_key(strict.err)
                if e[1] != 'UnknownSubBlock' or e[3] != tag:
                    why = 'strict error does not name the unknown element (%s): %s' % (label, e)
        if why:
            found.append({'payload': {'kind': 'LOADINC', 'files': fw_, 'files_without': fo, 'main': 'main.a2l', 'tag': tag, 'why': why,
                                      'case': lines[3 * i + 1], 'stage': 'W (unknown element at a file boundary)'}})
    v.coverage['file_boundary_cases'] = len(fcs)
    v.coverage['file_boundary_failures'] = len(found)
    return found


def check(tier, seed):
    import checks.c07 as me
    return loadcheck.run(me, tier, seed)


def replay(r):
    import checks.c07 as me
    from checks import inclib
    impl = fw.build_harness()
    if r.get('kind') == 'LOADINC':
        enc = lambda files, strict: sx.enc([[[p_, inclib._bytes(files[p_])] for p_ in sorted(files)], r['main'], strict])
        out = fw.run_isolating([impl, 'LOADINC'], [enc(r['files_without'], 0), enc(r['files'], 0), enc(r['files'], 1)], single_timeout=60)
        inclib.cleanup_tmp()
        base, lenient, strict = (loadlib.Loaded(x) for x in out)
        print('without the unknown element:', base.status, base.diag_list() if base.status == 'OK' else '')
        print('non-strict:', lenient.status, lenient.diag_list() if lenient.status == 'OK' else lenient.raw[:300])
        print('strict:', strict.status, sx.pretty(strict.err)[:5] if strict.status == 'ERR' else '')
        bad = lenient.status != 'OK' or [d[1] for d in lenient.diag_list()] != ['UnknownSubBlock'] or \
            bool(loadlib.veq(base.node, lenient.node)) or strict.status != 'ERR'
        print('oracle:', 'property violated' if bad else 'property holds on this input')
        return 1 if bad else 0
    c = r.get('prop_case') or {}
    if 'text' in c:
        res, _ = loadlib.run_impl([(c['text'], bool(c.get('strict')), None, 0)], impl)
        print('implementation:', res[0].status, res[0].diag_list() if res[0].status == 'OK' else sx.pretty(res[0].err)[:5])
    print('the verdict on an injected document needs its base document (case index %s of the run); re-run the check' % c.get('base'))
    return 1
