"""C07 unknown elements: proof (Props/C07.v: skipping of block- and keyword-form unknown elements for every payload,
strict error) + correspondence of the parser model + oracle: load(T + unknown element, non-strict) gives exactly one
UnknownSubBlock warning and a model equal to load(T); strict loading fails with an error naming the element."""
import copy
import random
import framework as fw
import sx
import docgen
from checks import docs, loadlib, loadcheck

PROP = 'C07'
DIAG_LINES_ARE_PROPERTY = True
TARGETS = ['theories/Proofs/UnknownProofs.v', 'theories/Run/RunLoad.v']
RULE = ('valid documents x every insertion point inside blocks that admit optional sub-elements x unknown payloads: keyword with '
        'scalar arguments, /begin X .. /end X with nested unknown blocks (also of the same tag X), comments inside; the payload never reuses a tag of the '
        'enclosing block and a bare keyword is not placed behind an open identifier list; each injected document is loaded in both '
        'modes and compared with the base document; non-trivial = every injected case; distinct = distinct text')
ASSUMPTIONS = ['the base document is valid (loads strictly without diagnostics)']


def payload(rng, block, depth=0, outer_tag=None):
    items = []
    for _ in range(rng.randrange(0, 4)):
        k = rng.randrange(5)
        if k == 0:
            items.append(docgen.Val('int', rng.randrange(0, 70000), str(rng.randrange(0, 70000))))
        elif k == 1:
            items.append(docgen.Val('string', 'pay load', '"pay load"'))
        elif k == 2:
            items.append(docgen.Val('float', 1.5, '1.5e3'))
        elif k == 3:
            items.append(docgen.Val('ident', 'uk_value_%d' % rng.randrange(10), 'uk_value_%d' % rng.randrange(10)))
        else:
            items.append(docgen.Val('ident', '/* c */', '/* in unknown */'))
    if block and depth < 2 and rng.random() < 0.6:
        # a nested block, sometimes with the very tag of the unknown block around it (balanced all the same)
        inner_tag = outer_tag if (outer_tag and rng.random() < 0.35) else 'UK_INNER_%d' % depth
        items.append(docgen.Node(None, inner_tag, True, payload=payload(rng, True, depth + 1, outer_tag)))
        if rng.random() < 0.4:
            items.append(docgen.Val('int', 7, '7'))
    return items


def gen_cases(rng, tier):
    sp = docs.spec()
    cases = []
    ndocs = 25 if tier == 'quick' else 2000
    per_doc = 6 if tier == 'quick' else 12
    lay = docgen.Layout(mode='canonical')
    for d in range(ndocs):
        seed = rng.randrange(1 << 30)
        opts = docgen.GenOptions(version=rng.choice(docs.VERSIONS), max_depth=5, max_repeat=2, p_optional=0.4)
        node = docgen.gen_tree(sp, random.Random(seed), opts)
        docs.order_positions(node)
        base_text, _ = docgen.render(node, random.Random(1), lay, sp)
        base_idx = len(cases)
        cases.append({'text': base_text, 'strict': False, 'kind': 'base'})
        # candidate insertion points
        cands = []
        for n, p in node.walk():
            ti = sp.info.get(n.type) if n.type else None
            if ti is not None and ti.special is None and ti.group and n.tag is not None and n.is_block:
                for s in range(len(n.kids) + 1):
                    cands.append((n, s, True))
                for s in docgen._safe_keyword_slots(sp, n):
                    cands.append((n, s, False))
        rng.shuffle(cands)
        for (n, slot, block) in cands[:per_doc]:
            utag = 'UNKNOWN_%s_%d' % ('BLOCK' if block else 'KW', rng.randrange(100))
            new = docgen.Node(None, utag, block, payload=payload(rng, block, 0, utag))
            n.kids.insert(slot, new)
            text, _ = docgen.render(node, random.Random(1), lay, sp)
            n.kids.pop(slot)
            i = len(cases)
            cases.append({'text': text, 'strict': False, 'kind': 'injected', 'base': base_idx, 'tag': utag, 'pair': i + 1})
            cases.append({'text': text, 'strict': True, 'kind': 'injected-strict', 'base': base_idx, 'tag': utag, 'pair': i})
    return cases


def oracle(c, r, cases, res):
    if r.status in ('DIED', 'PANIC'):
        return 'panic / crash'
    if c['kind'] == 'base':
        return None
    base = res[c['base']]
    if base.status != 'OK' or base.diags:
        return None               # generator problem, not a property matter (counted in the distribution)
    if c['kind'] == 'injected':
        if r.status != 'OK':
            return 'non-strict loading fails on an unknown element %s: %s' % (c['tag'], sx.pretty(r.err)[1:3])
        ds = r.diag_list()
        if len(ds) != 1 or ds[0][1] != 'UnknownSubBlock' or ds[0][3] != c['tag']:
            return 'expected exactly one UnknownSubBlock warning for %s, got %s' % (c['tag'], [(d[1], d[3]) for d in ds])
        d = loadlib.veq(base.node, r.node)
        if d:
            return 'the rest of the file is loaded differently with the unknown element present: %s' % d
        return None
    # strict
    if r.status != 'ERR':
        return 'strict loading accepts the unknown element %s' % c['tag']
    e = loadlib.diag_key(r.err)
    if e[1] != 'UnknownSubBlock' or e[3] != c['tag']:
        return 'strict error does not name the unknown element: %s' % (e,)
    return None


def nontrivial_key(c, r):
    return hash(c['text']) if c['kind'] != 'base' else None


def distribution(cases, res):
    return {'base_docs': sum(1 for c in cases if c['kind'] == 'base'),
            'base_not_clean': sum(1 for c, r in zip(cases, res) if c['kind'] == 'base' and (r.status != 'OK' or r.diags)),
            'injected': sum(1 for c in cases if c['kind'] == 'injected'),
            'block_form': sum(1 for c in cases if c['kind'] == 'injected' and 'BLOCK' in c['tag'])}


def check(tier, seed):
    import checks.c07 as me
    return loadcheck.run(me, tier, seed)


def replay(r):
    import checks.c07 as me
    print('replay of C07 cases needs the base document; see prop_case in the replay file')
    return 1
