"""C10 cleanup(): removes only, and all, unreferenced helper elements.
   T  ref/sites.json -> Gen/Sites.v; every identifier field of the grammar recovered from /repo is classified
   P  Props/C10.v on the cleanup model (Lib/Cleanup.v: the four passes over the part of a MODULE that cleanup reads/writes)
   C  extracted model against A2lFile::cleanup: abstraction(before) --model--> == abstraction(after), on generated helper
      graphs (chains/cycles of SUB_GROUP, SUB_FUNCTION, REF_UNIT, AR_PROTOTYPE_OF, dangling references, unused helpers, helpers
      used only from unusual sites) and on grammar-generated documents; the use-site table against the implementation
   W  on the implementation: only helper namespaces lose elements, objects/typedefs unchanged on consistent files, every
      reference that resolved before still resolves, nothing unused is left in CM/CT/UNIT/RL, check() stays clean, a second
      run changes nothing"""
import collections

import docgen
import framework as fw
import sx
from checks import docs, loadlib, reflib as R, refprobe as P

PROP = 'C10'
TARGETS = ['theories/Proofs/CleanupProofs.v', 'theories/Proofs/CleanupIdemProofs.v', 'theories/Run/RunC10.v']
PRUNED = ('GROUP', 'FUNCTION', 'CM', 'CT', 'UNIT', 'RL')
OBJ_TYPES = ['AxisPts', 'Blob', 'Characteristic', 'Instance', 'Measurement']
TAB_TYPES = ['CompuTab', 'CompuVtab', 'CompuVtabRange']
CONV_SITES = {('AxisPts.conversion', 'Module'), ('Characteristic.conversion', 'Module'), ('AxisDescr.conversion', 'Characteristic'),
              ('AxisDescr.conversion', 'TypedefCharacteristic'), ('Measurement.conversion', 'Module'), ('TypedefAxis.conversion', 'Module'),
              ('TypedefCharacteristic.conversion', 'Module'), ('TypedefMeasurement.conversion', 'Module')}
RL_SITES = {'AxisPts.deposit_record', 'Characteristic.deposit', 'TypedefCharacteristic.record_layout', 'TypedefAxis.record_layout', 'SRecLayout.name'}


def stage_t(v):
    docs.translate_shipped()
    import sites_to_coq
    sites_to_coq.main()
    S = P.sites()
    bad = R.check_classified(R.spec_json(), S)
    return {'ok': not bad, 'what': 'identifier fields of the grammar without a classification in ref/sites.json', 'detail': bad[:10]}


# ------------------------------------------------------------------------------------ abstraction of a dump
def _t(x):
    return bytes(x).decode('utf-8', 'replace')


def kids(node, tname=None):
    for grp in node[3]:
        for k in grp:
            if loadlib.is_node(k) and (tname is None or _t(k[0]) == tname):
                yield k


def child(node, tname):
    return next(kids(node, tname), None)


def olist(node, tname, field=0):
    c = child(node, tname)
    if c is None:
        return []
    return [[_t(x[0]) for x in c[2][field]]]


def oname(node, tname, field=0):
    c = child(node, tname)
    return [] if c is None else [_t(c[2][field][0])]


def modules_of(dump):
    out = []

    def walk(n):
        if _t(n[0]) == 'Module':
            out.append(n)
            return
        for k in kids(n):
            walk(k)
    walk(dump)
    return out


def abstract_module(m, mi, dump_refs):
    name = lambda n: _t(n[2][0][0])
    objs = [[k, name(n)] for k, t in enumerate(OBJ_TYPES) for n in kids(m, t)]
    groups = [[name(g), olist(g, 'SubGroup'), olist(g, 'RefCharacteristic'), olist(g, 'RefMeasurement'), olist(g, 'FunctionList')]
              for g in kids(m, 'Group')]
    funcs = []
    for f in kids(m, 'Function'):
        ar = child(f, 'ArComponent')
        funcs.append([name(f), olist(f, 'SubFunction'), olist(f, 'RefCharacteristic'), olist(f, 'DefCharacteristic'),
                      olist(f, 'InMeasurement'), olist(f, 'LocMeasurement'), olist(f, 'OutMeasurement'),
                      oname(ar, 'ArPrototypeOf') if ar is not None else []])
    cms = [[name(c), oname(c, 'CompuTabRef'), oname(c, 'RefUnit'), oname(c, 'StatusStringRef')] for c in kids(m, 'CompuMethod')]
    tabs = [[k, name(n)] for k, t in enumerate(TAB_TYPES) for n in kids(m, t)]
    units = [[name(u), oname(u, 'RefUnit')] for u in kids(m, 'Unit')]
    rls = [name(r) for r in kids(m, 'RecordLayout')]
    conv, conv_ro, rl_uses, grp_uses = [], [], [], []
    obj_funcs = collections.OrderedDict()
    for site, path, target, rmi, index, holder, ptype in dump_refs:
        if rmi != mi:
            continue
        if (site, ptype) in CONV_SITES:
            conv.append(target)
        elif site == 'Conversion.name':
            conv_ro.append(target)
        elif site in RL_SITES:
            rl_uses.append(target)
        elif site == 'RefGroup.identifier_list':
            grp_uses.append(target)
    for t in ('AxisPts', 'Characteristic', 'Measurement'):
        for n in kids(m, t):
            fl = child(n, 'FunctionList')
            if fl is not None:
                obj_funcs[(t, name(n), len(obj_funcs))] = [_t(x[0]) for x in fl[2][0]]
    return [objs, groups, funcs, cms, tabs, units, rls, conv, conv_ro, list(obj_funcs.values()), rl_uses, grp_uses]


def abstract(dump, S):
    refs = R.references_in_dump(dump, S, detail=True)
    return [abstract_module(m, mi, refs) for mi, m in enumerate(modules_of(dump))]


# ------------------------------------------------------------------------------------ helper-graph documents
def gen_graph_text(rng):
    """a module whose helper elements form an arbitrary reference graph"""
    n = lambda p, k: ['%s%d' % (p, i) for i in range(k)]
    G, F, CM, CT, U, RL, ME, CH = n('g', rng.randrange(0, 6)), n('f', rng.randrange(0, 6)), n('cm', rng.randrange(0, 5)), \
        n('ct', rng.randrange(0, 5)), n('u', rng.randrange(0, 6)), n('rl', rng.randrange(1, 4)), n('me', rng.randrange(0, 4)), n('ch', rng.randrange(0, 3))
    AP, TC, TM, INST = n('ap', rng.randrange(0, 2)), n('tc', rng.randrange(0, 2)), n('tm', rng.randrange(0, 2)), n('in', rng.randrange(0, 2))
    def pick(pool, k, ghost='zz'):
        out = []
        for _ in range(k):
            if rng.random() < 0.12 or not pool:
                out.append(ghost)
            else:
                out.append(rng.choice(pool))
        return out
    conv = lambda: rng.choice(CM + CM + ['NO_COMPU_METHOD'] + (['cm_gone'] if rng.random() < 0.15 else []))
    rl = lambda: rng.choice(RL + (['rl_gone'] if rng.random() < 0.1 else []))
    fl = lambda: ('/begin FUNCTION_LIST %s /end FUNCTION_LIST ' % ' '.join(pick(F, rng.randrange(1, 3), 'f_gone'))) if rng.random() < 0.4 else ''
    out = ['ASAP2_VERSION 1 71', '/begin PROJECT p "" /begin MODULE m ""']
    if rng.random() < 0.3:
        out.append('/begin MOD_COMMON "" S_REC_LAYOUT %s /end MOD_COMMON' % rl())
    for x in ME:
        out.append('/begin MEASUREMENT %s "" UBYTE %s 1 1 0 100 %s/end MEASUREMENT' % (x, conv(), fl()))
    for x in AP:
        out.append('/begin AXIS_PTS %s "" 0x0 NO_INPUT_QUANTITY %s 0 %s 3 0 10 %s/end AXIS_PTS' % (x, rl(), conv(), fl()))
    for x in CH:
        ad = ''.join('/begin AXIS_DESCR STD_AXIS NO_INPUT_QUANTITY %s 1 0 100 /end AXIS_DESCR ' % conv() for _ in range(rng.randrange(0, 3)))
        out.append('/begin CHARACTERISTIC %s "" VALUE 0x0 %s 0 %s 0 10 %s%s/end CHARACTERISTIC' % (x, rl(), conv(), ad, fl()))
    for x in TC:
        ad = ''.join('/begin AXIS_DESCR STD_AXIS NO_INPUT_QUANTITY %s 1 0 100 /end AXIS_DESCR ' % conv() for _ in range(rng.randrange(0, 3)))
        out.append('/begin TYPEDEF_CHARACTERISTIC %s "" VALUE %s 0 %s 0 10 %s/end TYPEDEF_CHARACTERISTIC' % (x, rl(), conv(), ad))
    for x in TM:
        out.append('/begin TYPEDEF_MEASUREMENT %s "" UBYTE %s 1 1 0 100 /end TYPEDEF_MEASUREMENT' % (x, conv()))
    for x in INST:
        ov = '/begin OVERWRITE THIS 0 CONVERSION %s /end OVERWRITE ' % conv() if rng.random() < 0.6 else ''
        out.append('/begin INSTANCE %s "" %s 0x0 %s/end INSTANCE' % (x, rng.choice(TM + TC + ['td_gone']), ov))
    objs = ME + CH + INST
    for x in G:
        parts = []
        if rng.random() < 0.6:
            parts.append('/begin SUB_GROUP %s /end SUB_GROUP' % ' '.join(pick(G, rng.randrange(0, 3), 'g_gone')))
        if rng.random() < 0.5:
            parts.append('/begin REF_CHARACTERISTIC %s /end REF_CHARACTERISTIC' % ' '.join(pick(CH + INST, rng.randrange(0, 3), 'o_gone')))
        if rng.random() < 0.5:
            parts.append('/begin REF_MEASUREMENT %s /end REF_MEASUREMENT' % ' '.join(pick(ME, rng.randrange(0, 3), 'o_gone')))
        if rng.random() < 0.3:
            parts.append('/begin FUNCTION_LIST %s /end FUNCTION_LIST' % ' '.join(pick(F, rng.randrange(0, 3), 'f_gone')))
        out.append('/begin GROUP %s "" %s %s /end GROUP' % (x, 'ROOT' if rng.random() < 0.3 else '', ' '.join(parts)))
    for x in F:
        parts = []
        if rng.random() < 0.4:
            parts.append('/begin AR_COMPONENT "t" %s/end AR_COMPONENT' % ('AR_PROTOTYPE_OF %s ' % rng.choice(F + ['f_gone']) if rng.random() < 0.7 else ''))
        for tag, pool in (('DEF_CHARACTERISTIC', CH), ('IN_MEASUREMENT', ME), ('LOC_MEASUREMENT', ME), ('OUT_MEASUREMENT', ME), ('REF_CHARACTERISTIC', CH + AP)):
            if rng.random() < 0.25:
                parts.append('/begin %s %s /end %s' % (tag, ' '.join(pick(pool, rng.randrange(0, 3), 'o_gone')), tag))
        if rng.random() < 0.55:
            parts.append('/begin SUB_FUNCTION %s /end SUB_FUNCTION' % ' '.join(pick(F, rng.randrange(0, 3), 'f_gone')))
        out.append('/begin FUNCTION %s "" %s /end FUNCTION' % (x, ' '.join(parts)))
    for x in CM:
        opt = ''
        if rng.random() < 0.5:
            opt += 'COMPU_TAB_REF %s ' % rng.choice(CT + ['ct_gone'])
        if rng.random() < 0.5:
            opt += 'REF_UNIT %s ' % rng.choice(U + ['u_gone'])
        if rng.random() < 0.4:
            opt += 'STATUS_STRING_REF %s ' % rng.choice(CT + ['ct_gone'])
        out.append('/begin COMPU_METHOD %s "" TAB_VERB "%%4.2" "" %s/end COMPU_METHOD' % (x, opt))
    for x in CT:
        k = rng.randrange(3)
        out.append(['/begin COMPU_TAB %s "" TAB_INTP 1 1 1 /end COMPU_TAB', '/begin COMPU_VTAB %s "" TAB_VERB 1 1 "v" /end COMPU_VTAB',
                    '/begin COMPU_VTAB_RANGE %s "" 1 1 2 "v" /end COMPU_VTAB_RANGE'][k] % x)
    for x in U:
        out.append('/begin UNIT %s "" "" DERIVED %s/end UNIT' % (x, 'REF_UNIT %s ' % rng.choice(U + ['u_gone']) if rng.random() < 0.6 else ''))
    for x in RL:
        out.append('/begin RECORD_LAYOUT %s FNC_VALUES 1 UBYTE ROW_DIR DIRECT /end RECORD_LAYOUT' % x)
    for i in range(rng.randrange(0, 2)):
        out.append('/begin USER_RIGHTS usr%d /begin REF_GROUP %s /end REF_GROUP /end USER_RIGHTS' % (i, ' '.join(pick(G, rng.randrange(0, 3), 'g_gone'))))
    out.append('/end MODULE /end PROJECT')
    return '\n'.join(out) + '\n'


# ------------------------------------------------------------------------------------ property oracle
def oracle(S, before, after, xref_before, xref_after, idem, consistent):
    """[(class, why)] - the statement of C10 on one cleanup() of the implementation"""
    out = []
    d0 = R.definitions_in_dump(before, S, with_nodes=True)
    d1 = R.definitions_in_dump(after, S, with_nodes=True)
    for mi in d0:
        for ns, names in d0[mi].items():
            for nm, (t, n0) in names.items():
                got = d1.get(mi, {}).get(ns, {}).get(nm)
                if got is None:
                    if ns not in PRUNED:
                        out.append(('removed:' + ns, '%s %s (namespace %s) was removed' % (t, nm, ns)))
                elif ns in ('OBJ', 'TD') and consistent:
                    diff = loadlib.veq(n0, got[1])
                    if diff:
                        out.append(('altered:' + ns, '%s %s was altered: %s' % (t, nm, diff)))
    # every reference of a remaining element that resolved before still resolves
    ix = R._index(S)
    for site, path, target, mi, index, holder, ptype in R.references_in_dump(after, S, detail=True):
        e = ix.by_key[tuple(site.split('.'))]
        ns = e['ns']
        if ns in ('SC', 'VCVAL') or target in e.get('special', []):
            continue
        if target in d0.get(mi, {}).get(ns, {}) and target not in d1.get(mi, {}).get(ns, {}):
            out.append(('dangling:%s@%s' % (site, ptype), '%s %s named by %s at %s was removed although it is still referenced'
                        % (ns, target, site, R.path_in_module(path))))
    # nothing unused is left among COMPU_METHOD, conversion tables, UNIT, RECORD_LAYOUT
    used = collections.defaultdict(set)
    for site, path, target, mi, index, holder, ptype in R.references_in_dump(after, S, detail=True):
        e = ix.by_key[tuple(site.split('.'))]
        used[(mi, e['ns'])].add(target)
    for mi in d1:
        for ns in ('CM', 'CT', 'UNIT', 'RL'):
            for nm in d1[mi].get(ns, {}):
                if nm not in used[(mi, ns)]:
                    out.append(('left-unused:' + ns, '%s %s is referenced by nothing and was not removed' % (ns, nm)))
    if not xref_before and xref_after:
        out.append(('check-after', 'check() was clean before cleanup and reports afterwards: %s' % (sorted(xref_after)[:3],)))
    if not idem:
        out.append(('not-idempotent', 'a second cleanup() changes the file again'))
    return out


def check(tier, seed):
    v = fw.Verdict(PROP, tier, seed)
    rng = fw.rng_for(seed, PROP)
    known = fw.load_known_findings().get(PROP, {})
    S = P.sites()
    t_info = stage_t(v)
    ok_p, p_info = fw.proof_stage(v, PROP, TARGETS)
    impl = fw.build_harness(release=False)
    model_exe, model_err = None, None
    try:
        ok_m, log_m = fw.coq_make(TARGETS)
        if not ok_m:
            raise fw.CheckFailure('model does not compile:\n' + log_m[-2000:])
        model_exe = fw.build_model(PROP)
    except fw.CheckFailure as e:
        model_err = str(e)

    n = 150 if tier == 'quick' else 12000
    texts = []
    for j in range(n):
        texts.append(('graph', gen_graph_text(rng)))
    for j in range(n // 2):
        node, text, refs = R.gen_consistent_doc(rng, rng.choice(['small', 'medium']), S, single_module=rng.random() < 0.7)
        texts.append(('consistent', text))
    for j in range(n // 4):
        node, text, toks = docs.random_doc(rng, rng.choice(['small', 'medium']), layout=docgen.Layout())
        texts.append(('random', text))
    loads = R.run_cases('LOAD', [R.load_case(t) for c, t in texts], binary=impl)
    cleans = R.run_cases('CLEANUP', [R.check_case(t) for c, t in texts], binary=impl)

    lines, owner, expect = [], [], []
    failures = []
    answers = collections.Counter()
    for j, ((cls, text), l, c) in enumerate(zip(texts, loads, cleans)):
        if l is None or l[0] != b'OK':
            answers['not loadable'] += 1
            continue
        if c is None or c[0] != b'OK':
            answers['cleanup failed'] += 1
            failures.append((j, 'panic', 'cleanup(): %s' % ('process died' if c is None else sx.pretty(c[:2]))))
            continue
        answers['OK'] += 1
        xb, xa = set(R.xref_errors(c[2])), set(R.xref_errors(c[3]))
        for clsw, why in oracle(S, l[1], c[1], xb, xa, bool(c[4]), consistent=not xb and cls != 'random'):
            failures.append((j, clsw, why))
        a0, a1 = abstract(l[1], S), abstract(c[1], S)
        for m0, m1 in zip(a0, a1):
            lines.append(sx.enc(m0))
            owner.append(j)
            expect.append(m1)
    mismatches = []
    if model_exe:
        out = fw.run_sharded([model_exe], lines)
        for j, line, want in zip(owner, out, expect):
            m = sx.pretty(sx.dec(line)) if line and not line.startswith('DIED') else None
            if not m or m[0] != 'OK':
                mismatches.append((j, 'model failed: %s' % (line or '')[:100]))
                continue
            w = sx.pretty(sx.dec(sx.enc(want)))
            if m[1] != w:
                mismatches.append((j, simple_diff(w, m[1])))
            elif m[2] != m[1]:
                mismatches.append((j, 'model: a second cleanup changes the abstract module'))
    probe = P.probe_cleanup(rng.randrange(1 << 30), per=2 if tier == 'quick' else 8)
    table_bad = []
    for sid, h, f, p in P.instances():
        k = P.inst_key(sid, p)
        e = R.site_flags(S, h, f, p)
        row = probe.get(k)
        if not row or e['ns'] not in PRUNED:
            continue
        kept, deleted = row.get('kept', 0), row.get('DELETED', 0)
        flag = 'use' in (e['cleanup'] or '')
        if kept + deleted and ((kept > 0 and deleted == 0) != flag or (kept and deleted)):
            case = [c for c in row['cases'] if c[2] in ('kept', 'DELETED')][0]
            table_bad.append({'instance': k, 'table_says_use': flag, 'observed': {x: row[x] for x in row if x != 'cases'}, 'text': case[0], 'helper': case[1]})
            if flag and deleted:
                failures.append((('probe', k), 'dangling:' + k, 'helper %s referenced only through %s was deleted' % (case[1], k)))

    classes = collections.Counter(c for c, t in texts)
    v.coverage.update({
        'evaluations': len(texts) + sum(sum(n_ for x, n_ in r.items() if x in ('kept', 'DELETED', 'deleted-with-owner')) for r in probe.values()),
        'distinct_nontrivial': len(set(lines)),
        'rule': ('helper-graph modules (random SUB_GROUP / SUB_FUNCTION / REF_UNIT / AR_PROTOTYPE_OF graphs with chains and cycles, '
                 'helpers used from CONVERSION of AXIS_DESCR in TYPEDEF_CHARACTERISTIC, INSTANCE OVERWRITE, STATUS_STRING_REF, S_REC_LAYOUT, '
                 'USER_RIGHTS; about 12% dangling references; unused helpers), grammar-generated consistent documents, arbitrary generated '
                 'documents, and site-instance probes (a content-free helper referenced only through one site); non-trivial = '
                 'distinct abstract modules'),
        'documents_by_class': dict(classes), 'implementation_answers': dict(answers),
        'model_cases': len(lines), 'correspondence_mismatches': len(mismatches),
        'traces_validated_against_impl': len(lines) - len(mismatches) if model_exe else 0,
        'site_instances_probed': len(probe), 'table_mismatches': len(table_bad),
        'oracle_failures': len(failures), 'oracle_failure_classes': dict(collections.Counter(c for j, c, w in failures)),
        'translator': t_info,
        'samples': [texts[0][1][:600]],
        'trusted_base': ['Coq kernel; extraction (ExtrOcamlBasic, ExtrOcamlString) and OCaml for the model run',
                         'checks/c10.py abstract(): projection of a typed dump onto the part of a MODULE that cleanup reads or writes',
                         'ref/sites.json classification; harness CLEANUP handler and typed dumper'],
    })
    v.assumptions = ['names are unique per namespace (files with duplicate names are outside the quantifier)',
                     'a GROUP / FUNCTION that is referenced only as SUB_GROUP / SUB_FUNCTION is not "in use" (the entry is removed with it)',
                     'dropping a dangling reference from an object (conversion := NO_COMPU_METHOD, FUNCTION_LIST entry removed) is the '
                     'documented mechanism of the property and not counted as altering the object']

    reported, seen = 0, set()
    for j, cls, why in failures:
        if cls in known:
            v.known(cls, known[cls])
            continue
        if cls in seen or reported >= 3:
            continue
        seen.add(cls)
        text = [r for r in table_bad if r['instance'] == j[1]][0]['text'] if isinstance(j, tuple) else texts[j][1]
        v.violation('input', {'kind': 'CLEANUP', 'text': text, 'why': why, 'class': cls, 'stage': 'W (oracle on the implementation)'})
        reported += 1
    if reported == 0:
        if not t_info['ok']:
            v.violation('translate', {'stage': 'T', 'broken': t_info['what'], 'detail': t_info['detail']}, no_input=True)
        if not ok_p:
            v.violation('proof', {'stage': 'P', 'broken_obligation': p_info.get('failing'), 'problems': p_info.get('problems'),
                                  'forbidden_constructs': p_info.get('forbidden'), 'log_tail': p_info.get('log', '')}, no_input=True)
        if model_err:
            v.violation('model', {'stage': 'C', 'broken': 'model build', 'detail': model_err}, no_input=True)
        elif mismatches or table_bad:
            j = mismatches[0][0] if mismatches else None
            v.violation('correspondence', {
                'stage': 'C', 'broken': 'cleanup model / use-site table against cleanup()', 'kind': 'CLEANUP',
                'text': texts[j][1] if j is not None else table_bad[0]['text'],
                'first_difference': mismatches[0][1] if mismatches else None, 'documents_differing': len(set(m[0] for m in mismatches)),
                'table_mismatches': [{k: x[k] for k in ('instance', 'table_says_use', 'observed')} for x in table_bad[:10]]}, no_input=True)
    return v.finish('proof')


FIELDS = ['objs', 'groups', 'funcs', 'cms', 'tabs', 'units', 'rls', 'conv', 'conv_ro', 'obj_funcs', 'rl_uses', 'grp_uses']


def simple_diff(impl, model):
    for k, (a, b) in enumerate(zip(impl, model)):
        if a != b:
            return '%s: implementation %s / model %s' % (FIELDS[k], [x for x in a if x not in b][:4] or a[:4], [x for x in b if x not in a][:4] or b[:4])
    return 'lengths differ'


def replay(r):
    S = P.sites()
    impl = fw.build_harness(release=False)
    if not r.get('text'):
        print('replay: no concrete input recorded; broken:', r.get('broken_obligation') or r.get('broken'))
        return 1
    t = r['text']
    l = R.run_cases('LOAD', [R.load_case(t)], binary=impl)[0]
    c = R.run_cases('CLEANUP', [R.check_case(t)], binary=impl)[0]
    print(t[:4000])
    if not c or c[0] != b'OK':
        print('cleanup():', c and sx.pretty(c[:2]))
        return 1
    xb, xa = set(R.xref_errors(c[2])), set(R.xref_errors(c[3]))
    bad = oracle(S, l[1], c[1], xb, xa, bool(c[4]), consistent=not xb)
    print('definitions before:', {k: sorted(x) for k, x in R.definitions_in_dump(l[1], S).get(0, {}).items()})
    print('definitions after: ', {k: sorted(x) for k, x in R.definitions_in_dump(c[1], S).get(0, {}).items()})
    for cls, why in bad:
        print('VIOLATED [%s] %s' % (cls, why))
    if r.get('first_difference'):
        print('model/implementation difference recorded:', r['first_difference'])
    return 1 if bad or r.get('first_difference') else 0
