"""C04 grammar conformance: proof (Props/C04.v: shipped grammar = frozen reference grammar as Coq terms; one lemma per deviation
class) + correspondence of the grammar-interpreting parser model + oracle: every element kind with every optional sub-element
loads strictly without diagnostics in each version in which it exists; each single deviation gives its diagnostic class."""
import framework as fw
import sx
import docgen
from checks import docs, loadlib, loadcheck

PROP = 'C04'
TARGETS = ['theories/Proofs/GrammarObligations.v', 'theories/Proofs/ConformProofs.v', 'theories/Run/RunLoad.v']
RULE = ('exhaustive focus sweep: every block / keyword type under every distinct parent, with all optional sub-elements (shallow and deep), '
        'in every ASAP2 version in which it is reachable; every deviation class x many documents; random whole documents in the six versions; '
        'non-trivial = every sweep / deviation document; distinct = distinct text')
ASSUMPTIONS = ['the reference grammar is ref/a2l_171.dsl, the frozen copy of the specification DSL at the pinned commit, read through the in-tree DSL parser']
EXPECT = {
    'missing_required': {'InvalidMultiplicityNotPresent'},
    'duplicate_single': {'InvalidMultiplicityTooMany'},
    'block_as_keyword': {'IncorrectBlockError'},
    'keyword_as_block': {'IncorrectKeywordError'},
    'unknown_enum': {'InvalidEnumValue'},
    'too_new': {'BlockRefTooNew', 'EnumRefTooNew'},
    'deprecated': {'BlockRefDeprecated', 'EnumRefDeprecated'},
    'unknown_keyword': {'UnknownSubBlock'},
    'unknown_block': {'UnknownSubBlock'},
    'wrong_end_tag': {'IncorrectEndTag'},
    'trailing_tokens': {'AdditionalTokensError'},
    'ident_for_string': {'UnexpectedTokenType'},
    'digit_ident': {'InvalidIdentifier'},
    'missing_parameter': None,       # any error
}
WARN_ONLY = {'deprecated'}
HARD = {'block_as_keyword', 'keyword_as_block', 'unknown_enum', 'missing_parameter'}


def gen_cases(rng, tier):
    sp = docs.spec()
    cases = []
    plan = docgen.sweep_plan(sp, all_parents=True)
    for (ty, chain, version) in plan:
        for deep in ((True,) if tier == 'quick' else (True, 'deep')):
            try:
                opts = docgen.GenOptions(version=version, focus=ty, focus_chain=chain, all_optionals=deep, max_depth=5, max_repeat=1,
                                         p_optional=0.1, ifdata='unknown' if ty == 'IfData' else None, a2ml='simple' if ty == 'A2ml' else None)
                node = docgen.gen_tree(sp, rng, opts)
                docs.order_positions(node)
                text, toks = docgen.render(node, rng, docgen.Layout(mode='canonical'), sp)
            except Exception as e:
                cases.append({'text': '', 'strict': True, 'kind': 'sweep-unreachable', 'focus': ty, 'why': str(e)[:100]})
                continue
            cases.append({'text': text, 'strict': True, 'kind': 'sweep', 'focus': ty, 'version': list(version)})
    per_kind = 12 if tier == 'quick' else 600
    for kind in EXPECT:
        for j in range(per_kind):
            try:
                opts = docgen.GenOptions(max_depth=4, max_repeat=2, p_optional=0.35)
                dev = docgen.gen_deviation(sp, rng, kind, opts, docgen.Layout(mode=rng.choice(['canonical', 'random'])))
            except Exception:
                continue
            i = len(cases)
            cases.append({'text': dev.text, 'strict': True, 'kind': 'dev', 'dev': kind, 'tag': dev.desc.get('tag'), 'pair': i + 1})
            cases.append({'text': dev.text, 'strict': False, 'kind': 'dev-lenient', 'dev': kind, 'tag': dev.desc.get('tag'), 'pair': i})
    n = 60 if tier == 'quick' else 8000
    for i in range(n):
        node, text, toks = docs.random_doc(rng, size=rng.choice(['small', 'medium']))
        cases.append({'text': text, 'strict': True, 'kind': 'random'})
    # element types whose shipped code the translator could not account for: every order of their optional items and
    # every single item twice
    import copy
    for tname in sorted(set(f.get('type') for f in docs.TRANSLATION_FAILURES if f.get('type'))):
        ti = sp.info.get(tname)
        if ti is None:
            continue
        for j in range(40 if tier == 'quick' else 400):
            try:
                opts = docgen.GenOptions(version=rng.choice(docs.VERSIONS[-2:]), focus=tname, all_optionals=True, max_depth=4, max_repeat=1, p_optional=0.1)
                node = docgen.gen_tree(sp, rng, opts)
            except Exception:
                continue
            docs.order_positions(node)
            for tnode in [n_ for n_, _p in node.walk() if n_.type == tname][:1]:
                movable = [i_ for i_, k_ in enumerate(tnode.kids)
                           if k_.type and not k_.is_block and not sp.info[k_.type].greedy_tail and not sp.info[k_.type].special]
                perm = movable[:]
                rng.shuffle(perm)
                kids = list(tnode.kids)
                for a_, b_ in zip(movable, perm):
                    tnode.kids[a_] = kids[b_]
                try:
                    text, _ = docgen.render(node, rng, docgen.Layout(mode='canonical'), sp)
                except Exception:
                    tnode.kids = kids
                    continue
                cases.append({'text': text, 'strict': True, 'kind': 'sweep', 'focus': tname, 'version': list(opts.version)})
                singles = [i_ for i_ in movable if ti.item(tnode.kids[i_].tag) is not None and not ti.item(tnode.kids[i_].tag).repeat]
                if singles:
                    i_ = rng.choice(singles)
                    tnode.kids.insert(i_ + 1, copy.deepcopy(tnode.kids[i_]))
                    text2, _ = docgen.render(node, rng, docgen.Layout(mode='canonical'), sp)
                    tnode.kids.pop(i_ + 1)
                    k0 = len(cases)
                    cases.append({'text': text2, 'strict': True, 'kind': 'dev', 'dev': 'duplicate_single', 'tag': tnode.kids[i_].tag, 'pair': k0 + 1})
                    cases.append({'text': text2, 'strict': False, 'kind': 'dev-lenient', 'dev': 'duplicate_single', 'tag': tnode.kids[i_].tag, 'pair': k0})
                tnode.kids = kids
    return cases


def oracle(c, r, cases, res):
    if r.status in ('DIED', 'PANIC'):
        return 'panic / crash'
    k = c['kind']
    if k == 'sweep-unreachable':
        return 'the generator cannot reach element %s: %s' % (c['focus'], c['why'])
    if k in ('sweep', 'random'):
        if r.status != 'OK':
            return 'conforming document (focus %s) is rejected in strict mode: %s' % (c.get('focus'), sx.pretty(r.err)[1:5])
        if r.diags:
            return 'conforming document (focus %s) produces diagnostics: %s' % (c.get('focus'), [(d[1], d[3]) for d in r.diag_list()][:3])
        # "every value readable from the model": the values that the model hands back when it is written are the values of the
        # document, token by token (documents without IF_DATA and without reordered position-restricted items: those have known
        # findings of their own under C02 / C01)
        if 'IF_DATA' not in c['text'] and r.text1 is not None and not loadlib.reordered_blocks(r.node):
            tin, tout = loadlib.scan_tokens(c['text']), loadlib.scan_tokens(r.text1.decode('utf-8', 'replace'))
            if tin is not None and tout is not None:
                d = loadlib.first_token_difference(tin, tout)
                if d is not None:
                    return 'conforming document (focus %s): a value is not read as it stands in the document: %s' % (c.get('focus'), d[1])
        return None
    dev = c['dev']
    exp = EXPECT[dev]
    if k == 'dev':
        if dev in WARN_ONLY:
            if r.status != 'OK':
                return 'deprecated element makes strict loading fail: %s' % sx.pretty(r.err)[1:3]
            vs = {d[1] for d in r.diag_list()}
            if not (vs & exp):
                return 'deprecated element: no deprecation notice (diagnostics %s)' % sorted(vs)
            return None
        if r.status != 'ERR':
            return 'deviation %s is accepted in strict mode' % dev
        variant = loadlib.diag_key(r.err)[1]
        if exp is not None and variant not in exp:
            return 'deviation %s gives %s, expected one of %s' % (dev, variant, sorted(exp))
        return None
    # lenient
    if dev in HARD:
        if r.status != 'ERR':
            return None if dev == 'missing_parameter' else 'deviation %s is accepted in non-strict mode' % dev
        return None
    if dev == 'missing_required':
        if r.status == 'ERR':
            return None if loadlib.diag_key(r.err)[1] in exp else 'missing required element gives %s' % loadlib.diag_key(r.err)[1]
    if r.status != 'OK':
        return 'recoverable deviation %s makes non-strict loading fail: %s' % (dev, sx.pretty(r.err)[1:3])
    vs = {d[1] for d in r.diag_list()}
    if exp is not None and not (vs & exp):
        return 'deviation %s: expected a %s warning, got %s' % (dev, sorted(exp), sorted(vs))
    return None


def nontrivial_key(c, r):
    return hash(c['text']) if c['kind'] != 'random' else None


def distribution(cases, res):
    foc = {c['focus'] for c in cases if c['kind'] == 'sweep'}
    d = {}
    for c in cases:
        if c['kind'] == 'dev':
            d[c['dev']] = d.get(c['dev'], 0) + 1
    return {'element_kinds_swept': len(foc), 'sweep_documents': sum(1 for c in cases if c['kind'] == 'sweep'), 'deviations': d}


def check(tier, seed):
    import checks.c04 as me
    return loadcheck.run(me, tier, seed)


def replay(r):
    import checks.c04 as me
    return loadcheck.replay(r, me)
