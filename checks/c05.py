"""C05 layout preservation: proof (Props/C05.v) + correspondence of parser/writer models + oracle: in write(load(T)) every
significant token stands on the line it had in T (layout class of the property), and text in the writer's own format is
reproduced byte for byte."""
import re

import framework as fw
import sx
import docgen
from checks import docs, loadlib, loadcheck

PROP = 'C05'
TARGETS = ['theories/Proofs/TokenizerProofs.v', 'theories/Proofs/GrammarObligations.v', 'theories/Run/RunLoad.v']
RULE = ('valid documents in canonical element order with random line breaks / blank lines between tokens, block-level comments of both '
        'kinds, /begin and /end on the line of their tag, no raw line breaks in strings (documents outside this class are filtered out and '
        'counted); plus the written text of every document fed back (own format must be a byte-exact fixpoint); '
        'non-trivial = at least 10 lines; distinct = distinct text')
ASSUMPTIONS = ['line numbers are compared with an independent scanner that agrees with the hook tokenizer']


def in_class(toks, text):
    """layout class of the property"""
    for i, t in enumerate(toks):
        if t[0] in ('begin', 'end'):
            if i + 1 >= len(toks) or toks[i + 1][2] != t[2]:
                return False
        if t[0] == 'string' and '\n' in t[1]:
            return False
    return True


def gen_cases(rng, tier):
    cases = []
    n = 300 if tier == 'quick' else 8000
    tries = 0
    while len(cases) < n and tries < n * 6:
        tries += 1
        lay = docgen.Layout(mode=rng.choice(['canonical', 'random']), crlf=False, comments=rng.choice([None, 'block-level']))
        node, text, toks = docs.random_doc(rng, size=rng.choice(['tiny', 'small', 'small', 'medium']), layout=lay,
                                           ifdata=rng.choice([None, 'unknown', 'empty']), strings=['plain', 'empty', 'escapes', 'dquote', 'utf8'],
                                           a2ml=rng.choice([None, None, 'simple']))
        if '/end A2ML' in text and rng.random() < 0.7:
            # empty lines inside the A2ML text, also directly in front of the line of /end A2ML
            text = re.sub(r'\n([ \t]*)/end A2ML', lambda m: '\n' * rng.choice([1, 2, 3]) + m.group(1) + '/end A2ML', text, count=1)
        if rng.random() < 0.4:
            text = comment_runs(rng, text)
        st = loadlib.scan_tokens(text)
        if st is None or not in_class(st, text):
            continue
        cases.append({'text': text, 'strict': True, 'cycles': 1, 'kind': 'doc'})
    return cases


def comment_runs(rng, text):
    """runs of comments of both kinds in front of block-level elements, the last one optionally on the line of the element
    (`// a` / `/* b */ /begin X ..`): the placement the statement allows and a line-oriented generator rarely produces"""
    import re
    lines = text.split('\n')
    out = []
    for ln in lines:
        m = re.match(r'^(\s+)(/begin [A-Z_0-9]+|[A-Z][A-Z_0-9]+)\b', ln)
        if m and len(m.group(1)) >= 4 and rng.random() < 0.15 and '"' not in ln.split(m.group(2))[0]:
            ind = m.group(1)
            for _ in range(rng.choice([1, 1, 2, 3])):
                out.append(ind + (('// ' + rng.choice(['note', 'a b', 'x /* y', ''])) if rng.random() < 0.5
                                  else ('/* ' + rng.choice(['c', 'two words', '// inner', '*']) + ' */')))
            if rng.random() < 0.6:
                ln = ind + '/* ' + rng.choice(['k', 'same line', '//']) + ' */ ' + ln[len(ind):]
        out.append(ln)
    return '\n'.join(out)


def oracle(c, r, cases, res):
    if r.status in ('DIED', 'PANIC'):
        return 'panic / crash'
    if r.status != 'OK':
        return None
    text1 = r.text1.decode('utf-8', 'replace')
    tin = loadlib.scan_tokens(c['text'])
    tout = loadlib.scan_tokens(text1)
    if tin is None or tout is None or len(tin) != len(tout):
        return None if loadlib.reordered_blocks(r.node) else 'token count differs (C02)'
    if not loadlib.reordered_blocks(r.node):
        for i, (a, b) in enumerate(zip(tin, tout)):
            if a[2] != b[2]:
                return 'token %d (%s %r) moves from line %d to line %d' % (i, a[0], a[1][:30], a[2], b[2])
    # the writer's own format is a fixpoint, byte for byte
    if r.cycles:
        cy = r.cycles[0]
        if cy[0] == b'OK' and cy[2] != r.text1:
            return 'text in the writer\'s own format is not reproduced byte for byte'
    return None


def classify_known(c, why, r):
    return None


def nontrivial_key(c, r):
    return hash(c['text']) if c['text'].count('\n') >= 10 else None


def check(tier, seed):
    import checks.c05 as me
    return loadcheck.run(me, tier, seed)


def replay(r):
    import checks.c05 as me
    return loadcheck.replay(r, me)
