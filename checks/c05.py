"""C05 layout preservation: proof (Props/C05.v) + correspondence of parser/writer models + oracle: in write(load(T)) every
significant token stands on the line it had in T (layout class of the property), and text in the writer's own format is
reproduced byte for byte."""
import re

import framework as fw
import sx
import docgen
from checks import docs, loadlib, loadcheck

PROP = 'C05'
TARGETS = ['theories/Proofs/TokenizerProofs.v', 'theories/Proofs/GrammarObligations.v', 'theories/Proofs/LayoutProofs.v',
           'theories/Proofs/LineOffsetProofs.v', 'theories/Proofs/WriterFlagProofs.v', 'theories/Proofs/WriterUnitsProofs.v',
           'theories/Proofs/ParseTraceProofs.v', 'theories/Proofs/LinePreservationProofs.v', 'theories/Run/RunLoad.v', 'theories/Proofs/EditLocalityProofs.v',
           'theories/Proofs/IfdataLinesProofs.v', 'theories/Proofs/IfdataWriteLinesProofs.v', 'theories/Proofs/IfdataLinePreservationProofs.v',
           'theories/Proofs/IfdataUnknownLinesProofs.v', 'theories/Proofs/IfdataWriteAnyProofs.v', 'theories/Proofs/IfdataShapeProofs.v',
           'theories/Proofs/IfdataUnknownShapeProofs.v']
RULE = ('edit locality: a MODULE with 0..64 children of 8 kinds in mixed order x histories of 2..10 single-object edits through the API (push of a new object, long identifier changed, order-preserving removal, swap_remove) with the text written after every step - each step may change only the lines of its object; layout: valid documents in canonical element order with random line breaks / blank lines between tokens, block-level comments of both '
        'kinds, /begin and /end on the line of their tag, no raw line breaks in strings (documents outside this class are filtered out and '
        'counted); plus the written text of every document fed back (own format must be a byte-exact fixpoint); '
        'non-trivial = at least 10 lines; distinct = distinct text')
ASSUMPTIONS = ['line numbers are compared with an independent scanner that agrees with the hook tokenizer']


def in_class(toks, text):
    """layout class of the property"""
    for i, t in enumerate(toks):
        if t[0] in ('begin', 'end'):
            if i + 1 >= len(toks) or toks[i + 1][2] != t[2]:
                return False
        if t[0] == 'string' and '\n' in t[1]:
            return False
    return True


def marker_string_cases():
    """strings that contain comment markers, as the last parameter of a keyword or block with further tokens on the same line:
    the writer's bookkeeping of "the line ends in a // comment" must not take them for comments"""
    out = []
    hdr = 'ASAP2_VERSION 1 71\n/begin PROJECT p ""\n  /begin MODULE m ""\n'
    ftr = '  /end MODULE\n/end PROJECT\n'
    for st in ('km//h', 'http://example.com/spec', '/* x', '*/', '// tail', 'a /* b */ // c', '"" //', "'//'"):
        q = '"' + st.replace('"', '""') + '"'
        body = ('    /begin MEASUREMENT m1 "" UBYTE NO_COMPU_METHOD 0 0 0 255\n'
                '      PHYS_UNIT %s ECU_ADDRESS 0x1000\n'
                '      /begin ANNOTATION ANNOTATION_ORIGIN %s /end ANNOTATION\n'
                '      FORMAT %s /end MEASUREMENT\n'
                '    /begin MEASUREMENT m2 %s UBYTE NO_COMPU_METHOD 0 0 0 255 /end MEASUREMENT\n') % (q, q, q, q)
        out.append({'text': hdr + body + ftr, 'strict': True, 'cycles': 1, 'kind': 'marker-string'})
    return out


def gen_cases(rng, tier):
    cases = marker_string_cases()
    cases.append({'text': 'ASAP2_VERSION 1 71\n/begin PROJECT p ""\n  /begin MODULE m ""\n    /begin A2ML\n      block "IF_DATA" long; /end A2ML\n'
                          '    /begin MEASUREMENT m1 "" UBYTE NO_COMPU_METHOD 0 0 0 255\n    /end MEASUREMENT\n  /end MODULE\n/end PROJECT\n',
                  'strict': True, 'cycles': 1, 'kind': 'a2ml-end-same-line'})
    n = 300 if tier == 'quick' else 8000
    tries = 0
    while len(cases) < n and tries < n * 6:
        tries += 1
        lay = docgen.Layout(mode=rng.choice(['canonical', 'random']), crlf=False, comments=rng.choice([None, 'block-level']))
        node, text, toks = docs.random_doc(rng, size=rng.choice(['tiny', 'small', 'small', 'medium']), layout=lay,
                                           ifdata=rng.choice([None, 'unknown', 'empty']), strings=['plain', 'empty', 'escapes', 'dquote', 'utf8', 'mixed'],
                                           a2ml=rng.choice([None, None, 'simple']))
        if '/end A2ML' in text and rng.random() < 0.7:
            # empty lines inside the A2ML text, also directly in front of the line of /end A2ML
            text = re.sub(r'\n([ \t]*)/end A2ML', lambda m: '\n' * rng.choice([1, 2, 3]) + m.group(1) + '/end A2ML', text, count=1)
        if rng.random() < 0.4:
            text = comment_runs(rng, text)
        st = loadlib.scan_tokens(text)
        if st is None or not in_class(st, text):
            continue
        cases.append({'text': text, 'strict': True, 'cycles': 1, 'kind': 'doc'})
    return cases


def comment_runs(rng, text):
    """runs of comments of both kinds in front of block-level elements, the last one optionally on the line of the element
    (`// a` / `/* b */ /begin X ..`): the placement the statement allows and a line-oriented generator rarely produces"""
    import re
    lines = text.split('\n')
    out = []
    for ln in lines:
        m = re.match(r'^(\s+)(/begin [A-Z_0-9]+|[A-Z][A-Z_0-9]+)\b', ln)
        if m and len(m.group(1)) >= 4 and rng.random() < 0.15 and '"' not in ln.split(m.group(2))[0]:
            ind = m.group(1)
            for _ in range(rng.choice([1, 1, 2, 3])):
                out.append(ind + (('// ' + rng.choice(['note', 'a b', 'x /* y', ''])) if rng.random() < 0.5
                                  else ('/* ' + rng.choice(['c', 'two words', '// inner', '*']) + ' */')))
            if rng.random() < 0.6:
                ln = ind + '/* ' + rng.choice(['k', 'same line', '//']) + ' */ ' + ln[len(ind):]
        out.append(ln)
    return '\n'.join(out)


def oracle(c, r, cases, res):
    if r.status in ('DIED', 'PANIC'):
        return 'panic / crash'
    if r.status != 'OK':
        return None
    text1 = r.text1.decode('utf-8', 'replace')
    tin = loadlib.scan_tokens(c['text'])
    tout = loadlib.scan_tokens(text1)
    if tin is None or tout is None or len(tin) != len(tout):
        return None if loadlib.reordered_blocks(r.node) else 'token count differs (C02)'
    if not loadlib.reordered_blocks(r.node):
        for i, (a, b) in enumerate(zip(tin, tout)):
            if a[2] != b[2]:
                # (until repair 07b043a /end A2ML on the last line of the A2ML text was written on a line of its own - the witness is
                # the first case of gen_cases)
                return 'token %d (%s %r) moves from line %d to line %d' % (i, a[0], a[1][:30], a[2], b[2])
    # the writer's own format is a fixpoint, byte for byte
    if r.cycles:
        cy = r.cycles[0]
        if cy[0] == b'OK' and cy[2] != r.text1:
            return 'text in the writer\'s own format is not reproduced byte for byte'
    return None


def classify_known(c, why, r):
    return None


def nontrivial_key(c, r):
    return hash(c['text']) if c['text'].count('\n') >= 10 else None


# ---------------------------------------------------------------------------------------------- edit locality
EDIT_KINDS = {2: 'CHARACTERISTIC', 3: 'COMPU_METHOD', 8: 'FUNCTION', 9: 'GROUP', 11: 'MEASUREMENT', 19: 'UNIT', 5: 'COMPU_VTAB', 7: 'FRAME'}
EDIT_TEXT = {
    2: '/begin CHARACTERISTIC %s "" VALUE 0 rl 0 NO_COMPU_METHOD 0 1\n%s/end CHARACTERISTIC',
    3: '/begin COMPU_METHOD %s "" IDENTICAL "%%4.2" ""\n%s/end COMPU_METHOD',
    5: '/begin COMPU_VTAB %s "" TAB_VERB 1\n%s  1 "one"\n%s/end COMPU_VTAB',
    7: '/begin FRAME %s "" 1 1\n%s/end FRAME',
    8: '/begin FUNCTION %s ""\n%s/end FUNCTION',
    9: '/begin GROUP %s ""\n%s/end GROUP',
    11: '/begin MEASUREMENT %s "" UBYTE NO_COMPU_METHOD 0 0 0 255\n%s/end MEASUREMENT',
    19: '/begin UNIT %s "" "" DERIVED\n%s/end UNIT',
}


def edit_cases(rng, tier):
    """(text, ops): a MODULE with 0..64 children of mixed kinds in mixed order, each on lines of its own, and a history of
    two to ten single-object edits (half of the histories start with several new objects of the same kind)"""
    out = []
    n = 40 if tier == 'quick' else 2500
    for i in range(n):
        k = rng.choice([0, 1, 3, 6, 12, 19, 20, 21, 24, 32, 40, 64])
        ind = '    '
        names = {}
        body = []
        # a third of the documents are "dense": comments between the objects, objects that share a line with their neighbour
        # or with the /end of the MODULE (only the token oracle applies to them, see extra_stage)
        dense = i % 3 == 2
        if dense:
            k = min(k, 12)
        for j in range(k):
            kind = rng.choice(sorted(EDIT_KINDS))
            name = 'e%02d' % j
            names.setdefault(kind, []).append(name)
            t = EDIT_TEXT[kind]
            el = t % ((name,) + (ind,) * (t.count('%s') - 1))
            if dense:
                el = el.replace('\n', rng.choice(['\n', ' ', ' ']))
                sep = rng.choice(['\n', '\n', ' ', '\n// note %d\n' % j, '\n/* note %d */ ' % j, '\n  // a\n  // b\n', ' /* c */ '])
                body.append(sep + ind + el)
            else:
                body.append('\n' * rng.choice([1, 1, 2, 3]) + ind + el)
        end_sep = rng.choice([' ', '\n', '\n// last\n', ' /* last */ ']) if dense else '\n'
        text = 'ASAP2_VERSION 1 71\n/begin PROJECT p ""\n  /begin MODULE m ""' + ''.join(body) + end_sep + '  /end MODULE\n/end PROJECT\n'
        ops = []
        fresh = 0
        heavy = rng.random() < 0.5         # several new objects of one kind, then further edits
        for step in range(rng.randrange(5, 11) if heavy else rng.randrange(2, 6)):
            present = [(kd, nm) for kd, l in names.items() for nm in l]
            what = rng.choice(['push', 'push', 'push', 'set', 'remove', 'swapremove']) if present else 'push'
            if heavy and step < 6:
                what = 'push'
            if what == 'push':
                kd = rng.choice(sorted(EDIT_KINDS)) if rng.random() < (0.15 if heavy else 0.5) or not ops else ops[-1][1]
                nm = 'new%d' % fresh
                fresh += 1
                names.setdefault(kd, []).append(nm)
                ops.append(['push', kd, nm])
            elif what == 'set':
                kd, nm = rng.choice(present)
                ops.append(['set', kd, nm, 'edited %d' % step])
            else:
                kd, nm = rng.choice(present)
                if what == 'swapremove' and any(x.startswith('new') for x in names[kd]):
                    # swap_remove moves the last element of the list into the gap; among objects created through the API (which
                    # have no position in the file yet) the list order IS the output order, so in a list that holds such objects
                    # that call moves another object by its own contract.  Objects that came from the file keep their place
                    # whatever the list order is: there swap_remove is used.
                    what = 'remove'
                names[kd].remove(nm)
                ops.append([what, kd, nm])
        out.append((text, ops, dense))
    # an object that shares its line with what follows it and stands behind a // comment: when it is removed, the writer must
    # not put the next token on the line of the comment
    for kd in sorted(EDIT_KINDS):
        t = EDIT_TEXT[kd]
        one = lambda nm: (t % ((nm,) + ('',) * (t.count('%s') - 1))).replace('\n', ' ')
        head = 'ASAP2_VERSION 1 71\n/begin PROJECT p ""\n  /begin MODULE m ""\n    ' + one('first') + '\n'
        for cm in ('    // last comment\n', '    /* c */ // tail\n', '    // one\n    // two\n'):
            out.append((head + cm + '    ' + one('victim') + ' /end MODULE\n/end PROJECT\n', [['remove', kd, 'victim']], True))
            out.append((head + cm + '    ' + one('victim') + ' ' + one('next') + '\n  /end MODULE\n/end PROJECT\n',
                        [['remove', kd, 'victim'], ['remove', kd, 'next']], True))
            out.append((head.replace('\n', '\r\n') + cm.replace('\n', '\r\n') + '    ' + one('victim') + ' ' + one('next') + '\r\n  /end MODULE\r\n/end PROJECT\r\n',
                        [['remove', kd, 'victim']], True))
    return out


def _span(toks, tag, name):
    """(i, j): token indices of /begin TAG name .. /end TAG"""
    for i in range(len(toks) - 2):
        if toks[i][0] == 'begin' and toks[i + 1][1] == tag and toks[i + 2][1] == name:
            for j in range(i + 3, len(toks) - 1):
                if toks[j][0] == 'end' and toks[j + 1][1] == tag:
                    return i, j + 1
    return None


def token_effect(before, after, op):
    """None if the significant tokens of the output changed by exactly the tokens of the object of the edit"""
    from checks import loadlib
    a, b = loadlib.scan_tokens(before), loadlib.scan_tokens(after)
    if a is None or b is None:
        return 'the output cannot be cut into tokens'
    a = [(t[0], t[1]) for t in a]
    b = [(t[0], t[1]) for t in b]
    tag = EDIT_KINDS[op[1]]
    if op[0] == 'push':
        sp = _span(b, tag, op[2])
        if sp is None:
            return 'the tokens of the new %s %s are not in the output' % (tag, op[2])
        rest = b[:sp[0]] + b[sp[1] + 1:]
        if rest != a:
            k = next((i for i, (x, y) in enumerate(zip(rest, a)) if x != y), min(len(rest), len(a)))
            return 'adding %s %s changes other tokens: token %d was %r, is %r' % (tag, op[2], k, a[k] if k < len(a) else None, rest[k] if k < len(rest) else None)
        return None
    sp = _span(a, tag, op[2])
    if sp is None:
        return None
    if op[0] in ('remove', 'swapremove'):
        rest = a[:sp[0]] + a[sp[1] + 1:]
        if rest != b:
            k = next((i for i, (x, y) in enumerate(zip(rest, b)) if x != y), min(len(rest), len(b)))
            return 'removing %s %s changes other tokens: token %d was %r, is %r' % (tag, op[2], k, rest[k] if k < len(rest) else None, b[k] if k < len(b) else None)
        return None
    if len(a) != len(b):
        return 'changing a field of %s %s changes the number of tokens (%d -> %d)' % (tag, op[2], len(a), len(b))
    for i, (x, y) in enumerate(zip(a, b)):
        if x != y and not (sp[0] <= i <= sp[1]):
            return 'changing a field of %s %s changes token %d outside of it: %r -> %r' % (tag, op[2], i, x, y)
    return None


def element_lines(lines, tag, name):
    """(first, last) line index of /begin TAG name .. /end TAG, or None"""
    import re
    start = None
    for i, ln in enumerate(lines):
        if start is None and re.search(r'/begin\s+%s\s+%s(\s|$)' % (tag, re.escape(name)), ln):
            start = i
        if start is not None and re.search(r'/end\s+%s(\s|$)' % tag, ln):
            return start, i
    return None


def locality(before, after, op):
    """None if the step changed only lines that belong to the object of the edit"""
    import difflib
    a, b = before.split('\n'), after.split('\n')
    tag = EDIT_KINDS[op[1]]
    opcodes = [o for o in difflib.SequenceMatcher(None, a, b, autojunk=False).get_opcodes() if o[0] != 'equal']
    if op[0] == 'push':
        rng_ = element_lines(b, tag, op[2])
        if rng_ is None:
            return 'the new %s %s is not in the output' % (tag, op[2])
        # everything outside the lines of the new object (and the blank lines in front of it) is as before
        lo = rng_[0]
        while lo > 0 and b[lo - 1].strip() == '':
            lo -= 1
        rest = b[:lo] + b[rng_[1] + 1:]
        if rest != a:
            k = next((i for i, (x, y) in enumerate(zip(rest, a)) if x != y), min(len(rest), len(a)))
            return 'adding %s %s changes other lines: line %d was %r, is %r' % (tag, op[2], k + 1, a[k] if k < len(a) else None, rest[k] if k < len(rest) else None)
        return None
    if op[0] in ('remove', 'swapremove'):
        rng_ = element_lines(a, tag, op[2])
        if rng_ is None:
            return None
        lo = rng_[0]
        while lo > 0 and a[lo - 1].strip() == '':
            lo -= 1
        cands = [a[:l] + a[rng_[1] + 1:] for l in range(lo, rng_[0] + 1)]
        if b not in cands:
            rest = cands[0]
            k = next((i for i, (x, y) in enumerate(zip(rest, b)) if x != y), min(len(rest), len(b)))
            return 'removing %s %s changes other lines: around output line %d: %r' % (tag, op[2], k + 1, b[k] if k < len(b) else None)
        return None
    # set
    rng_ = element_lines(a, tag, op[2])
    if rng_ is None:
        return None
    if len(a) != len(b):
        return 'changing a field of %s %s changes the number of lines (%d -> %d)' % (tag, op[2], len(a), len(b))
    for i, (x, y) in enumerate(zip(a, b)):
        if x != y and not (rng_[0] <= i <= rng_[1]):
            return 'changing a field of %s %s changes line %d, which does not belong to it: %r -> %r' % (tag, op[2], i + 1, x, y)
    return None


def extra_stage(v, tier, rng, impl):
    ecs = edit_cases(rng, tier)
    lines = [sx.enc([t, ops]) for t, ops, dense in ecs]
    out = fw.run_isolating([impl, 'EDIT'], lines, single_timeout=60)
    found, steps, big = [], 0, 0
    for (text, ops, dense), line_in, line in zip(ecs, lines, out):
        if line is None or line.startswith('DIED'):
            found.append({'payload': {'kind': 'EDIT', 'case': line_in, 'text': text, 'ops': ops, 'why': 'implementation died', 'stage': 'W (edit locality)'}})
            continue
        r = sx.dec(line)
        if r[0] != b'OK':
            found.append({'payload': {'kind': 'EDIT', 'case': line_in, 'text': text, 'ops': ops, 'why': 'EDIT: %s' % r[0].decode(), 'stage': 'W (edit locality)'}})
            continue
        texts = [x.decode('utf-8', 'replace') for x in r[1:]]
        if text.count('/begin') > 22:
            big += 1
        for i, op in enumerate(ops):
            steps += 1
            why = token_effect(texts[i], texts[i + 1], op) or (None if dense else locality(texts[i], texts[i + 1], op))
            if why:
                found.append({'payload': {'kind': 'EDIT', 'case': line_in, 'text': text, 'ops': ops, 'step': i, 'why': why, 'dense': dense,
                                          'stage': 'W (edit locality)'}})
                break
    v.coverage['edit_histories'] = len(ecs)
    v.coverage['edit_histories_dense_layout'] = sum(1 for e in ecs if e[2])
    v.coverage['edit_steps'] = steps
    v.coverage['edit_histories_with_more_than_20_children'] = big
    v.coverage['edit_locality_failures'] = len(found)
    return found


def check(tier, seed):
    import checks.c05 as me
    return loadcheck.run(me, tier, seed)


def replay(r):
    import checks.c05 as me
    if r.get('kind') == 'EDIT':
        impl = fw.build_harness()
        a = sx.dec(fw.run_single([impl, 'EDIT'], r['case'], timeout=120))
        if a[0] != b'OK':
            print('implementation:', a[0].decode())
            return 1
        texts = [x.decode('utf-8', 'replace') for x in a[1:]]
        rc = 0
        for i, op in enumerate(r['ops']):
            why = token_effect(texts[i], texts[i + 1], op) or (None if r.get('dense') else locality(texts[i], texts[i + 1], op))
            print('step %d %s: %s' % (i, op, why or 'only lines / tokens of the object change'))
            rc = rc or (1 if why else 0)
        return rc
    return loadcheck.replay(r, me)
