"""Probes that observe, on the real implementation, what check() / merge_modules() / cleanup() do at every reference
site instance of the grammar (ref/sites.json lists them; 60 (site, parent) instances).  Each probe returns, per
instance, the observed outcome counts and ONE concrete input per outcome, so that a disagreement with the table can be
reported with a failing input.  (Derived from ref/experiments.py, which prints the full tables.)"""
import copy
import random
import re

import docgen
from checks import docs
from checks import reflib as R

_state = {}


def sites():
    if 'sites' not in _state:
        _state['sites'] = R.load_sites()
        _state['inst'] = R.ref_site_instances(_state['sites'])
    return _state['sites']


def instances():
    sites()
    return _state['inst']


def inst_key(sid, parent):
    return '%s@%s' % (sid, parent)


def render(node, rng):
    return docgen.render(node, rng, docgen.Layout(), docs.spec())[0]


def plain(ref):
    return ref.target not in ref.entry.get('special', []) and not ref.target.startswith('THIS.')


def inst_of(ref):
    return inst_key(ref.site, ref.parent_type)


def gen_docs(seed, per_instance, single_module, sizes=('small', 'small', 'medium'), **kw):
    rng = random.Random(seed)
    out = []
    S = sites()
    for rep in range(per_instance):
        for sid, holder, field, parent in instances():
            node, text, refs = R.gen_consistent_doc(rng, sizes[rep % len(sizes)], S, focus=(holder, parent),
                                                    single_module=single_module, **kw)
            out.append((node, text, refs, inst_key(sid, parent)))
    return out


# ------------------------------------------------------------------------------------------------ check()
def probe_check(seed, per=2, docs_=None):
    """{inst: {'n', 'detected', 'reports', 'cases': [(text, bogus, detected?)]}}: one reference of a consistent document is
    redirected to a name that nothing defines; does check() report a CrossReferenceError naming it?"""
    S = sites()
    rng = random.Random(seed)
    docs_ = docs_ or gen_docs(seed + 1, per, False)
    cases, per_n = [], {}
    for node, text, refs, focus in docs_:
        todo = {}
        for ref in refs:
            if plain(ref):
                todo.setdefault(inst_of(ref), []).append(ref)
        for k in sorted(todo):
            if per_n.get(k, 0) >= per:
                continue
            ref = rng.choice(todo[k])
            bogus = 'zz_missing_%d' % len(cases)
            R.corrupt(node, ref, bogus)
            t = render(node, rng)
            R.restore(node, ref)
            cases.append((k, bogus, t))
            per_n[k] = per_n.get(k, 0) + 1
    res = R.run_cases('CHECK', [R.check_case(c[2]) for c in cases])
    table = {}
    for (k, bogus, t), r in zip(cases, res):
        row = table.setdefault(k, {'n': 0, 'detected': 0, 'reports': 0, 'panic': 0, 'types': set(), 'cases': []})
        row['n'] += 1
        if r is None or r[0] != b'OK':
            row['panic'] += 1
            row['cases'].append((t, bogus, 'PANIC' if r is not None and r[0] == b'PANIC' else 'FAIL'))
            continue
        hit = [e for e in R.xref_errors(r[1]) if e[3] == bogus]
        if hit:
            row['detected'] += 1
            row['reports'] += len(hit)
            for e in hit:
                st = re.sub(r'\[\d+\]', '[<idx>]', e[0])
                if st.startswith('STRUCTURE_COMPONENT '):
                    st = 'STRUCTURE_COMPONENT <component> of TYPEDEF_STRUCTURE'
                row['types'].add((st, e[2]))
        row['cases'].append((t, bogus, bool(hit)))
    return table


# ------------------------------------------------------------------------------------------------ merge
def find_def(node, ns, name):
    for nm, t, el in R.tree_definitions(node, sites())[0].get(ns, []):
        if nm == name:
            return el
    return None


def build_a(rng, node_b, ns, name):
    """destination file that holds only a same-name / different-content twin of B's definition"""
    el = find_def(node_b, ns, name)
    if el is None:
        return None
    a = R.minimal_doc(rng, node_b.version() or (1, 71))
    ix = R._index(sites())
    cont = R._container(a, rng, R._modules(a)[0], ix, ns, True)
    if cont is None:
        return None
    twin = copy.deepcopy(el)
    try:
        R.mutate_content(a, rng, twin)
    except ValueError:
        return None
    R.insert_kid(a, rng, cont, twin)
    return a


SELF_NAMED = ('VarCharacteristic.name',)      # the reference is at the same time the name of its holder


def probe_merge(seed, per=2):
    """{inst: {'renamed'|'retargeted'|'same-name'|'referrer-missing'|'other': n, 'cases': [(textA, textB, target, outcome)]}}:
    B refers to X at the site, A holds a different X; what does the referrer from B name after the merge?"""
    S = sites()
    docs_ = gen_docs(seed + 1, per + 1, True, p_special=0.0, p_this=0.0)
    rng = random.Random(seed)
    cases, per_n = [], {}
    for node, text, refs, focus in docs_:
        todo = {}
        for ref in refs:
            own = ref.owner()
            if plain(ref) and not (own and own[1] == ref.target and ref.site not in SELF_NAMED) and ref.entry['ns'] not in ('VCVAL',):
                todo.setdefault(inst_of(ref), []).append(ref)
        for k in sorted(todo):
            if per_n.get(k, 0) >= per:
                continue
            ref = rng.choice(todo[k])
            a = build_a(rng, node, ref.entry['ns'], ref.target)
            if a is None:
                continue
            cases.append((k, ref.entry['ns'], ref.target, R.path_in_module(ref.path()), ref.index, render(a, rng), text))
            per_n[k] = per_n.get(k, 0) + 1
    res = R.run_cases('MERGE', [R.merge_case(c[5], c[6]) for c in cases])
    table = {}
    for (k, ns, target, pim, index, ta, tb), r in zip(cases, res):
        row = table.setdefault(k, {'cases': []})
        if r is None or r[0] != b'OK':
            out = 'fail'
        else:
            defs = R.definitions_in_dump(r[1], S).get(0, {}).get(ns, {})
            renamed_exists = (target + '.MERGE') in defs
            site = k.split('@')[0]
            allrefs = [d for d in R.references_in_dump(r[1], S, detail=True) if d[0] == site]
            if site in SELF_NAMED:
                pim_new = (pim[:-len(target) - 1] + target + '.MERGE]') if pim.endswith('[' + target + ']') else pim
                found = [d for d in allrefs if R.path_in_module(d[1]) in (pim, pim_new) and d[4] == index]
            else:
                found = [d for d in allrefs if R.path_in_module(d[1]) == pim and d[4] == index]
            if not found:
                out = 'referrer-missing'
            elif found[0][2] == target + '.MERGE':
                out = 'renamed'
            elif found[0][2] == target:
                out = 'retargeted' if renamed_exists else 'same-name'
            else:
                out = 'other:' + found[0][2]
        row[out] = row.get(out, 0) + 1
        row['cases'].append((ta, tb, target, out))
    return table


# ------------------------------------------------------------------------------------------------ cleanup
PRUNED = ('GROUP', 'FUNCTION', 'CM', 'CT', 'UNIT', 'RL')


def find_in_module(module, ns, name, ix):
    for el in R._module_defs(ix, module).get(ns, []):
        if el.fields[0].text == name:
            return el
    return None


def probe_cleanup(seed, per=2):
    """{inst: {'kept'|'DELETED'|'deleted-with-owner': n, 'new_xref', 'not_idempotent', 'cases': [(text, helper, outcome)]}}:
    a helper element (without content of its own) is referenced only through the site; does cleanup() keep it?"""
    S = sites()
    rng = random.Random(seed)
    ix = R._index(S)
    docs_ = gen_docs(seed + 1, per + 1, False, p_special=0.0, p_this=0.0)
    cases, per_n = [], {}
    for node, text, refs, focus in docs_:
        todo = {}
        for ref in refs:
            if plain(ref) and ref.entry['ns'] in PRUNED:
                todo.setdefault(inst_of(ref), []).append(ref)
        for k in sorted(todo):
            if per_n.get(k, 0) >= per:
                continue
            ref = rng.choice(todo[k])
            ns = ref.entry['ns']
            old = find_in_module(ref.module, ns, ref.target, ix)
            if old is None:
                continue
            wnode, wref = copy.deepcopy((node, ref))
            helper_name = 'only_here_%d' % len(cases)
            cont = R._container(wnode, rng, wref.module, ix, ns, True)
            helper = R.new_element(wnode, rng, old.type, cont.type, name=helper_name)
            if helper is None:
                continue
            R.insert_kid(wnode, rng, cont, helper)
            R.corrupt(wnode, wref, helper_name)
            if R.dangling(wnode, S):
                continue
            own = wref.owner()
            cases.append((k, ns, helper_name, wref.module_index, render(wnode, rng),
                          (ix.def_field[own[0]][0], own[1]) if own else None))
            per_n[k] = per_n.get(k, 0) + 1
    res = R.run_cases('CLEANUP', [R.check_case(c[4]) for c in cases])
    table = {}
    for (k, ns, helper, mi, text, own), r in zip(cases, res):
        row = table.setdefault(k, {'cases': []})
        if r is None or r[0] != b'OK':
            out = 'fail'
        else:
            alld = R.definitions_in_dump(r[1], S).get(mi, {})
            defs = alld.get(ns, {})
            owner_alive = own is None or own[1] in alld.get(own[0], {})
            out = 'kept' if helper in defs else ('DELETED' if owner_alive else 'deleted-with-owner')
            before, after = set(R.xref_errors(r[2])), set(R.xref_errors(r[3]))
            if after - before:
                row['new_xref'] = row.get('new_xref', 0) + 1
            if not r[4]:
                row['not_idempotent'] = row.get('not_idempotent', 0) + 1
        row[out] = row.get(out, 0) + 1
        row['cases'].append((text, helper, out))
    return table


def twin_pairs(seed, per=1):
    """[(instance, textA, textB)]: A is a copy of B in which ONLY the definition that a reference at the site names got
    different content - the referrer itself is textually identical in both files (the case in which a merge must not
    simply share A's referrer)."""
    S = sites()
    docs_ = gen_docs(seed + 1, per, True, p_special=0.0, p_this=0.0)
    rng = random.Random(seed)
    out, per_n = [], {}
    for node, text, refs, focus in docs_:
        todo = {}
        for ref in refs:
            own = ref.owner()
            if plain(ref) and not (own and own[1] == ref.target) and ref.entry['ns'] in R.RENAMING_NS:
                todo.setdefault(inst_of(ref), []).append(ref)
        for k in sorted(todo):
            if per_n.get(k, 0) >= per:
                continue
            ref = rng.choice(todo[k])
            a = copy.deepcopy(node)
            el = find_def(a, ref.entry['ns'], ref.target)
            if el is None:
                continue
            try:
                R.mutate_content(a, rng, el)
            except ValueError:
                continue
            out.append((k, render(a, rng), text))
            per_n[k] = per_n.get(k, 0) + 1
    return out
