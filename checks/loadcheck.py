"""Common skeleton of the checks that run the load/write pipeline (C01-C07, C20):
   stage T (grammar translators -> Gen/*.v), stage P (proofs), stage C (implementation vs extracted parser /
   writer model on the same documents), stage W (property oracle on the implementation's outputs)."""
import os
import time
import framework as fw
import sx
from checks import docs, loadlib

GEN_V = os.path.join(fw.COQ, 'theories', 'Gen')


def stage_t(v):
    """regenerate the grammar terms from the current sources; returns dict(ok, what, detail)"""
    ok, detail = docs.translate_shipped()
    info = {'ok': True}
    if not ok:
        info = {'ok': False, 'what': 'tools/spec_from_generated.py: the shipped generated code is not an instance of the code template', 'detail': detail}
    # Coq terms (rewritten only when their content changes)
    rc, out = fw.sh('python3 tools/spec_to_coq.py build/gen/spec_shipped.json coq/theories/Gen/SpecShipped.v spec_shipped && '
                    'python3 tools/writer_to_coq.py build/gen/spec_shipped.json coq/theories/Gen/WriterShipped.v', cwd=fw.VERIF, timeout=300)
    if rc != 0 and info['ok']:
        info = {'ok': False, 'what': 'spec_to_coq / writer_to_coq', 'detail': out[-2000:]}
    # the DSL side through the repository's own DSL parser
    sd = os.path.join(fw.BUILD, 'cargo-target-specdump', 'release', 'specdump')
    rc, out = fw.sh('cargo build --offline --release', cwd=os.path.join(fw.VERIF, 'harness', 'specdump'), timeout=1200)
    if rc == 0:
        rc, out = fw.sh('%s a2l /repo/a2lfile/src/specification_orig.rs build/gen/spec_dsl.json && '
                        '%s a2l ref/a2l_171.dsl build/gen/spec_ref.json && '
                        'python3 tools/spec_to_coq.py build/gen/spec_dsl.json coq/theories/Gen/SpecDsl.v spec_dsl && '
                        'python3 tools/spec_to_coq.py build/gen/spec_ref.json coq/theories/Gen/SpecRef.v spec_ref' % (sd, sd),
                        cwd=fw.VERIF, timeout=600)
    if rc != 0 and info['ok']:
        info = {'ok': False, 'what': 'specdump (in-tree DSL parser) failed', 'detail': out[-2000:]}
    v.coverage['translators'] = 'spec_from_generated.py, specdump, spec_to_coq.py, writer_to_coq.py re-run on the working tree'
    return info


def run(mod, tier, seed):
    prop = mod.PROP
    v = fw.Verdict(prop, tier, seed)
    rng = fw.rng_for(seed, prop)
    known = fw.load_known_findings().get(prop, {})
    t_info = stage_t(v)
    ok_p, p_info = fw.proof_stage(v, prop, mod.TARGETS, getattr(mod, 'EXTRA_ALLOWED_ASSUMPTIONS', ()),
                                  closed_obligations=getattr(mod, 'CLOSED_OBLIGATIONS', 0))
    model_exe = None
    model_err = None
    try:
        ok_m, log_m = fw.coq_make(['theories/Run/RunLoad.v'])
        if not ok_m:
            raise fw.CheckFailure('model does not compile:\n' + log_m[-2000:])
        model_exe = fw.build_model('LOAD')
    except fw.CheckFailure as e:
        model_err = str(e)
    impl = fw.build_harness()
    # cases: list of dicts with keys text, strict, spec, cycles + whatever the oracle needs
    cases = mod.gen_cases(rng, tier)
    tuples = [(c['text'], c.get('strict', False), c.get('spec'), c.get('cycles', 0)) for c in cases]
    t1 = time.time()
    res, lines = loadlib.run_impl(tuples, impl)
    mism = []
    line_failures = []
    if model_exe:
        mout, _ = loadlib.run_model(tuples, res, model_exe)
        for i, (r, m) in enumerate(zip(res, mout)):
            d = loadlib.compare(r, m)
            if d is not None:
                mism.append((i, d))
                if getattr(mod, 'DIAG_LINES_ARE_PROPERTY', False):
                    dl = loadlib.diag_line_difference(r, m)
                    if dl is not None:
                        line_failures.append((i, 'diagnostic %s carries line %s, but the problem is detected at the token on line %s '
                                                 '(position of the last token taken: theorem C06_diagnostic_position)' % dl))
    t_corr = time.time() - t1
    # the executable side of the round-trip theorem (Run/RunRT.v): on every block of every loaded document that meets the
    # theorem's condition, tokenizer(writer(block)) = wtoks(block) (the half that is not proved) and the theorem's conclusion
    rt_info, rt_bad = None, []
    if model_exe and getattr(mod, 'ROUNDTRIP_STAGE', False):
        try:
            ok_r, log_r = fw.coq_make(['theories/Run/RunRT.v'])
            if not ok_r:
                raise fw.CheckFailure('RunRT does not compile:\n' + log_r[-1500:])
            rt_exe = fw.build_model('RT')
            _, mlines = loadlib.run_model(tuples, res, '/bin/true') if False else (None, None)
            mlines = [sx.enc([t, 1 if s_ else 0, [sp] if sp else [], 0, r.ftab if r.ftab is not None else []])
                      for (t, s_, sp, cyc), r in zip(tuples, res)]
            rout = fw.run_sharded([rt_exe], mlines)
            tot = {'documents': 0, 'blocks': 0, 'conforming_blocks': 0, 'lexical_mismatches': 0, 'statement_mismatches': 0,
                   'elements': 0, 'elements_meeting_the_condition_of_the_load_write_theorem': 0}
            for i, line in enumerate(rout):
                if not line or line.startswith('DIED'):
                    continue
                a = sx.dec(line)
                if a and a[0] == b'OK':
                    tot['documents'] += 1
                    tot['blocks'] += a[1]
                    tot['conforming_blocks'] += a[2]
                    tot['lexical_mismatches'] += a[3]
                    tot['statement_mismatches'] += a[4]
                    if len(a) > 8:
                        tot['elements'] += a[7]
                        tot['elements_meeting_the_condition_of_the_load_write_theorem'] += a[8]
                    if a[3] or a[4]:
                        rt_bad.append((i, 'lexical %d, statement %d, first in %s' % (a[3], a[4], [x.decode() for x in a[5]])))
            rt_info = tot
        except fw.CheckFailure as e:
            rt_info = {'error': str(e)[:500]}
            rt_bad.append((0, 'round-trip evaluation could not be built: ' + str(e)[:300]))
    failures = []
    for i, c in enumerate(cases):
        why = mod.oracle(c, res[i], cases, res)
        if why is not None:
            failures.append((i, why))
    failures += line_failures
    keys = set()
    for i, c in enumerate(cases):
        k = mod.nontrivial_key(c, res[i])
        if k is not None:
            keys.add(k)
    status = {}
    for r in res:
        status[r.status] = status.get(r.status, 0) + 1
    v.coverage.update({
        'evaluations': len(cases), 'distinct_nontrivial': len(keys), 'rule': mod.RULE,
        'samples': [{'strict': c.get('strict', False), 'kind': c.get('kind'), 'text': c['text'][:400]} for c in cases[:2]],
        'traces_validated_against_impl': len(cases) - len(mism) if model_exe else 0,
        'correspondence_mismatches': len(mism), 'oracle_failures': len(failures),
        'correspondence_wall_s': round(t_corr, 1),
        'roundtrip_theorem_evaluation': rt_info,
        'input_distribution': dict(status=status, **(mod.distribution(cases, res) if hasattr(mod, 'distribution') else {})),
        'trusted_base': list(getattr(mod, 'TRUSTED_BASE', [])) + [
            'translators tools/spec_from_generated.py (token-pattern recogniser of the generated code, fails on anything it cannot account for) and harness/specdump (the repository\'s own DSL parser linked as ordinary code)',
            'float text <-> f64 conversions of Rust std are an oracle table computed by the implementation for the lexemes of each case',
            'extraction (ExtrOcamlBasic, ExtrOcamlString) for the model side of the differential'],
    })
    v.assumptions = list(getattr(mod, 'ASSUMPTIONS', []))

    reported = 0
    seen = set()
    for i, why in failures:
        key = mod.classify_known(cases[i], why, res[i]) if hasattr(mod, 'classify_known') else None
        if key is not None and key in known:
            v.known(key, known[key])
            continue
        import re
        cls = (key, re.sub(r'[0-9]+', 'N', why)[:50])
        if cls in seen or reported >= 3:
            continue
        seen.add(cls)
        case = cases[i]
        if hasattr(mod, 'shrink'):
            case = mod.shrink(case, impl)
        v.violation('input', {'kind': 'LOAD', 'prop_case': {k: case[k] for k in case if k != 'aux'},
                              'case': sx.enc([case['text'], 1 if case.get('strict') else 0, [case['spec']] if case.get('spec') else [], case.get('cycles', 0)]),
                              'why': why, 'stage': 'W (property oracle on the implementation)'})
        reported += 1
    if hasattr(mod, 'extra_stage'):
        for ex in mod.extra_stage(v, tier, rng, impl):
            key = ex.get('known_key')
            if key is not None and key in known:
                v.known(key, known[key])
                continue
            if reported >= 3:
                continue
            v.violation('input', ex['payload'])
            reported += 1
    if reported == 0:
        if not t_info.get('ok', True):
            v.violation('translate', {'stage': 'T', 'broken': t_info.get('what'), 'detail': t_info.get('detail')}, no_input=True)
        if not ok_p:
            v.violation('proof', {'stage': 'P', 'broken_obligation': p_info.get('failing'), 'problems': p_info.get('problems'),
                                  'forbidden_constructs': p_info.get('forbidden'), 'log_tail': p_info.get('log', '')}, no_input=True)
        if model_err:
            v.violation('model', {'stage': 'C', 'broken': 'model build', 'detail': model_err}, no_input=True)
        elif rt_bad and not mism:
            i, d = rt_bad[0]
            v.violation('correspondence', {'stage': 'C', 'broken': 'the tie of theorem C01_parser_rebuilds_what_the_writer_emits to the writer: on a block that '
                                           'meets the condition the tokenizer does not cut the written text into wtoks, or the conclusion does not evaluate to true '
                                           '(%d documents)' % len(rt_bad), 'first_difference': d, 'kind': 'LOAD',
                                           'text': cases[i]['text'] if i < len(cases) else None}, no_input=True)
        elif mism:
            i, d = mism[0]
            v.violation('correspondence', {'stage': 'C', 'broken': 'correspondence of the parser/writer model with the implementation (%d of %d cases differ)' % (len(mism), len(cases)),
                                           'first_difference': d, 'kind': 'LOAD', 'case': lines[i], 'text': cases[i]['text']}, no_input=True)
    return v.finish('proof')


def replay(r, oracle_mod):
    impl = fw.build_harness()
    line = fw.run_single([impl, 'LOAD'], r['case'], timeout=120)
    print('implementation:', line[:1500])
    res = loadlib.Loaded(line)
    c = r.get('prop_case')
    if c is not None:
        c = dict(c)
        why = oracle_mod.oracle(c, res, [c], [res])
        print('oracle:', why or 'property holds on this input')
        return 1 if why else 0
    return 1
