"""C14 sort(): proof (Props/C14.v: every list is a permutation with untouched content, names ascending, uids
consecutive in the canonical kind order, second sort is the identity) + correspondence of the Sort model with
A2lFile::sort on API-built modules + oracle on the written text (grouping, alphabetical order, reload, idempotence)."""
import framework as fw
import sx
from checks import modlib as ml

PROP = 'C14'
KIND = 'C14'
TARGETS = ['theories/Proofs/SortProofs.v', 'theories/Proofs/SortModuleProofs.v', 'theories/Run/RunC15.v']
RULE = ('modules built through the public API: random interleaving of all 20 named kinds plus IF_DATA, USER_RIGHTS, MOD_COMMON, '
        'MOD_PAR, VARIANT_CODING, arbitrary uids/lines, new (uid 0) elements mixed in; ops: sort, sort after pushes, sort twice; '
        'non-trivial = at least two kinds populated and at least one list out of alphabetical order; distinct = distinct observation')
ASSUMPTIONS = ['names are unique per list (duplicate-free names are part of the quantifier)']


def build_extract():
    pass


def gen_cases(rng, tier):
    cases = []
    n = 200 if tier == 'quick' else 40000
    for i in range(n):
        st = ml.gen_module(rng, rng.choice([0, 1, 4, 12, 30, 60]), with_new=rng.choice([0, 0.3]),
                           kinds=rng.choice([None, None, [2, 11], [0, 1, 2, 10, 11]]))
        st[0] = []      # no A2ML block: an (empty) IF_DATA would be re-interpreted against it on reload
        # shuffle list order so that lists are not already sorted
        for l in st[7]:
            rng.shuffle(l)
        rng.shuffle(st[5])
        ops = [['sort']]
        if rng.random() < 0.5:
            k = rng.randrange(20)
            ops += [['push', k, ml.el(ml.TAGS[k], 'zz_new', 0, 0, 2, 1)], ['sort']]
        if rng.random() < 0.3:
            ops = [['sni']] + ops
        cases.append([1, st, ops])
    return cases


def canon(case, line):
    out = ml.decode_out(line)
    if out is None:
        return line
    return [o[:2] if isinstance(o, list) and len(o) >= 2 else o for o in out]


def oracle(case, impl_line):
    out = ml.decode_out(impl_line)
    if out is None:
        return 'implementation process died: ' + impl_line
    ops = case[2]
    for i, op in enumerate(ops):
        if i + 1 >= len(out):
            return 'missing observation for step %d' % i
        prev, cur = out[i], out[i + 1]
        if cur == ['PANIC']:
            return 'panic in %s at step %d' % (op[0], i)
        if op[0] != 'sort':
            continue
        pstate, cstate, corder = prev[0], cur[0], cur[1]
        # (1) pure reordering: same elements in every list
        for k in range(20):
            a = sorted((e[0], e[1]) for e in pstate[7][k])
            b = sorted((e[0], e[1]) for e in cstate[7][k])
            if a != b:
                return 'step %d: list %s changed its elements: %s -> %s' % (i, ml.TAGS[k], a, b)
        if sorted(e[1] for e in pstate[5]) != sorted(e[1] for e in cstate[5]) or len(pstate[4]) != len(cstate[4]):
            return 'step %d: USER_RIGHTS / IF_DATA changed their elements' % i
        for j in range(4):
            if len(pstate[j]) != len(cstate[j]):
                return 'step %d: optional element appeared/disappeared' % i
        # (2) written order: grouped by kind, alphabetical within a kind
        kinds_seq = []
        for t, n in corder:
            if not kinds_seq or kinds_seq[-1] != t:
                kinds_seq.append(t)
        if len(set(kinds_seq)) != len(kinds_seq):
            return 'step %d: elements of one kind are not contiguous in the written file: %s' % (i, kinds_seq)
        for t in set(kinds_seq):
            names = [n.encode() for (tt, n) in corder if tt == t]
            if t in ml.TAGS or t == 'USER_RIGHTS':
                if names != sorted(names):
                    return 'step %d: %s not in alphabetical order: %s' % (i, t, names)
        total = sum(len(l) for l in cstate[7]) + len(cstate[4]) + len(cstate[5]) + sum(len(cstate[j]) for j in range(4))
        if len(corder) != total:
            return 'step %d: written file has %d module children, model has %d' % (i, len(corder), total)
        # (3) reload / idempotence flags computed by the harness on the real library
        if len(cur) >= 3:
            ok_load, eq, same_text, idem = cur[2]
            if not ok_load:
                return 'step %d: the sorted file does not load' % i
            if not eq:
                return 'step %d: reloading the sorted file gives a different model' % i
            if not same_text:
                return 'step %d: reloading the sorted file changes the order (text differs)' % i
            if not idem:
                return 'step %d: sorting a second time changes something' % i
    return None


def nontrivial_key(case, impl_line):
    st = case[1]
    pop = [l for l in st[7] if l]
    unsorted = any([e[1] for e in l] != sorted(e[1] for e in l) for l in pop)
    if len(pop) < 2 or not unsorted:
        return None
    return hash(impl_line)


CANON_KINDS = ['CHARACTERISTIC', 'MEASUREMENT', 'AXIS_PTS', 'INSTANCE', 'BLOB', 'COMPU_METHOD', 'COMPU_TAB', 'COMPU_VTAB',
               'COMPU_VTAB_RANGE', 'TYPEDEF_STRUCTURE', 'TYPEDEF_CHARACTERISTIC', 'TYPEDEF_MEASUREMENT', 'TYPEDEF_AXIS', 'TYPEDEF_BLOB',
               'FRAME', 'FUNCTION', 'GROUP', 'RECORD_LAYOUT', 'TRANSFORMER', 'UNIT']


def extra_stage(v, tier, rng, impl):
    """whole documents (several modules, comments, IF_DATA, elements from the grammar generator): load, sort(), write.
    Modules appear in the written file in alphabetical order, every module lists its elements grouped by kind in the
    canonical kind order and alphabetically within a kind, the file loads again to the sorted model, a second sort() is
    the identity."""
    import random as _random
    import docgen
    from checks import docs
    sp = docs.spec()
    texts = []
    for i in range(40 if tier == 'quick' else 3000):
        opts = docgen.GenOptions(version=rng.choice(docs.VERSIONS), max_depth=rng.choice([3, 4]), max_repeat=rng.choice([2, 3, 4]),
                                 p_optional=rng.choice([0.3, 0.6]), ifdata=rng.choice([None, 'unknown']), a2ml=rng.choice([None, None, 'simple']))
        node = docgen.gen_tree(sp, _random.Random(rng.randrange(1 << 30)), opts)
        docs.order_positions(node)      # position-restricted children in ascending order (the other case is a known finding of C01)
        lay = docgen.Layout(mode=rng.choice(['canonical', 'random']), comments=rng.choice([None, 'block-level']))
        text, _ = docgen.render(node, _random.Random(rng.randrange(1 << 30)), lay, sp)
        texts.append(text)
    # the witness of the known finding: an IF_DATA in front of the A2ML block, in a MODULE that sorts behind the block's MODULE
    texts.append('ASAP2_VERSION 1 71 /begin PROJECT p "" /begin MODULE zz "" /begin IF_DATA XCP 1 /end IF_DATA /end MODULE /begin MODULE aa "" '
                 '/begin A2ML block "IF_DATA" taggedunion if_data { "XCP" struct { uint; }; }; /end A2ML /end MODULE /end PROJECT')
    out = fw.run_sharded([impl, 'SORTDOC'], [sx.enc([t]) for t in texts])
    fails, multi, judged = [], 0, 0
    for t, line in zip(texts, out):
        why = None
        if not line or line.startswith('DIED'):
            why = 'process died in load / sort / write'
        else:
            a = sx.dec(line)
            st = a[0].decode()
            if st == 'NOLOAD':
                continue
            if st == 'PANIC':
                why = 'panic in ' + a[1].decode()
            else:
                judged += 1
                mods = [(bytes(m[0]), [(bytes(e[0]).decode(), bytes(e[1])) for e in m[1]]) for m in a[1]]
                if len(mods) > 1:
                    multi += 1
                names = [m[0] for m in mods]
                if names != sorted(names):
                    why = 'the modules are not written in alphabetical order: %s' % [n.decode('utf-8', 'replace') for n in names]
                for mname, els in mods:
                    if why:
                        break
                    seq = [tg for tg, _ in els if tg in CANON_KINDS]
                    groups = [tg for k_, tg in enumerate(seq) if k_ == 0 or seq[k_ - 1] != tg]
                    if len(set(groups)) != len(groups):
                        why = 'module %s: elements of one kind are not contiguous: %s' % (mname.decode('utf-8', 'replace'), groups)
                    elif groups != [k_ for k_ in CANON_KINDS if k_ in groups]:
                        why = 'module %s: kinds are not in the canonical order: %s' % (mname.decode('utf-8', 'replace'), groups)
                    else:
                        for k_ in groups:
                            ns = [n for tg, n in els if tg == k_]
                            if ns != sorted(ns):
                                why = 'module %s: %s not in alphabetical order' % (mname.decode('utf-8', 'replace'), k_)
                                break
                if not why and not a[2]:
                    why = 'the sorted file does not load'
                if not why and not a[3]:
                    mem = [bytes(x).decode('utf-8', 'replace') for x in a[5]]
                    why = ('loading the sorted file gives a different model (modules in memory after sort: %s, written: %s)'
                           % (mem, [n.decode('utf-8', 'replace') for n in names]))
                if not why and not a[4]:
                    why = 'sorting a second time changes something'
        if why and why.startswith('loading the sorted file gives a different model') and a2ml_moves_in_front_of_ifdata(t, names):
            if not any(f.get('known_key') for f in fails):
                fails.append({'known_key': 'a2ml-block-sorted-in-front-of-if-data',
                              'payload': {'kind': 'SORTDOC', 'case': sx.enc([t]), 'text': t, 'why': why, 'stage': 'W (documents: load, sort, write, reload)'}})
            continue
        if why and len([f for f in fails if not f.get('known_key')]) < 3:
            fails.append({'payload': {'kind': 'SORTDOC', 'case': sx.enc([t]), 'text': t, 'why': why,
                                      'stage': 'W (documents: load, sort, write, reload)'}})
    v.coverage['sorted_documents'] = judged
    v.coverage['sorted_documents_with_several_modules'] = multi
    return fails


def a2ml_moves_in_front_of_ifdata(text, written_names):
    """IF_DATA is interpreted with the A2ML blocks that stand in front of it in the FILE.  If sort() changes the order of a MODULE
    that holds an A2ML block and another MODULE that holds an IF_DATA, the file written from the sorted model is read with that
    IF_DATA interpreted under another set of definitions than the loaded (and sorted) model has."""
    import re
    mods = [(m.start(), m.group(1)) for m in re.finditer(r'/begin\s+MODULE\s+(\S+)', text)]

    def module_of(pos):
        cur = None
        for st, nm in mods:
            if st <= pos:
                cur = nm
        return cur
    a2ml_mods = {module_of(m.start()) for m in re.finditer(r'/begin\s+A2ML', text)} - {None}
    ifd_mods = {module_of(m.start()) for m in re.finditer(r'/begin\s+IF_DATA', text)} - {None}
    order_in = [nm for _, nm in mods]
    order_out = [n.decode('utf-8', 'replace') if isinstance(n, bytes) else n for n in written_names]
    for ma in a2ml_mods:
        for mi in ifd_mods:
            if ma == mi or ma not in order_out or mi not in order_out:
                continue
            if (order_in.index(ma) < order_in.index(mi)) != (order_out.index(ma) < order_out.index(mi)):
                return True
    return False


def replay(r):
    impl = fw.build_harness(release=False)
    line = fw.run_single([impl, r['kind']], r['case'])
    if r.get('kind') == 'SORTDOC':
        print('text:', (r.get('text') or '')[:1500])
        a = sx.dec(line) if line and not line.startswith('DIED') else None
        print('answer:', sx.pretty(a)[:3] if a else line)
        bad = a is None or a[0] != b'OK' or not (a[2] and a[3] and a[4])
        if a and a[0] == b'OK':
            names = [bytes(m[0]) for m in a[1]]
            bad = bad or names != sorted(names)
            print('modules written:', names, ' reload equal:', a[3], ' idempotent:', a[4])
        print('oracle:', 'violated' if bad else 'holds (order of kinds not re-judged here)')
        return 1 if bad else 0
    why = oracle(sx.pretty(sx.dec(r['case'])), line)
    print('case:', str(r.get('case_readable'))[:1500])
    print('implementation:', line[:400])
    print('oracle:', why or 'holds')
    return 1 if why else 0
