"""C14 sort(): proof (Props/C14.v: every list is a permutation with untouched content, names ascending, uids
consecutive in the canonical kind order, second sort is the identity) + correspondence of the Sort model with
A2lFile::sort on API-built modules + oracle on the written text (grouping, alphabetical order, reload, idempotence)."""
import framework as fw
import sx
from checks import modlib as ml

PROP = 'C14'
KIND = 'C14'
TARGETS = ['theories/Proofs/SortProofs.v', 'theories/Proofs/SortModuleProofs.v', 'theories/Run/RunC15.v']
RULE = ('modules built through the public API: random interleaving of all 20 named kinds plus IF_DATA, USER_RIGHTS, MOD_COMMON, '
        'MOD_PAR, VARIANT_CODING, arbitrary uids/lines, new (uid 0) elements mixed in; ops: sort, sort after pushes, sort twice; '
        'non-trivial = at least two kinds populated and at least one list out of alphabetical order; distinct = distinct observation')
ASSUMPTIONS = ['names are unique per list (duplicate-free names are part of the quantifier)']


def build_extract():
    pass


def gen_cases(rng, tier):
    cases = []
    n = 200 if tier == 'quick' else 40000
    for i in range(n):
        st = ml.gen_module(rng, rng.choice([0, 1, 4, 12, 30, 60]), with_new=rng.choice([0, 0.3]),
                           kinds=rng.choice([None, None, [2, 11], [0, 1, 2, 10, 11]]))
        st[0] = []      # no A2ML block: an (empty) IF_DATA would be re-interpreted against it on reload
        # shuffle list order so that lists are not already sorted
        for l in st[7]:
            rng.shuffle(l)
        rng.shuffle(st[5])
        ops = [['sort']]
        if rng.random() < 0.5:
            k = rng.randrange(20)
            ops += [['push', k, ml.el(ml.TAGS[k], 'zz_new', 0, 0, 2, 1)], ['sort']]
        if rng.random() < 0.3:
            ops = [['sni']] + ops
        cases.append([1, st, ops])
    return cases


def canon(case, line):
    out = ml.decode_out(line)
    if out is None:
        return line
    return [o[:2] if isinstance(o, list) and len(o) >= 2 else o for o in out]


def oracle(case, impl_line):
    out = ml.decode_out(impl_line)
    if out is None:
        return 'implementation process died: ' + impl_line
    ops = case[2]
    for i, op in enumerate(ops):
        if i + 1 >= len(out):
            return 'missing observation for step %d' % i
        prev, cur = out[i], out[i + 1]
        if cur == ['PANIC']:
            return 'panic in %s at step %d' % (op[0], i)
        if op[0] != 'sort':
            continue
        pstate, cstate, corder = prev[0], cur[0], cur[1]
        # (1) pure reordering: same elements in every list
        for k in range(20):
            a = sorted((e[0], e[1]) for e in pstate[7][k])
            b = sorted((e[0], e[1]) for e in cstate[7][k])
            if a != b:
                return 'step %d: list %s changed its elements: %s -> %s' % (i, ml.TAGS[k], a, b)
        if sorted(e[1] for e in pstate[5]) != sorted(e[1] for e in cstate[5]) or len(pstate[4]) != len(cstate[4]):
            return 'step %d: USER_RIGHTS / IF_DATA changed their elements' % i
        for j in range(4):
            if len(pstate[j]) != len(cstate[j]):
                return 'step %d: optional element appeared/disappeared' % i
        # (2) written order: grouped by kind, alphabetical within a kind
        kinds_seq = []
        for t, n in corder:
            if not kinds_seq or kinds_seq[-1] != t:
                kinds_seq.append(t)
        if len(set(kinds_seq)) != len(kinds_seq):
            return 'step %d: elements of one kind are not contiguous in the written file: %s' % (i, kinds_seq)
        for t in set(kinds_seq):
            names = [n.encode() for (tt, n) in corder if tt == t]
            if t in ml.TAGS or t == 'USER_RIGHTS':
                if names != sorted(names):
                    return 'step %d: %s not in alphabetical order: %s' % (i, t, names)
        total = sum(len(l) for l in cstate[7]) + len(cstate[4]) + len(cstate[5]) + sum(len(cstate[j]) for j in range(4))
        if len(corder) != total:
            return 'step %d: written file has %d module children, model has %d' % (i, len(corder), total)
        # (3) reload / idempotence flags computed by the harness on the real library
        if len(cur) >= 3:
            ok_load, eq, same_text, idem = cur[2]
            if not ok_load:
                return 'step %d: the sorted file does not load' % i
            if not eq:
                return 'step %d: reloading the sorted file gives a different model' % i
            if not same_text:
                return 'step %d: reloading the sorted file changes the order (text differs)' % i
            if not idem:
                return 'step %d: sorting a second time changes something' % i
    return None


def nontrivial_key(case, impl_line):
    st = case[1]
    pop = [l for l in st[7] if l]
    unsorted = any([e[1] for e in l] != sorted(e[1] for e in l) for l in pop)
    if len(pop) < 2 or not unsorted:
        return None
    return hash(impl_line)
