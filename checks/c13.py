"""C13 ItemList: proof (Props/C13.v) + correspondence of the Coq model with the real ItemList +
plain-vector oracle on the implementation's own outputs."""
import itertools
import framework as fw
import sx

PROP = 'C13'
TARGETS = ['theories/Proofs/ItemListProofs.v', 'theories/Run/RunC13.v']
ALPHA = ['a', 'b', 'c', 'd']


def all_ops(alpha, maxidx):
    ops = []
    for n in alpha:
        ops.append(['push', [n, len(n) + ord(n[0]) % 7]])
        ops.append(['swap_remove', n])
    ops += [['pop'], ['clear']]
    for i in range(maxidx + 1):
        ops.append(['swap_remove_idx', i])
        ops.append(['truncate', i])
    ops += [['retain', ['even']], ['retain', ['none']], ['retain', ['namelt', 'c']], ['retain', ['namene', 'a']]]
    ops += [['sort_by', 'nameasc'], ['sort_by', 'namedesc'], ['sort_by', 'payasc'], ['sort_by', 'consteq']]
    for i in range(maxidx):
        for n in alpha:
            ops.append(['rename', i, n])
    ops.append(['extend', [['c', 3], ['d', 8]]])
    ops.append(['extend', [['a', 2], ['a', 4]]])
    ops.append(['collect', [['d', 1], ['b', 6], ['a', 3]]])
    return ops


def random_op(rng, alpha, n_est):
    k = rng.random()
    name = rng.choice(alpha)
    if k < 0.30:
        return ['push', [name, rng.randrange(0, 100)]]
    if k < 0.40:
        return ['swap_remove', name]
    if k < 0.50:
        return ['swap_remove_idx', rng.randrange(0, n_est + 2)]
    if k < 0.56:
        return ['pop']
    if k < 0.62:
        return ['rename', rng.randrange(0, n_est + 2), name]
    if k < 0.68:
        return ['sort_by', rng.choice(['nameasc', 'namedesc', 'payasc', 'consteq'])]
    if k < 0.74:
        return ['retain', rng.choice([['even'], ['all'], ['namelt', name], ['namene', name]])]
    if k < 0.80:
        return ['truncate', rng.randrange(0, n_est + 2)]
    if k < 0.88:
        return ['extend', [[rng.choice(alpha), rng.randrange(0, 100)] for _ in range(rng.randrange(0, 4))]]
    if k < 0.90:
        return ['clear']
    if k < 0.93:
        return ['collect', [[rng.choice(alpha), rng.randrange(0, 100)] for _ in range(rng.randrange(0, 5))]]
    return ['push', [name, rng.randrange(0, 100)]]


def unique_history(rng, alpha, length):
    """random history that respects the unique-names guard (tracks a shadow vector)"""
    vec = []
    ops = []
    for _ in range(length):
        for _try in range(20):
            op = random_op(rng, alpha, len(vec))
            nv = spec_step(vec, op)[0]
            names = [x[0] for x in nv]
            if len(set(names)) == len(names):
                ops.append(op)
                vec = nv
                break
    return ops


def gen_cases(rng, tier):
    cases = []
    base = all_ops(ALPHA, 3)
    # corpus first: regression cases of earlier findings
    cases.append([ALPHA, [['push', ['a', 1]], ['swap_remove', 'a']]])
    cases.append([ALPHA, [['push', ['a', 1]], ['swap_remove_idx', 0]]])
    cases.append([ALPHA, [['push', ['a', 1]], ['push', ['b', 2]], ['swap_remove_idx', 1], ['swap_remove', 'a']]])
    maxlen = 2 if tier == 'quick' else 3
    for L in range(1, maxlen + 1):
        for h in itertools.product(base, repeat=L):
            cases.append([ALPHA, list(h)])
    n_rand = 4000 if tier == 'quick' else 100000
    for _ in range(n_rand):
        L = rng.randrange(3, 7)
        cases.append([ALPHA, [rng.choice(base) for _ in range(L)]])
    n_long = 30 if tier == 'quick' else 1000
    big = ['n%02d' % i for i in range(60)]
    for _ in range(n_long):
        cases.append([big, unique_history(rng, big, 300 if tier == 'quick' else 1000)])
    for _ in range(n_long):
        cases.append([big[:8], [random_op(rng, big[:8], 6) for _ in range(200)]])
    return cases


# ---- independent oracle: plain vector of (name, payload) ----
def str_key(s):
    return s.encode() if isinstance(s, str) else bytes(s)


def spec_step(vec, op):
    t = op[0]
    vec = list(vec)
    if t == 'push':
        return vec + [list(op[1])], None
    if t == 'pop':
        if not vec:
            return vec, [[]]
        return vec[:-1], [[vec[-1]]]
    if t == 'clear':
        return [], None
    if t in ('swap_remove', 'swap_remove_idx'):
        if t == 'swap_remove':
            idx = [i for i, x in enumerate(vec) if x[0] == op[1]]
            if not idx:
                return vec, [[]]
            i = idx[0]
        else:
            i = op[1]
            if i >= len(vec):
                return vec, [[]]
        it = vec[i]
        last = vec.pop()
        if i < len(vec):
            vec[i] = last
        return vec, [[it]]
    if t == 'retain':
        p = op[1]
        f = {'even': lambda x: x[1] % 2 == 0, 'all': lambda x: True, 'none': lambda x: False,
             'namelt': lambda x: str_key(x[0]) < str_key(p[1]) if len(p) > 1 else None,
             'namene': lambda x: x[0] != p[1] if len(p) > 1 else None}[p[0]]
        return [x for x in vec if f(x)], None
    if t == 'truncate':
        return vec[:op[1]], None
    if t == 'sort_by':
        k = op[1]
        if k == 'nameasc':
            vec.sort(key=lambda x: str_key(x[0]))
        elif k == 'namedesc':
            # stable descending: sort by negated key (reverse=True keeps stability in Python as well)
            vec.sort(key=lambda x: str_key(x[0]), reverse=True)
        elif k == 'payasc':
            vec.sort(key=lambda x: x[1])
        return vec, None
    if t == 'rename':
        if op[1] < len(vec):
            vec[op[1]] = [op[2], vec[op[1]][1]]
        return vec, None
    if t == 'extend':
        return vec + [list(x) for x in op[1]], None
    if t == 'collect':
        return [list(x) for x in op[1]], None
    raise ValueError(t)


def oracle(case, impl_line):
    """the property itself, evaluated on the implementation's outputs.  Returns None if it holds
    (or the history leaves the property's quantifier: names not unique), else a description."""
    alpha, ops = case
    if impl_line.startswith('DIED'):
        return 'implementation process died: ' + impl_line
    out = sx.pretty(sx.dec(impl_line))
    vec = []
    for step_no, op in enumerate(ops):
        vec, res = spec_step(vec, op)
        names = [x[0] for x in vec]
        if len(set(names)) != len(names):
            return None   # outside the quantifier from here on
        if step_no >= len(out):
            return 'missing output for step %d' % step_no
        o = out[step_no]
        if o == ['PANIC']:
            return 'panic at step %d (%s)' % (step_no, op)
        r, obs = o
        if res is not None and r != res:
            return 'step %d (%s): returned %s, vector model says %s' % (step_no, op, r, res)
        items, length, first, last, per_key, keys, nkeys = obs
        if items != vec:
            return 'step %d (%s): iteration order %s, expected %s' % (step_no, op, items, vec)
        if length != len(vec):
            return 'step %d: len' % step_no
        if nkeys != len(vec) or sorted(keys) != sorted(n for n in names if n in alpha):
            return 'step %d (%s): key set %s does not match stored names %s' % (step_no, op, keys, names)
        for k, (idx, got, has) in zip(alpha, per_key):
            if k in names:
                pos = names.index(k)
                if idx != [pos] or got != [vec[pos]] or has != 1:
                    return 'step %d (%s): lookup of %r gives index %s item %s, expected position %d item %s' % (
                        step_no, op, k, idx, got, pos, vec[pos])
            else:
                if idx != [] or got != [] or has != 0:
                    return 'step %d (%s): name %r not stored but reachable (index %s)' % (step_no, op, k, idx)
    return None


def shrink(case, still_fails):
    alpha, ops = case
    ops = list(ops)
    changed = True
    while changed:
        changed = False
        for i in range(len(ops)):
            cand = ops[:i] + ops[i + 1:]
            if still_fails([alpha, cand]):
                ops = cand
                changed = True
                break
    return [alpha, ops]


def classify_known(case, why):
    return None


def nontrivial_key(case, impl_line):
    """distinct final observable state + at least one removal/rename/sort in the history"""
    ops = case[1]
    kinds = {o[0] for o in ops}
    if not (kinds - {'push', 'extend', 'collect'}):
        return None
    return hash(impl_line)
