"""C18 IF_DATA is interpreted exactly as the applicable A2ML definition says.
   P  Props/C18.v on the model of the type-directed IF_DATA parser (Gram/Parser.v: parse_ifdata, parse_ifdata_from_spec,
      parse_ifdata_item, tagged items, sequences) and of the writer of generic IF_DATA
   C  the extracted parser/writer model against load_from_string / write_to_string on documents made of a generated A2ML
      definition (in the file, as built-in specification, or both) and generated IF_DATA blocks (conforming and single-token
      deviations), in both strictness modes: model tree, validity flags, diagnostics and written text.  The type
      specification that the library's A2ML parser derives from a definition text is an input of the model (oracle, like the
      float table); that step is compared with the generator's own syntax tree in stage W.
   W  on the implementation (harness kind IFDATA): every block is valid exactly when an independent reference interpreter of
      the definition (checks/a2mlgen.py) accepts it, with the same value tree; values survive load + write (typed comparison);
      reload gives an equal model and the same text; ifdata_cleanup() removes exactly the invalid blocks"""
import collections
import random

import framework as fw
import sx
from checks import a2mlgen as g
from checks import loadlib

PROP = 'C18'
TARGETS = ['theories/Proofs/IfdataProofs.v', 'theories/Proofs/IfdataCleanupProofs.v', 'theories/Run/RunLoad.v', 'theories/Proofs/IfdataRoundTripProofs.v', 'theories/Proofs/IfdataFollowProofs.v', 'theories/Proofs/IfdataTextProofs.v', 'theories/Proofs/IfdataBlockProofs.v']

# definitions the ASAM grammar allows and the library's A2ML parser rejects (known findings, one key each)
REJECTED_DEFINITIONS = {
    'a2ml-rejected:repeated-tag-without-type': 'block "IF_DATA" taggedstruct { ("T")*; };',
    'a2ml-rejected:empty-member-list': 'block "IF_DATA" taggedstruct { "S" struct { }; };',
    'a2ml-rejected:inline-named-type-referenced-later': 'block "IF_DATA" struct { enum E { "A" = 1 }; enum E; };',
    'a2ml-rejected:enum-constant-negative-or-hex': 'block "IF_DATA" enum { "A" = -1, "B" = 0x10 };',
}


def document(a2ml, blocks):
    out = ['ASAP2_VERSION 1 71', '/begin PROJECT p ""', '/begin MODULE m ""']
    if a2ml:
        out += ['/begin A2ML', a2ml, '/end A2ML']
    out += list(blocks)
    out += ['/end MODULE', '/end PROJECT', '']
    return '\n'.join(out)


def expected_of(defns, text, strict):
    lenient = ('hex_float',) if strict else ('hex_float', 'long_string', 'ident_string')
    for d in defns:
        v, t = g.interpret(d, text, lenient)
        if v:
            return True, t
    return False, None


def explain(defns, text, strict, lib_valid, lib_tree):
    base = ('hex_float',) if strict else ('hex_float', 'long_string', 'ident_string')
    for extra in (('multiplicity',), ('union_required',), ('multiplicity', 'union_required')):
        for d in defns:
            try:
                v, t = g.interpret(d, text, base + extra)
            except ValueError:
                continue
            if v:
                if bool(lib_valid) and t == lib_tree:
                    return '+'.join(extra)
                break
    return None


class Case:
    def __init__(self, a2ml, spec, defns, blocks, strict, label):
        self.a2ml, self.spec, self.defns, self.blocks, self.strict, self.label = a2ml, spec, defns, blocks, strict, label

    def tuple(self):
        return (self.a2ml, self.spec, [b[0] for b in self.blocks], self.strict)

    def text(self):
        return document(self.a2ml, [b[0] for b in self.blocks])


# the eleven element kinds that can carry IF_DATA (closed obligation C18_ifdata_parents_of_the_shipped_grammar): frames that put one
# IF_DATA block inside an element of that kind
PARENT_FRAMES = [
    '%s',
    '/begin MEASUREMENT pm%d "" UBYTE NO_COMPU_METHOD 0 0 0 255\n%s\n/end MEASUREMENT',
    '/begin CHARACTERISTIC pc%d "" VALUE 0 rl 0 NO_COMPU_METHOD 0 1\n%s\n/end CHARACTERISTIC',
    '/begin AXIS_PTS pa%d "" 0 NO_INPUT_QUANTITY rl 0 NO_COMPU_METHOD 3 0 10\n%s\n/end AXIS_PTS',
    '/begin BLOB pb%d "" 0 1\n%s\n/end BLOB',
    '/begin FRAME pf%d "" 1 2\n%s\n/end FRAME',
    '/begin FUNCTION pfn%d ""\n%s\n/end FUNCTION',
    '/begin GROUP pg%d ""\n%s\n/end GROUP',
    '/begin INSTANCE pi%d "" td 0\n%s\n/end INSTANCE',
    '/begin MOD_PAR ""\n/begin MEMORY_LAYOUT PRG_CODE 0 0 -1 -1 -1 -1 -1\n%s\n/end MEMORY_LAYOUT\n/end MOD_PAR',
    '/begin MOD_PAR ""\n/begin MEMORY_SEGMENT ps%d "" CODE FLASH INTERN 0 0 -1 -1 -1 -1 -1\n%s\n/end MEMORY_SEGMENT\n/end MOD_PAR',
]


def placed(blocks, shift):
    """the blocks, each inside an element of another kind (at most one MOD_PAR per module: its frames are used once)"""
    out, modpar = [], False
    for j, b in enumerate(blocks):
        k = (j + shift) % len(PARENT_FRAMES)
        if k >= 9:
            if modpar:
                k = 4
            modpar = True
        f = PARENT_FRAMES[k]
        out.append(f % ((j, b) if f.count('%') == 2 else (b,)))
    return out


class PlacedCase(Case):
    """the same blocks, spread over the element kinds that can carry IF_DATA (the oracle of stage W looks at the blocks only; the
    load and ifdata_cleanup() comparisons of stage C see the whole document)"""
    shift = 0

    def text(self):
        return document(self.a2ml, placed([b[0] for b in self.blocks], self.shift))


def mixed_blocks(rng, defn, ninst, ndev):
    blocks = []
    for _ in range(ninst):
        inst = g.gen_instance(rng, defn, comments=rng.random() < 0.3, trailing_comment=rng.random() < 0.2)
        if len(inst.text) > 4000:
            continue
        blocks.append((inst.text, inst, 'conf'))
        if ndev:
            for kind, text in g.deviate(rng, defn, inst, ndev):
                blocks.append((text, None, 'dev:' + kind))
    if rng.random() < 0.3:
        blocks.append(('/begin IF_DATA /end IF_DATA', None, 'empty'))
    rng.shuffle(blocks)
    return blocks[:12]


def gen_cases(rng, tier):
    n = 60 if tier == 'quick' else 8000
    cases = []
    for i in range(n):
        d = g.gen_definition(rng, rng.choice([1, 2, 3, 3, 4]))
        text = g.render_definition(d, rng if i % 2 else None)
        blocks = mixed_blocks(rng, d, 3, rng.choice([0, 2, 4]))
        where = i % 4
        for strict in (1, 0):
            if where == 0:
                cases.append(Case(text, '', [d], blocks, strict, 'infile'))
            elif where == 1:
                cases.append(Case('', text, [d], blocks, strict, 'builtin'))
            elif where == 2:
                cases.append(Case(text, g.render_definition(d), [d], blocks, strict, 'both-same'))
            else:
                d2 = g.gen_definition(rng, rng.choice([1, 2, 3]))
                b2 = mixed_blocks(rng, d2, 2, 1)
                cases.append(Case(text, g.render_definition(d2), [d2, d], blocks + b2, strict, 'both-different'))
    extra = []
    for i, c in enumerate(cases):
        if i % 6 == 0 and len(c.blocks) >= 2:
            pc = PlacedCase(c.a2ml, c.spec, c.defns, c.blocks, c.strict, c.label + '+placed')
            pc.shift = 1 + (i // 6) % 10
            extra.append(pc)
    return cases + extra


def number_tokens_beyond_i32(text):
    for c, t in g.tokenize_ifdata(text):
        if c == 'NUM':
            nv = g._numval(t)
            if nv is None or isinstance(nv[1], float) or not (-2 ** 31 <= nv[1] < 2 ** 31) or any(ch in t for ch in '.eE') and not t.lower().startswith('0x'):
                return True
    return False


def oracle(c, ans):
    """[(class, why, block index | None)]"""
    out = []
    if ans is None:
        return [('died', 'the process died', None)]
    st = g._s(ans[0])
    if st == 'PANIC':
        return [('panic', 'panic in %s' % g._s(ans[1]), None)]
    if st == 'ERR':
        msg = g._s(ans[2])
        if any(number_tokens_beyond_i32(b[0]) for b in c.blocks) and 'MalformedNumber' in (g._s(ans[1]) + msg):
            return [('uninterpreted-number-out-of-range', 'load error %s' % msg[:120], None)]
        if c.strict:
            return []                # strict mode may reject non-conforming content with an error
        return [('load-error', 'non-strict load fails: %s %s' % (g._s(ans[1]), msg[:160]), None)]
    diags = [g._s(x) for x in ans[2]]
    if any(d.startswith('A2mlError') for d in diags):
        return [('a2ml-rejected', 'the generated definition is rejected: %s' % [d for d in diags if d.startswith('A2mlError')][0][:200], None)]
    blocks = g.answer_blocks(ans)
    if len(blocks) != len(c.blocks):
        return [('block-count', '%d IF_DATA blocks loaded, %d in the file' % (len(blocks), len(c.blocks)), None)]
    try:
        wtoks = g.written_ifdata_tokens(ans[3])
    except ValueError as e:
        wtoks = None
        out.append(('written-untokenizable', str(e), None))
    any_unint_number = False
    for i, ((text, inst, kind), (lv, lt)) in enumerate(zip(c.blocks, blocks)):
        ev, et = expected_of(c.defns, text, c.strict)
        d = g.compare((lv, lt), (ev, et))
        if d:
            why = explain(c.defns, text, c.strict, lv, lt)
            if lv and not ev and why and 'multiplicity' in why:
                out.append(('tagged-multiplicity-not-enforced', 'a member without ( )* occurs more than once and the block counts as valid', i))
            elif ev and not lv:
                out.append(('conforming-flagged-invalid', 'content conforms to the definition but ifdata_valid is false: %s' % d[:160], i))
            elif lv and not ev:
                out.append(('nonconforming-accepted', 'content does not conform (%s) but ifdata_valid is true' % g.interpret.last_error[:120], i))
            else:
                out.append(('tree-differs', d[:200], i))
        if not lv and number_tokens_beyond_i32(text):
            any_unint_number = True
        if wtoks is not None and i < len(wtoks):
            try:
                p = g.tokens_preserved(text, wtoks[i], inst if (kind == 'conf' and lv and len(c.defns) == 1) else None)
            except ValueError as e:
                p = [('error', 'input untokenizable: %s' % e)]
            for cat in sorted(set(x[0] for x in p)):
                desc = '; '.join(x[1] for x in p if x[0] == cat)[:200]
                if lv:
                    if cat == 'neg-zero':
                        out.append(('negative-zero-written-as-zero', 'valid block: %s' % desc, i))
                    elif cat in ('value', 'count', 'other', 'error') and not (cat == 'value' and len(c.defns) > 1):
                        out.append(('written-value-changed', 'valid block, %s: %s' % (cat, desc), i))
                else:
                    if cat in ('value', 'f32', 'hex-lost'):
                        out.append(('uninterpreted-number-precision', 'uninterpreted block, %s: %s' % (cat, desc), i))
                    elif cat in ('count', 'other', 'error'):
                        out.append(('written-uninterpreted-changed', '%s: %s' % (cat, desc), i))
    rt = ans[4]
    if g._s(rt[0]) != 'OK':
        out.append(('uninterpreted-number-precision' if any_unint_number else 'reload-fails', 'the written file does not load: %s' % g._s(rt[0]), None))
    else:
        if not rt[1]:
            out.append(('uninterpreted-number-precision' if any_unint_number else 'reload-model-differs', 'the reloaded model differs', None))
        if not rt[2]:
            out.append(('uninterpreted-number-precision' if any_unint_number else 'reload-text-differs', 'the text written from the reloaded model differs', None))
    cl = ans[5]
    if g._s(cl[0]) != 'OK':
        out.append(('cleanup-panic', 'ifdata_cleanup panics', None))
    else:
        lib_flags = [b[0] for b in blocks]
        if list(cl[1]) != [1] * sum(1 for f in lib_flags if f):
            out.append(('cleanup', 'ifdata_cleanup() does not remove exactly the invalid blocks: flags %s -> %s' % (lib_flags, list(cl[1])), None))
    return out


def check(tier, seed):
    v = fw.Verdict(PROP, tier, seed)
    rng = fw.rng_for(seed, PROP)
    known = fw.load_known_findings().get(PROP, {})
    ok_p, p_info = fw.proof_stage(v, PROP, TARGETS)
    impl = fw.build_harness(release=False)
    model_exe, model_err = None, None
    try:
        ok_m, log_m = fw.coq_make(TARGETS)
        if not ok_m:
            raise fw.CheckFailure('model does not compile:\n' + log_m[-2000:])
        model_exe = fw.build_model('LOAD')
    except fw.CheckFailure as e:
        model_err = str(e)
    cases = gen_cases(rng, tier)

    # ---- stage C
    tuples = [(c.text(), bool(c.strict), c.spec or None, 1) for c in cases]
    res, lines = loadlib.run_impl(tuples, impl)
    mism = []
    if model_exe:
        mout, _ = loadlib.run_model(tuples, res, model_exe)
        for i, (r, m) in enumerate(zip(res, mout)):
            d = loadlib.compare(r, m)
            if d is not None:
                mism.append((i, d))
    # the same documents through ifdata_cleanup(): text written afterwards, model against implementation
    clean_mism = 0
    if model_exe:
        try:
            clean_exe = fw.build_model('LOADCLEAN')
            cl_impl = fw.run_sharded([impl, 'LOADCLEAN'], lines)
            cl_lines = []
            for (t, s_, sp, cyc), r in zip(tuples, res):
                cl_lines.append(sx.enc([t, 1 if s_ else 0, [sp] if sp else [], 0, r.ftab if r.ftab is not None else [], r.a2ml[0], r.a2ml[1]]))
            cl_model = fw.run_sharded([clean_exe], cl_lines)
            for i, (a, b) in enumerate(zip(cl_impl, cl_model)):
                if a is None or b is None or a.startswith('DIED') or b.startswith('DIED'):
                    continue
                x, y = sx.dec(a), sx.dec(b)
                if x[0] == b'OK' and y[0] == b'OK' and x[1] != y[1]:
                    clean_mism += 1
                    mism.append((i, 'text written after ifdata_cleanup() differs between model and implementation'))
                elif x[0] != y[0] and y[0] != b'UNSUPPORTED':
                    clean_mism += 1
                    mism.append((i, 'ifdata_cleanup: status %s vs %s' % (x[0], y[0])))
        except fw.CheckFailure as e:
            model_err = str(e)
    # ---- stage W
    answers = g.run_ifdata([c.tuple() for c in cases], binary=impl)
    failures = []
    stats = collections.Counter()
    for i, (c, a) in enumerate(zip(cases, answers)):
        stats['cases:' + c.label] += 1
        if a is not None and g._s(a[0]) == 'OK':
            for lv, lt in g.answer_blocks(a):
                stats['blocks valid' if lv else 'blocks invalid'] += 1
        for cls, why, bi in oracle(c, a):
            failures.append((i, cls, why, bi))
    # the known rejected definitions (fixed list)
    rej = g.run_ifdata([(t, '', ['/begin IF_DATA /end IF_DATA'], 1) for t in REJECTED_DEFINITIONS.values()], binary=impl)
    for (key, t), a in zip(REJECTED_DEFINITIONS.items(), rej):
        if a is None or g._s(a[0]) != 'OK':
            failures.append((('rej', key), key, 'well-formed definition rejected: %s -> %s' % (t, a and g._s(a[2])[:160]), None))

    v.coverage.update({
        'evaluations': len(cases), 'distinct_nontrivial': len(set(c.text() for c in cases)),
        'rule': ('grammar-generated A2ML definitions (depth 1-4; all 10 scalar types, char[n], arrays, enums with and without values, '
                 'structs, sequences, taggedstruct with single/repeated/block members, taggedunion, named types by reference), each with '
                 'conforming instances (both integer notations, floats with exponents, escaped strings, comments inside) and single-token '
                 'deviations; definition in the file / built-in / both identical / both different; strict and non-strict; '
                 'non-trivial = distinct document'),
        'statistics': dict(stats),
        'correspondence_mismatches': len(mism), 'cleanup_text_mismatches': clean_mism, 'traces_validated_against_impl': len(cases) - len(mism) if model_exe else 0,
        'implementation_answers': dict(collections.Counter(r.status for r in res)),
        'oracle_failures': len(failures), 'oracle_failure_classes': dict(collections.Counter(f[1] for f in failures)),
        'samples': [cases[0].text()[:700]] if cases else [],
        'trusted_base': ['Coq kernel; extraction (ExtrOcamlBasic, ExtrOcamlString) and OCaml for the model run',
                         'the type specification the library derives from an A2ML text is an INPUT of the model (hook verif_hooks::parse_a2ml); '
                         'the A2ML-text parser itself is judged by the reference interpreter of checks/a2mlgen.py, not by the model',
                         'checks/a2mlgen.py: definition/instance generators and the reference interpreter (independent of the Rust code)'],
    })
    v.assumptions = ['definitions are unambiguous under greedy reading (the generator rejects ambiguous ones)',
                     'hex notation for float members and, in non-strict mode, over-long strings / identifiers for strings are accepted '
                     'leniencies of the library and not counted as deviations']
    reported, seen = 0, set()
    for i, cls, why, bi in failures:
        if cls in known:
            v.known(cls, known[cls])
            continue
        if cls in seen or reported >= 3:
            continue
        seen.add(cls)
        if isinstance(i, tuple):
            payload = {'kind': 'IFDATA', 'a2ml': REJECTED_DEFINITIONS[i[1]], 'spec': '', 'blocks': ['/begin IF_DATA /end IF_DATA'], 'strict': 1}
        else:
            c = cases[i]
            blocks = [c.blocks[bi][0]] if bi is not None else [b[0] for b in c.blocks]
            payload = {'kind': 'IFDATA', 'a2ml': c.a2ml, 'spec': c.spec, 'blocks': blocks, 'strict': c.strict, 'label': c.label}
        payload.update({'why': why, 'class': cls, 'stage': 'W (reference interpreter against the implementation)'})
        v.violation('input', payload)
        reported += 1
    if reported == 0:
        if not ok_p:
            v.violation('proof', {'stage': 'P', 'broken_obligation': p_info.get('failing'), 'problems': p_info.get('problems'),
                                  'forbidden_constructs': p_info.get('forbidden'), 'log_tail': p_info.get('log', '')}, no_input=True)
        if model_err:
            v.violation('model', {'stage': 'C', 'broken': 'model build', 'detail': model_err}, no_input=True)
        elif mism:
            i, d = mism[0]
            v.violation('correspondence', {'stage': 'C', 'broken': 'IF_DATA parser/writer model against the implementation (%d of %d documents differ)' % (len(mism), len(cases)),
                                           'first_difference': d, 'kind': 'LOAD', 'case': lines[i], 'text': cases[i].text()}, no_input=True)
    return v.finish('proof')


def replay(r):
    impl = fw.build_harness(release=False)
    if r.get('kind') == 'IFDATA':
        a = g.run_ifdata([(r['a2ml'], r['spec'], r['blocks'], r['strict'])], binary=impl)[0]
        print('A2ML in file:\n%s\nbuilt-in:\n%s\nblocks:\n%s' % (r['a2ml'], r['spec'], '\n'.join(r['blocks'])))
        print('answer:', sx.pretty(a)[:3] if a else a)
        print('recorded:', r.get('class'), r.get('why'))
        return 1
    line = fw.run_single([impl, 'LOAD'], r['case'], timeout=120)
    print(r.get('text', '')[:3000])
    print('implementation:', line[:1500])
    print('recorded difference:', r.get('first_difference'))
    return 1
