"""a2mlgen.py -- A2ML definitions, IF_DATA instances and a reference interpreter (property C18).

Nothing in this file is derived from the Rust code: the abstract syntax follows the A2ML grammar of the ASAM MCD-2 MC
standard, the interpreter reads an IF_DATA token sequence "as the definition says".  Everything is deterministic
given the `rng` (random.Random) that is passed in.

ABSTRACT SYNTAX (python objects)
  Scalar(kind)                 kind in char int long int64 uchar uint ulong uint64 float double
  Array(elem, dims)            `elem[d1][d2]...`; Array(Scalar('char'), [n]) is a string of at most n bytes
  Enum(name, items)            items = [(identifier, value | None)]
  Struct(name, members)        members = [type | Seq(type)]    (Seq as a struct member = `( type )*;`, NOT in the ASAM grammar)
  TaggedStruct(name, members)  members = [TaggedMember]
  TaggedUnion(name, members)   members = [TaggedMember]        (rep_outer is always False)
  TaggedMember(tag, typ, is_block, rep_outer)     typ = None | type | Seq(type)
          `"TAG" typ;`  `block "TAG" typ;`  `("TAG" typ)*;`  `(block "TAG" typ)*;`   Seq(t) renders as `( t )*`
  Seq(item)                    repetition, only in the two positions named above
  Ref(target)                  `struct X` / `taggedstruct X` / `taggedunion X` / `enum X`: use of a type declared earlier
  Definition(decls, ifdata, extra)   decls = named types declared at the top level (in order), ifdata = TaggedMember with
                               tag IF_DATA and is_block=True, extra = further top level declarations rendered after the
                               named types (blocks with another tag, anonymous types)
  name = None: anonymous type.  A named type that is not in `decls` is rendered with its name at the place of use
  (`struct X { ... }` inside a member).

VALUE TREE  (the shape of the library's GenericIfData with all layout information removed; python lists, all text as str)
  tree of an IF_DATA block        = block(T)                    T = the type after `block "IF_DATA"`
  block(T)                        = ['Block', *members]  if T is (a reference to) a struct:   members = v(m) of every member
                                  = ['Block', v(T)]      otherwise;   ['Block', ['None']] for a tag without a type
  v(char|int|long|int64|uchar|uint|ulong|uint64) = [Kind, value, hex]   Kind = Char Int Long Int64 UChar UInt ULong UInt64
                                    hex = 1 iff written 0x...; a hex literal denotes the BIT PATTERN of the value, so
                                    0xFF read as `char` has value -1 (convention shared with the library, see NOTES)
  v(float)                        = ['Float', bits]      bits = IEEE-754 binary64 bit pattern of the value ROUNDED TO binary32
  v(double)                       = ['Double', bits]
  v(char[n])                      = ['String', text]     text = unescaped content
  v(T[d1]..[dk])                  = nested ['Array', ...]: the FIRST dimension is the innermost one, i.e. `int[2][3]` is
                                    ['Array', a, b, c] of three ['Array', x, y]   (array_nesting, see NOTES)
  v(enum)                         = ['EnumItem', identifier]
  v(struct)                       = ['Struct', *members]
  v(Seq(t))                       = ['Sequence', *items]
  v(taggedstruct)                 = ['TaggedStruct', [tag, item, item...], ...]   one entry per tag that occurs, entries sorted by the
                                    bytes of the tag, items of one tag in order of occurrence;  item = [block(T of the member), is_block]
  v(taggedunion)                  = ['TaggedUnion', [tag, item]] or ['TaggedUnion'] when no member is present
  The relative order of items with different tags is not part of the tree; it is checked on the written text
  (written_ifdata_tokens / tokens_preserved).
  normalize(gifd) maps a decoded harness dump (dump_gen::dump_gifd) to this shape by dropping: the offset of every scalar,
  incfile and line of Struct / Block, and of a tagged item everything except data and is_block.

NOTES (conventions of the reference interpreter, all switchable through interpret(..., lenient={...}))
  * repetition is greedy: a Seq takes items as long as one more item can be read completely; a failed item is rolled back
  * tagged members are accepted in any order; a taggedstruct / taggedunion ends at the first token that is not one of its tags
    (with matching block-ness); once a tag is recognised its content must conform (no backtracking)
  * a member of a taggedstruct that is not repeated `( ... )*` may occur at most once      lenient 'multiplicity' switches this off
  * a taggedunion holds at most one member; no member at all is accepted                    lenient 'union_required' demands one
  * decimal integers must lie in the range of the type, hex integers must fit its width
  * a float / double member takes a decimal literal (integer literals included); hex is not a float   lenient 'hex_float'
  * char[n]: a quoted string of at most n bytes after unescaping                            lenient 'long_string', 'ident_string'
  * an IF_DATA block without content conforms iff the definition accepts the empty sequence  lenient 'empty_invalid'
  * comments inside IF_DATA are ignored

API
  gen_definition(rng, depth=3, **opts) -> Definition        (options: see the function; by default the definition keeps to the
                                                   letter of the grammar and ambiguities(defn) is empty)
  render_definition(defn, rng=None, split_repeat=False) -> str      rng given: random whitespace / comments between the tokens
  ambiguities(defn, strict=True) -> [str]          places where a greedy reading and the grammar can disagree (see function)
  gen_instance(rng, defn, **opts) -> Instance      Instance is a tuple (text, tree) with .tokens / .spans / .flags
  deviate(rng, defn, instance, n=8, overflow=False) -> [(kind, text)]
  interpret(defn, ifdata_text, lenient=()) -> (valid, tree | None)      ALL_LENIENT = names of the switchable rules
  tokenize_ifdata(text) -> [(class, text)]         class in BEGIN END ID STR NUM
  normalize(gifd) -> tree ; tree_diff(a, b) ; compare(answer_block, expected) -> None | str
  case_line(a2ml, spec, blocks, strict) -> str     one IFDATA case line
  run_ifdata(cases, memlimit_kb=3000000, timeout=600, single_timeout=20) -> [answer | None]
                                                   cases = [(a2ml, spec, [block text], strict)]; answer = decoded harness answer
                                                   (format: harness/implrun/src/ifdata_case.rs)
  answer_blocks(answer) -> [(valid, tree | None)]
  written_ifdata_tokens(written text) -> [[token]] ; token_change(a, b, role, kind) ; tokens_preserved(intext, outtoks, inst=None)
  a2ml_wellformed(text, relax=()) -> None | message       recogniser of the A2ML grammar; A2ML_RELAX = names of the relaxations
  definition_tokens(defn) ; mutate_definition_text(rng, defn) -> (kind, text)     one-token mutations of a definition text
"""
import os
import re
import struct
import sys

_VERIF = os.path.dirname(os.path.dirname(os.path.abspath(__file__)))
for _p in (os.path.join(_VERIF, 'tools'), _VERIF):
    if _p not in sys.path:
        sys.path.insert(0, _p)

# ------------------------------------------------------------------------------------------------
# 1. abstract syntax

INT_TYPES = {  # keyword -> (bits, signed, Kind)
    'char': (8, True, 'Char'), 'int': (16, True, 'Int'), 'long': (32, True, 'Long'), 'int64': (64, True, 'Int64'),
    'uchar': (8, False, 'UChar'), 'uint': (16, False, 'UInt'), 'ulong': (32, False, 'ULong'),
    'uint64': (64, False, 'UInt64'),
}
FLOAT_TYPES = {'float': 'Float', 'double': 'Double'}
SCALARS = list(INT_TYPES) + list(FLOAT_TYPES)
KEYWORDS = set(SCALARS) | {'block', 'enum', 'struct', 'taggedstruct', 'taggedunion'}


class Scalar:
    def __init__(self, kind):
        assert kind in INT_TYPES or kind in FLOAT_TYPES
        self.kind = kind


class Array:
    def __init__(self, elem, dims):
        self.elem = elem
        self.dims = list(dims)


class Enum:
    kw = 'enum'

    def __init__(self, name, items):
        self.name = name
        self.items = list(items)


class Struct:
    kw = 'struct'

    def __init__(self, name, members):
        self.name = name
        self.members = list(members)


class TaggedMember:
    def __init__(self, tag, typ=None, is_block=False, rep_outer=False):
        self.tag = tag
        self.typ = typ
        self.is_block = is_block
        self.rep_outer = rep_outer


class TaggedStruct:
    kw = 'taggedstruct'

    def __init__(self, name, members):
        self.name = name
        self.members = list(members)


class TaggedUnion:
    kw = 'taggedunion'

    def __init__(self, name, members):
        self.name = name
        self.members = list(members)


class Seq:
    def __init__(self, item):
        self.item = item


class Ref:
    def __init__(self, target):
        assert target.name
        self.target = target


class Definition:
    def __init__(self, decls, ifdata, extra=()):
        self.decls = list(decls)
        self.ifdata = ifdata
        self.extra = list(extra)

    def text(self, rng=None):
        return render_definition(self, rng)


def resolve(t):
    while isinstance(t, Ref):
        t = t.target
    return t


def is_string(t):
    t = resolve(t)
    return isinstance(t, Array) and isinstance(resolve(t.elem), Scalar) and resolve(t.elem).kind == 'char'


def array_levels(t):
    """Array(elem, [d1..dk]) as the list of nested (element type, dimension) readings, outermost first.
    array_nesting: the first dimension written is the innermost one."""
    # int[2][3]  ->  outer dim 3 of (inner dim 2 of int)
    return list(reversed(t.dims))


def type_depth(t):
    t0 = t
    t = resolve(t)
    if t is None or isinstance(t, (Scalar, Enum)):
        return 0
    if isinstance(t, Array):
        return type_depth(t.elem)
    if isinstance(t, Seq):
        return type_depth(t.item)
    if isinstance(t, Struct):
        return 1 + max([type_depth(m) for m in t.members] or [0])
    if isinstance(t, (TaggedStruct, TaggedUnion)):
        return 1 + max([type_depth(m.typ) for m in t.members] or [0])
    raise TypeError(t0)


# ------------------------------------------------------------------------------------------------
# 2. rendering

def _tokens_type(t, out, declared):
    """append the A2ML tokens of a use of type t; `declared` = set of ids of named types already rendered"""
    if isinstance(t, Ref):
        out += [t.target.kw, t.target.name]
        return
    if isinstance(t, Scalar):
        out.append(t.kind)
        return
    if isinstance(t, Array):
        _tokens_type(t.elem, out, declared)
        for d in t.dims:
            out += ['[', str(d), ']']
        return
    if isinstance(t, Seq):
        out.append('(')
        _tokens_type(t.item, out, declared)
        out.append(')*')
        return
    if isinstance(t, Enum):
        out.append('enum')
        if t.name:
            out.append(t.name)
        out.append('{')
        for i, (item, val) in enumerate(t.items):
            if i:
                out.append(',')
            out.append('"%s"' % item)
            if val is not None:
                out += ['=', val if isinstance(val, str) else str(val)]
        out.append('}')
        return
    if isinstance(t, Struct):
        out.append('struct')
        if t.name:
            out.append(t.name)
        out.append('{')
        for m in t.members:
            _tokens_type(m, out, declared)
            out.append(';')
        out.append('}')
        return
    if isinstance(t, (TaggedStruct, TaggedUnion)):
        out.append(t.kw)
        if t.name:
            out.append(t.name)
        out.append('{')
        for m in t.members:
            _tokens_tagged(m, out, declared)
            out.append(';')
        out.append('}')
        return
    raise TypeError(t)


def _tokens_tagged(m, out, declared):
    if m.rep_outer:
        out.append('(')
    if m.is_block:
        out.append('block')
    out.append('"%s"' % m.tag)
    if m.typ is not None:
        _tokens_type(m.typ, out, declared)
    if m.rep_outer:
        out.append(')*')


_PUNCT = set('{};,=[]()') | {')*'}
_COMMENTS = ['/* c */', '/* "x" { ; */', '// line comment', '/** doc **/', '/* multi\n   line */', '// "q" }']


def render_definition(defn, rng=None, split_repeat=False):
    """A2ML text of the definition.  rng=None: one declaration per line, single blanks.
    rng given: random whitespace, line breaks and comments between the tokens (never inside a token; `)*` stays
    one unit unless split_repeat)."""
    decl_tokens = []
    declared = set()
    for d in defn.decls:
        toks = []
        _tokens_type(d, toks, declared)
        toks.append(';')
        decl_tokens.append(toks)
    for e in defn.extra:
        toks = []
        if isinstance(e, TaggedMember):
            _tokens_tagged(e, toks, declared)
        else:
            _tokens_type(e, toks, declared)
        toks.append(';')
        decl_tokens.append(toks)
    pos = getattr(defn, 'ifdata_pos', None)
    toks = []
    _tokens_tagged(defn.ifdata, toks, declared)
    toks.append(';')
    if pos is None or pos >= len(decl_tokens):
        decl_tokens.append(toks)
    else:
        decl_tokens.insert(max(pos, len(defn.decls)), toks)
    if rng is None:
        return '\n'.join(' '.join(t) for t in decl_tokens)
    out = []
    flat = [t for d in decl_tokens for t in d]
    prev = None
    for t in flat:
        parts = [t]
        if t == ')*' and split_repeat:
            parts = [')', '*']
        for p in parts:
            if prev is not None:
                need = not (prev in _PUNCT or p in _PUNCT or prev in (')', '*') or p in (')', '*'))
                r = rng.random()
                if r < 0.08:
                    c = rng.choice(_COMMENTS)
                    sep = ' ' + c + ('\n' if c.startswith('//') else ' ')
                elif r < 0.30:
                    sep = '\n' + ' ' * rng.randrange(0, 6)
                elif r < 0.40:
                    sep = '\t'
                elif r < 0.55 and not need:
                    sep = ''
                else:
                    sep = ' ' * rng.randrange(1, 3)
                out.append(sep)
            out.append(p)
            prev = p
    return ''.join(out)


# ------------------------------------------------------------------------------------------------
# 3. static analysis: first sets, nullability, ambiguities

def nullable(t):
    t = resolve(t)
    if t is None:
        return True
    if isinstance(t, (Scalar, Enum)):
        return False
    if isinstance(t, Array):
        if is_string(t) and len(t.dims) == 1:
            return False
        return nullable(t.elem) or any(d == 0 for d in t.dims)
    if isinstance(t, Seq):
        return True
    if isinstance(t, Struct):
        return all(nullable(m) for m in t.members)
    if isinstance(t, (TaggedStruct, TaggedUnion)):
        return True
    raise TypeError(t)


def first(t):
    """set of token classes that can start a non-empty reading of t: 'NUM', 'STR', 'ID:<name>', 'BEGIN:<tag>'"""
    t = resolve(t)
    if t is None:
        return set()
    if isinstance(t, Scalar):
        return {'NUM'}
    if isinstance(t, Enum):
        return {'ID:' + i for i, _ in t.items}
    if isinstance(t, Array):
        if is_string(t):
            return {'STR'}
        return first(t.elem)
    if isinstance(t, Seq):
        return first(t.item)
    if isinstance(t, Struct):
        out = set()
        for m in t.members:
            out |= first(m)
            if not nullable(m):
                break
        return out
    if isinstance(t, (TaggedStruct, TaggedUnion)):
        return {('BEGIN:' if m.is_block else 'ID:') + m.tag for m in t.members}
    raise TypeError(t)


def _clash(a, b, strict):
    c = a & b
    if not strict and (('STR' in a and any(x.startswith('ID:') for x in b))):
        # without strict parsing an identifier is accepted where a string is expected
        c = c | {'STR~ID'}
    return c


def ambiguities(defn, strict=True):
    """Places of the definition where reading greedily / tag-first is not the only reading the grammar allows, or where
    the definition is pathological:
       seq-follow      a repetition is followed by something that can start like one more item
       tag-follow      a taggedstruct / taggedunion is followed by something that starts with one of its tags
       nullable-item   the item of a repetition (or the element of an array) can be empty
       dup-tag / dup-enum   a tag / enum item occurs twice in one type
    Returns a list of strings 'kind: path'."""
    out = []

    def walk(t, follow, path):
        t = resolve(t)
        if t is None or isinstance(t, Scalar):
            return
        if isinstance(t, Enum):
            names = [i for i, _ in t.items]
            if len(set(names)) != len(names):
                out.append('dup-enum: ' + path)
            return
        if isinstance(t, Array):
            if is_string(t) and len(t.dims) == 1:
                return
            if nullable(t.elem):
                out.append('nullable-item: ' + path + '[]')
            walk(t.elem, follow | first(t.elem), path + '[]')
            return
        if isinstance(t, Seq):
            if nullable(t.item):
                out.append('nullable-item: ' + path + '()*')
            c = _clash(first(t.item), follow, strict)
            if c:
                out.append('seq-follow: %s ()* %s' % (path, sorted(c)))
            walk(t.item, follow | first(t.item), path + '()*')
            return
        if isinstance(t, Struct):
            for i, m in enumerate(t.members):
                f = set()
                rest_nullable = True
                for n in t.members[i + 1:]:
                    f |= first(n)
                    if not nullable(n):
                        rest_nullable = False
                        break
                if rest_nullable:
                    f |= follow
                walk(m, f, '%s.%d' % (path, i))
            return
        if isinstance(t, (TaggedStruct, TaggedUnion)):
            tags = first(t)
            keys = [('B:' if m.is_block else 'I:') + m.tag for m in t.members]
            if len(set(m.tag for m in t.members)) != len(t.members):
                out.append('dup-tag: ' + path)
            c = tags & follow
            if c:
                out.append('tag-follow: %s %s' % (path, sorted(c)))
            for m in t.members:
                if m.is_block:
                    f = {'END'}
                elif isinstance(t, TaggedStruct):
                    f = follow | tags
                else:
                    f = set(follow)
                walk(m.typ, f, '%s."%s"' % (path, m.tag))
            return
        raise TypeError(t)

    walk(defn.ifdata.typ, {'END'}, 'IF_DATA')
    return out


# ------------------------------------------------------------------------------------------------
# 4. definition generator

_TAGWORDS = ['XCP', 'CCP', 'DAQ', 'PAG', 'PGM', 'SEGMENT', 'EVENT', 'TIMESTAMP', 'PROTOCOL_LAYER', 'CAN', 'ETH', 'TP',
             'OPT', 'SRC', 'RASTER', 'ADDR', 'KP_BLOB', 'CHECKSUM', 'PAGE', 'SEED_KEY', 'T', 'Q.R', 'V[0]', '_X', 'int',
             'block', 'TAG', 'N', 'LIST', 'MODE']
_ENUMWORDS = ['ON', 'OFF', 'BYTE', 'WORD', 'DWORD', 'MSB_FIRST', 'MSB_LAST', 'STATIC', 'DYNAMIC', 'UNIT_1MS', 'E', 'abc',
              'NONE', 'ALL', 'x.y', 'Z[1]', '_e', 'PARITY_ODD', 'SLAVE', 'MASTER']
_TYPEWORDS = ['Common', 'Daq', 'Event', 'Layer', 'Seg', 'Par', 'Mode', 'Unit', 'ty', 'T_x', 'Blob', 'Res']


class _Ctx:
    def __init__(self, rng, opts):
        self.rng = rng
        self.o = opts
        self.n = 0
        self.named = []      # named types available for Ref
        self.used_names = set()

    def tag(self):
        self.n += 1
        if self.o.get('collide') and self.rng.random() < 0.5:
            return self.rng.choice(_TAGWORDS[:6])
        return '%s%d' % (self.rng.choice(_TAGWORDS), self.n) if self.rng.random() < 0.8 else \
            '%s_%d' % (self.rng.choice(_TAGWORDS), self.n)

    def enumitem(self):
        self.n += 1
        if self.o.get('collide') and self.rng.random() < 0.5:
            return self.rng.choice(_TAGWORDS[:6])
        return '%s%d' % (self.rng.choice(_ENUMWORDS), self.n)

    def typename(self, kw):
        while True:
            self.n += 1
            nm = '%s%d' % (self.rng.choice(_TYPEWORDS), self.n)
            if (kw, nm) not in self.used_names and nm not in KEYWORDS:
                self.used_names.add((kw, nm))
                return nm


def _gen_scalar(ctx):
    return Scalar(ctx.rng.choice(SCALARS))


def _gen_enum(ctx, name=None):
    rng = ctx.rng
    n = rng.randrange(1, 5)
    mode = rng.randrange(3)   # 0: no values, 1: all values, 2: mixed
    items = []
    seen = set()
    for _ in range(n):
        it = ctx.enumitem()
        if it in seen:
            continue
        seen.add(it)
        val = None
        if mode == 1 or (mode == 2 and rng.random() < 0.5):
            r = rng.random()
            if r < 0.2:
                val = '0x%X' % rng.randrange(0, 0x7FFFFFFF)
            elif r < 0.3 and ctx.o.get('neg_enum'):
                val = -rng.randrange(1, 1000)
            elif r < 0.4:
                val = rng.choice([0, 2147483647, 255, 65535])
            else:
                val = rng.randrange(0, 300)
        items.append((it, val))
    return Enum(name, items)


def _gen_array(ctx, depth):
    rng = ctx.rng
    r = rng.random()
    if r < 0.5:
        elem = _gen_scalar(ctx)
        while elem.kind == 'char':
            elem = _gen_scalar(ctx)
    elif r < 0.7:
        elem = _gen_enum(ctx)
    elif r < 0.8 and depth >= 1:
        elem = _gen_struct(ctx, depth - 1, arr=True)
    elif r < 0.9 and ctx.o.get('char_multidim'):
        return Array(Scalar('char'), [rng.randrange(2, 9), rng.randrange(1, 4)])
    else:
        elem = _gen_scalar(ctx)
        while elem.kind == 'char':
            elem = _gen_scalar(ctx)
    dims = [rng.randrange(1, 5)]
    if ctx.o.get('multidim', True) and rng.random() < 0.2:
        dims.append(rng.randrange(1, 4))
    if ctx.o.get('dim0') and rng.random() < 0.2:
        dims[0] = 0
    return Array(elem, dims)


def _gen_string(ctx):
    return Array(Scalar('char'), [ctx.rng.choice([1, 2, 5, 10, 20, 50, 256])])


def _gen_member_type(ctx, depth, allow_tagged=True):
    """a type in member position (struct member, content of a tagged member, array excluded from recursion)"""
    rng = ctx.rng
    r = rng.random()
    if depth <= 0:
        r *= 0.62
    cands = [n for n in ctx.named if type_depth(n) <= depth]
    if cands and rng.random() < 0.15:
        t = rng.choice(cands)
        if allow_tagged or isinstance(t, (Enum, Struct)):
            return Ref(t)
    if r < 0.30:
        return _gen_scalar(ctx)
    if r < 0.40:
        return _gen_string(ctx)
    if r < 0.50:
        return _gen_array(ctx, depth)
    if r < 0.62:
        return _gen_enum(ctx, ctx.typename('enum') if rng.random() < 0.1 else None)
    if r < 0.76:
        return _gen_struct(ctx, depth - 1)
    if not allow_tagged:
        return _gen_struct(ctx, depth - 1)
    if r < 0.90:
        return _gen_tagged(ctx, depth - 1, TaggedStruct)
    return _gen_tagged(ctx, depth - 1, TaggedUnion)


def _local_ok(t, opts):
    """no ambiguity inside t when nothing can follow it (follow conflicts are seen by the enclosing type)"""
    d = Definition([], TaggedMember('IF_DATA', t, True))
    return not ambiguities(d, strict=not opts.get('nonstrict_safe', True))


def _gen_struct(ctx, depth, name=None, arr=False):
    rng = ctx.rng
    for attempt in range(30):
        n = rng.choice([1, 1, 2, 2, 3, 3, 4, 5])
        if ctx.o.get('empty_compound') and rng.random() < 0.15:
            n = 0
        members = []
        for i in range(n):
            t = _gen_member_type(ctx, depth, allow_tagged=not arr)
            if ctx.o.get('struct_repeat') and rng.random() < 0.25:
                t = Seq(t)
            members.append(t)
        s = Struct(name, members)
        if ctx.o.get('allow_ambiguous') or _local_ok(s, ctx.o):
            if arr and nullable(s) and not ctx.o.get('allow_ambiguous'):
                continue
            return s
    return Struct(name, [_gen_scalar(ctx)])


def _gen_tagged(ctx, depth, cls, name=None):
    rng = ctx.rng
    for attempt in range(30):
        n = rng.choice([1, 2, 2, 3, 3, 4, 5])
        if ctx.o.get('empty_compound') and rng.random() < 0.15:
            n = 0
        members = []
        tags = set()
        for i in range(n):
            tag = ctx.tag()
            if tag in tags and not ctx.o.get('dup_tags'):
                continue
            tags.add(tag)
            is_block = rng.random() < 0.4
            rep_outer = cls is TaggedStruct and rng.random() < 0.35
            r = rng.random()
            if r < 0.12:
                typ = None
            else:
                typ = _gen_member_type(ctx, depth)
                if rng.random() < 0.25:
                    if not nullable(typ) or ctx.o.get('nullable_seq'):
                        typ = Seq(typ)
            if typ is None and rep_outer and not ctx.o.get('rep_none'):
                rep_outer = False
            typ, is_block = _grammar_fix(ctx, cls, typ, is_block)
            members.append(TaggedMember(tag, typ, is_block, rep_outer))
        t = cls(name, members)
        if ctx.o.get('allow_ambiguous') or _local_ok(t, ctx.o):
            return t
    return cls(name, [TaggedMember(ctx.tag(), _gen_scalar(ctx), False, False)])


def _grammar_fix(ctx, cls, typ, is_block):
    """keep to the letter of the grammar unless the corresponding option is set"""
    if is_block and typ is None and not ctx.o.get('block_notype'):
        is_block = False
    if is_block and not ctx.o.get('block_member'):
        inner = typ.item if isinstance(typ, Seq) else typ
        if isinstance(inner, Array):
            inner = Struct(None, [inner])
            typ = Seq(inner) if isinstance(typ, Seq) else inner
    if cls is TaggedUnion and isinstance(typ, Seq) and not is_block and not ctx.o.get('tu_seq'):
        typ = typ.item
    return typ, is_block


def gen_definition(rng, depth=3, **opts):
    """A random well-formed definition (nesting depth of compound types <= depth <= 4).
    opts (all default False unless noted):
       allow_ambiguous  keep definitions for which ambiguities() is not empty (default: such definitions are never returned)
       nonstrict_safe   (default True) also avoid places where an identifier could be taken for a string (non-strict parsing)
       struct_repeat    `( member )*;` as struct member (not in the ASAM grammar)
       nullable_seq     allow `( t )*` with an item type that can be empty (never terminates in a naive greedy reader)
       empty_compound   `struct { }`, `taggedstruct { }`, `taggedunion { }`
       neg_enum         negative enumerator constants
       rep_none         `("TAG")*;` / `(block "TAG")*;`: a repeated tagged member without a type
       block_notype     `block "TAG";` a block without a type            } constructs outside the letter of the grammar
       block_member     `block "TAG" uint[3];` array dimensions behind the type of a block    } (a2ml_wellformed relax names)
       tu_seq           `"TAG" ( member )*;` inside a taggedunion          }
       inline_named     named types defined at the place of use (not at the top level), without later reference
       inline_named_ref ... and referenced later by name
       multidim (True)  arrays with two dimensions; char_multidim: `char[n][m]`; dim0: `t[0]`
       collide          tags and enum items are drawn from a small pool so that they collide (implies allow_ambiguous)
       dup_tags         (with collide) the same tag may occur twice in one taggedstruct / taggedunion
       top              kind of the type of the IF_DATA block: 'taggedunion' 'struct' 'taggedstruct' 'seq' 'other' (default random)
       extra_blocks     further `block "OTHER" ...;` declarations and anonymous top level types
    """
    assert 0 <= depth <= 4
    if opts.get('collide'):
        opts['allow_ambiguous'] = True
    for attempt in range(200):
        ctx = _Ctx(rng, opts)
        decls = []
        for i in range(rng.choice([0, 1, 1, 2, 3])):
            d = rng.randrange(0, max(depth, 1))
            kind = rng.choice(['enum', 'struct', 'taggedstruct', 'taggedunion'])
            if kind == 'enum':
                t = _gen_enum(ctx, ctx.typename('enum'))
            elif kind == 'struct':
                t = _gen_struct(ctx, d - 1 if d else 0, ctx.typename('struct'))
            elif kind == 'taggedstruct':
                t = _gen_tagged(ctx, d - 1 if d else 0, TaggedStruct, ctx.typename('taggedstruct'))
            else:
                t = _gen_tagged(ctx, d - 1 if d else 0, TaggedUnion, ctx.typename('taggedunion'))
            if type_depth(t) > max(depth - 1, 0):
                continue
            decls.append(t)
            ctx.named.append(t)
        top = opts.get('top') or rng.choice(['taggedunion'] * 5 + ['struct'] * 3 + ['taggedstruct', 'seq', 'other'])
        inner = max(depth - 1, 0)
        if top == 'taggedunion':
            t = _gen_tagged(ctx, inner, TaggedUnion, ctx.typename('taggedunion') if rng.random() < 0.5 else None)
        elif top == 'struct':
            t = _gen_struct(ctx, inner)
        elif top == 'taggedstruct':
            t = _gen_tagged(ctx, inner, TaggedStruct)
        elif top == 'seq':
            t = _gen_struct(ctx, inner)
            if nullable(t) and not opts.get('nullable_seq'):
                continue
            t = Seq(t)
        else:
            t = _gen_member_type(ctx, depth)
        t, _ = _grammar_fix(ctx, None, t, True)
        if type_depth(t) > depth:
            continue
        defn = Definition(decls, TaggedMember('IF_DATA', t, True))
        if opts.get('inline_named') or opts.get('inline_named_ref'):
            _name_inline(ctx, defn, opts.get('inline_named_ref'))
        if opts.get('extra_blocks'):
            for i in range(rng.randrange(1, 3)):
                if rng.random() < 0.5:
                    defn.extra.append(TaggedMember(rng.choice(['OTHER', 'IF_DATA_X', 'A2ML_VERSION']),
                                                   _gen_member_type(ctx, 1), True))
                else:
                    defn.extra.append(rng.choice([_gen_scalar(ctx), _gen_enum(ctx), _gen_struct(ctx, 0)]))
            if rng.random() < 0.5:
                defn.ifdata_pos = 0
        if opts.get('allow_ambiguous') or not ambiguities(defn, strict=not opts.get('nonstrict_safe', True)):
            return defn
    raise RuntimeError('gen_definition: no unambiguous definition found')


def _name_inline(ctx, defn, with_ref):
    """give names to some anonymous compound types inside the IF_DATA block (defined where they are used); with_ref:
    additionally replace a later structurally independent member by a reference to such a type (appended to a struct)"""
    found = []

    def walk(t):
        t = t if not isinstance(t, Ref) else None
        if t is None or isinstance(t, Scalar):
            return
        if isinstance(t, Array):
            walk(t.elem)
        elif isinstance(t, Seq):
            walk(t.item)
        elif isinstance(t, Enum):
            found.append(t)
        elif isinstance(t, Struct):
            found.append(t)
            for m in t.members:
                walk(m)
        else:
            found.append(t)
            for m in t.members:
                walk(m.typ)

    walk(defn.ifdata.typ)
    anon = [t for t in found if not t.name and t is not resolve(defn.ifdata.typ)]
    ctx.rng.shuffle(anon)
    for t in anon[:2]:
        t.name = ctx.typename(t.kw)
    if with_ref and anon:
        t = anon[0]
        top = resolve(defn.ifdata.typ)
        if isinstance(top, (TaggedUnion, TaggedStruct)) and isinstance(t, (Enum, Struct)):
            top.members.append(TaggedMember(ctx.tag() + '_R', Ref(t), False, False))
            defn.inline_ref = t


# ------------------------------------------------------------------------------------------------
# 5. scalars: literals and values

def f64_bits(x):
    return struct.unpack('<Q', struct.pack('<d', x))[0]


def to_f32(x):
    """x rounded to binary32 (as a python float); None when the result is not finite"""
    try:
        return struct.unpack('<f', struct.pack('<f', x))[0]
    except OverflowError:
        return None


_DEC_INT = re.compile(r'^[+-]?[0-9]+$')
_HEX_INT = re.compile(r'^0[xX][0-9a-fA-F]+$')
_DEC_FLOAT = re.compile(r'^[+-]?([0-9]+\.?[0-9]*|\.[0-9]+)([eE][+-]?[0-9]+)?$')


def read_int(kind, text):
    """value tree of an integer literal read as `kind`, or None"""
    bits, signed, K = INT_TYPES[kind]
    if _HEX_INT.match(text):
        pat = int(text[2:], 16)
        if pat >> bits:
            return None
        v = pat - (1 << bits) if signed and pat >> (bits - 1) else pat
        return [K, v, 1]
    if _DEC_INT.match(text):
        v = int(text)
        lo, hi = (-(1 << (bits - 1)), (1 << (bits - 1)) - 1) if signed else (0, (1 << bits) - 1)
        if not lo <= v <= hi:
            return None
        if not signed and text.startswith('-'):
            return None
        return [K, v, 0]
    return None


def read_float(kind, text, hex_ok=False):
    if hex_ok and _HEX_INT.match(text):
        n = int(text[2:], 16)
        if n >> 64:
            return None
        x = float(n)
    elif _DEC_FLOAT.match(text):
        x = float(text)
    else:
        return None
    if x != x or x in (float('inf'), float('-inf')):
        return None
    if kind == 'float':
        x = to_f32(x)
        if x is None:
            return None
    return [FLOAT_TYPES[kind], f64_bits(x)]


def unescape(body):
    """content of a quoted string (without the enclosing quotes) -> text"""
    out = []
    i = 0
    n = len(body)
    while i < n:
        c = body[i]
        if c == '\\' and i + 1 < n and body[i + 1] in '"\'\\ntr':
            out.append({'"': '"', "'": "'", '\\': '\\', 'n': '\n', 't': '\t', 'r': '\r'}[body[i + 1]])
            i += 2
        elif c == '"' and i + 1 < n and body[i + 1] == '"':
            out.append('"')
            i += 2
        else:
            out.append(c)
            i += 1
    return ''.join(out)


def _gen_int_literal(rng, kind, edge=True):
    bits, signed, K = INT_TYPES[kind]
    lo, hi = (-(1 << (bits - 1)), (1 << (bits - 1)) - 1) if signed else (0, (1 << bits) - 1)
    r = rng.random()
    if r < 0.15 and edge:
        v = rng.choice([lo, hi, 0, hi - 1, lo + 1 if signed else 1])
    elif r < 0.55:
        v = rng.randrange(max(lo, -200), min(hi, 200) + 1)
    else:
        v = rng.randrange(lo, hi + 1)
    r = rng.random()
    if r < 0.40 and (v >= 0 or edge):
        # hex notation = bit pattern
        pat = v & ((1 << bits) - 1)
        fmt = rng.choice(['0x%X', '0x%x', '0x%X', '0X%X', '0x0%X', '0x%04X'])
        text = fmt % pat
        v = pat - (1 << bits) if signed and pat >> (bits - 1) else pat
        return text, [K, v, 1]
    if r < 0.45 and v >= 0:
        return '+%d' % v, [K, v, 0]
    if r < 0.50:
        return ('-0%d' % -v if v < 0 else '0%d' % v), [K, v, 0]
    return '%d' % v, [K, v, 0]


def _gen_float_literal(rng, kind):
    r = rng.random()
    if r < 0.15:
        text = str(rng.randrange(-1000, 1000))
    elif r < 0.45:
        text = '%s%d.%s' % (rng.choice(['', '-']), rng.randrange(0, 1000), ''.join(rng.choice('0123456789')
                                                                                   for _ in range(rng.randrange(1, 6))))
    elif r < 0.70:
        m = '%d.%d' % (rng.randrange(0, 10), rng.randrange(0, 1000))
        text = '%s%s%s%s%d' % (rng.choice(['', '-']), m, rng.choice('eE'), rng.choice(['', '+', '-']),
                               rng.randrange(0, 30 if kind == 'float' else 200))
    elif r < 0.78:
        text = rng.choice(['0', '0.0', '-0.0', '1e0', '.5', '5.', '+1.5', '1E3', '0.1', '0.3', '1e-5', '123456789',
                           '1e10', '1.0e+10', '10000000000.5', '0.0001', '0.00001', '-1e11'])
    elif r < 0.90:
        text = repr(rng.uniform(-1e6, 1e6))
    else:
        text = repr(rng.uniform(-1, 1) * 10.0 ** rng.randrange(-20, 20))
    t = read_float(kind, text)
    assert t is not None, text
    return text, t


_STRCHARS = 'abcXYZ 019_-+*/.,:;(){}[]<>#%&|=!?~^$@'


def _gen_string_literal(rng, maxlen):
    n = rng.randrange(0, maxlen + 1) if rng.random() < 0.8 else maxlen
    n = min(n, 40)
    val = []
    lit = []
    size = 0
    while size < n:
        r = rng.random()
        if r < 0.80:
            c = rng.choice(_STRCHARS)
            val.append(c)
            lit.append(c)
        elif r < 0.84:
            val.append('"')
            lit.append('\\"')
        elif r < 0.87:
            val.append('"')
            lit.append('""')
        elif r < 0.90:
            val.append('\\')
            lit.append('\\\\')
        elif r < 0.92:
            val.append('\n')
            lit.append('\\n')
        elif r < 0.94:
            val.append('\t')
            lit.append('\\t')
        elif r < 0.95:
            val.append("'")
            lit.append(rng.choice(["'", "\\'"]))
        elif r < 0.96:
            val.append('\r')
            lit.append('\\r')
        elif r < 0.97 and size + 2 <= n:
            val.append('é')
            lit.append('é')
            size += 1
        elif r < 0.98:
            val.append('\n')
            lit.append('\n')      # a raw line break inside the string
        else:
            val.append('/')
            lit.append('/')
            if size + 2 <= n:
                val.append('*')
                lit.append('*')
                size += 1
        size += 1
    return '"' + ''.join(lit) + '"', ''.join(val)


# ------------------------------------------------------------------------------------------------
# 6. instance generator

class Instance(tuple):
    """(text, tree) plus  .tokens = [[text, role, info]],  .spans = [(kind, first token, last token + 1, info)],
    .flags = set of remarks ('empty': the block has no content)"""
    def __new__(cls, text, tree, tokens, spans, flags):
        self = tuple.__new__(cls, (text, tree))
        self.text = text
        self.tree = tree
        self.tokens = tokens
        self.spans = spans
        self.flags = flags
        return self


class _Gen:
    def __init__(self, rng, opts):
        self.rng = rng
        self.o = opts
        self.toks = []
        self.spans = []

    def emit(self, text, role, info=None):
        self.toks.append([text, role, info])

    def value(self, t):
        rng = self.rng
        t0 = t
        t = resolve(t)
        if t is None:
            return ['None']
        if isinstance(t, Scalar):
            if t.kind in INT_TYPES:
                text, tree = _gen_int_literal(rng, t.kind, self.o.get('edge', True))
                self.emit(text, 'int', t.kind)
            else:
                text, tree = _gen_float_literal(rng, t.kind)
                self.emit(text, 'float', t.kind)
            return tree
        if isinstance(t, Enum):
            it = rng.choice(t.items)[0]
            self.emit(it, 'enum', t)
            return ['EnumItem', it]
        if isinstance(t, Array):
            return self.array(t.elem, array_levels(t))
        if isinstance(t, Seq):
            out = ['Sequence']
            if nullable(t.item):
                n = 0
            else:
                n = rng.choice([0, 1, 1, 2, 2, 3])
            s0 = len(self.toks)
            for _ in range(n):
                s = len(self.toks)
                out.append(self.value(t.item))
                self.spans.append(('seqitem', s, len(self.toks), t))
            self.spans.append(('seq', s0, len(self.toks), t))
            return out
        if isinstance(t, Struct):
            return ['Struct'] + [self.value(m) for m in t.members]
        if isinstance(t, TaggedStruct):
            plan = []
            for m in t.members:
                if m.rep_outer:
                    k = rng.choice([0, 1, 1, 2, 3])
                else:
                    k = rng.choice([0, 1, 1])
                plan += [m] * k
            rng.shuffle(plan)
            entries = {}
            s0 = len(self.toks)
            for m in plan:
                entries.setdefault(m.tag, []).append(self.titem(m, t))
            self.spans.append(('tagged', s0, len(self.toks), t))
            return ['TaggedStruct'] + [[k] + entries[k] for k in sorted(entries, key=lambda s: s.encode())]
        if isinstance(t, TaggedUnion):
            s0 = len(self.toks)
            if not t.members or (self.o.get('empty_union', True) and rng.random() < 0.08):
                self.spans.append(('tagged', s0, s0, t))
                return ['TaggedUnion']
            m = rng.choice(t.members)
            item = self.titem(m, t)
            self.spans.append(('tagged', s0, len(self.toks), t))
            return ['TaggedUnion', [m.tag, item]]
        raise TypeError(t0)

    def array(self, elem, levels):
        if is_string(Array(elem, [1])) and len(levels) >= 1:
            # char[n]...: the innermost level is the string
            if len(levels) == 1:
                text, val = _gen_string_literal(self.rng, levels[0])
                self.emit(text, 'string', levels[0])
                return ['String', val]
        out = ['Array']
        s0 = len(self.toks)
        for _ in range(levels[0]):
            s = len(self.toks)
            if len(levels) > 1:
                out.append(self.array(elem, levels[1:]))
            else:
                out.append(self.value(elem))
            self.spans.append(('arrayelem', s, len(self.toks), None))
        self.spans.append(('array', s0, len(self.toks), levels[0]))
        return out

    def block_of(self, t):
        v = self.value(t)
        if isinstance(resolve(t), Struct):
            return ['Block'] + v[1:]
        return ['Block', v]

    def titem(self, m, container):
        s = len(self.toks)
        if m.is_block:
            self.emit('/begin', 'begin')
            self.emit(m.tag, 'begintag', m)
        else:
            self.emit(m.tag, 'tag', m)
        data = self.block_of(m.typ)
        if m.is_block:
            self.emit('/end', 'end')
            self.emit(m.tag, 'endtag', m)
        self.spans.append(('titem', s, len(self.toks), (m, container)))
        return [data, 1 if m.is_block else 0]


_IFD_COMMENTS = ['/* c */', '/* "q" 1 */', '// lc', '/* /begin X */']


def join_tokens(rng, toks, comments=False, trailing_comment=False, layout=True):
    out = []
    depth = 1
    for i, tk in enumerate(toks):
        text = tk[0]
        if i:
            if text == '/end':
                depth -= 1
            r = rng.random() if layout else 1.0
            if r < 0.25:
                sep = '\n' * rng.choice([1, 1, 1, 2, 3]) + '  ' * max(depth, 0)
            elif r < 0.30:
                sep = '\t'
            else:
                sep = ' '
            last = i == len(toks) - 2     # before the final /end
            if (comments and rng.random() < 0.12 and not last) or (trailing_comment and last):
                c = rng.choice(_IFD_COMMENTS)
                sep = ' ' + c + ('\n' if c.startswith('//') else ' ')
            out.append(sep)
            if text == '/begin':
                depth += 1
        out.append(text)
    return ''.join(out)


def gen_instance(rng, defn, **opts):
    """conforming content for the definition.
    opts: edge (True) extreme values and hex literals with the top bit set for signed types; empty_union (True)
          comments (False) comments between the tokens; trailing_comment (False) a comment before /end IF_DATA;
          layout (True) random line breaks"""
    g = _Gen(rng, opts)
    g.emit('/begin', 'begin')
    g.emit('IF_DATA', 'begintag', defn.ifdata)
    tree = g.block_of(defn.ifdata.typ)
    g.emit('/end', 'end')
    g.emit('IF_DATA', 'endtag', defn.ifdata)
    flags = set()
    if len(g.toks) == 4:
        flags.add('empty')
    text = join_tokens(rng, g.toks, opts.get('comments', False), opts.get('trailing_comment', False),
                       opts.get('layout', True))
    return Instance(text, tree, g.toks, g.spans, flags)


# ------------------------------------------------------------------------------------------------
# 7. deviations

def _rejoin(rng, toks):
    return join_tokens(rng, toks, layout=False)


def deviate(rng, defn, inst, n=8, overflow=False):
    """up to n single deviations of a conforming instance; every result keeps /begin - /end balanced.
    kinds: wrong_kind (a scalar replaced by a token of another class), missing (one value removed), surplus (one value
    inserted), unknown_tag (a tag replaced by an identifier that is no tag; for a block both the /begin and the /end tag),
    unknown_block (an unknown empty block inserted), enum_unknown, array_short, array_long, string_long, range (integer
    outside the range / width of its type), dup_tag (a second occurrence of a tagged member that is not repeatable),
    block_as_tag / tag_as_block (block-ness of a tagged item flipped), second_union (a second member of a taggedunion).
    overflow=True additionally uses number tokens that no numeric type can hold (1e400, hex with more than 64 bits).
    Whether the result still conforms must be asked of interpret()."""
    toks = inst.tokens
    inner = range(2, len(toks) - 2)
    out = []
    cands = []
    vals = [i for i in inner if toks[i][1] in ('int', 'float', 'string', 'enum')]
    for i in vals:
        role = toks[i][1]
        cands.append(('missing', i))
        cands.append(('wrong_kind', i))
        if role == 'int':
            cands.append(('range', i))
        if role == 'enum':
            cands.append(('enum_unknown', i))
        if role == 'string':
            cands.append(('string_long', i))
    for i in inner:
        if toks[i][1] in ('tag', 'begintag'):
            cands.append(('unknown_tag', i))
    for i in range(2, len(toks) - 1):
        if toks[i - 1][1] not in ('begin', 'end'):
            cands.append(('surplus', i))
            if rng.random() < 0.3:
                cands.append(('unknown_block', i))
    for sp in inst.spans:
        kind, s, e, info = sp
        if kind == 'arrayelem':
            cands.append(('array_short', sp))
            cands.append(('array_long', sp))
        if kind == 'titem':
            m, cont = info
            if not m.rep_outer and isinstance(cont, TaggedStruct):
                cands.append(('dup_tag', sp))
            if isinstance(cont, TaggedUnion):
                cands.append(('second_union', sp))
            cands.append(('tag_as_block' if not m.is_block else 'block_as_tag', sp))
    rng.shuffle(cands)
    # at most two of a kind so that the kinds are spread
    seen = {}
    for kind, where in cands:
        if len(out) >= n:
            break
        if seen.get(kind, 0) >= 2:
            continue
        new = None
        if kind == 'missing':
            new = toks[:where] + toks[where + 1:]
        elif kind == 'wrong_kind':
            role = toks[where][1]
            if role == 'int':
                rep = rng.choice(['1.5', '"s"', 'ident', '1e3', '0.0'])
            elif role == 'float':
                rep = rng.choice(['"s"', 'ident', '1e400' if overflow else 'ident', '"1.0"'])
            elif role == 'string':
                rep = rng.choice(['12', '0x10', '1.5', 'ident'])
            else:
                rep = rng.choice(['12', '"s"', '1.5'])
            new = toks[:where] + [[rep, 'x', None]] + toks[where + 1:]
        elif kind == 'range':
            bits, signed, K = INT_TYPES[toks[where][2]]
            lo, hi = (-(1 << (bits - 1)), (1 << (bits - 1)) - 1) if signed else (0, (1 << bits) - 1)
            rep = rng.choice([str(hi + 1), str(lo - 1), '0x1%0*X' % (bits // 4, 0), str(hi * 3 + 7),
                              '0x%X' % (1 << bits)])
            if bits == 64 and rep.startswith('0x') and not overflow:
                rep = str(hi + 1)
            new = toks[:where] + [[rep, 'x', None]] + toks[where + 1:]
        elif kind == 'enum_unknown':
            rep = rng.choice(['NOT_AN_ITEM', toks[where][0] + 'x', toks[where][0].lower() if
                              toks[where][0].lower() != toks[where][0] else toks[where][0].upper() + '_'])
            new = toks[:where] + [[rep, 'x', None]] + toks[where + 1:]
        elif kind == 'string_long':
            maxlen = toks[where][2]
            rep = '"' + 'L' * (maxlen + rng.choice([1, 1, 2, 10])) + '"'
            new = toks[:where] + [[rep, 'x', None]] + toks[where + 1:]
        elif kind == 'unknown_tag':
            rep = rng.choice(['NO_SUCH_TAG', toks[where][0] + '_', 'Unknown1'])
            new = [list(t) for t in toks]
            new[where][0] = rep
            if toks[where][1] == 'begintag':
                # the matching end tag: the titem span that starts at where-1
                for k2, s, e, info in inst.spans:
                    if k2 == 'titem' and s == where - 1:
                        new[e - 1][0] = rep
        elif kind == 'surplus':
            rep = rng.choice(['7', '0x7', '1.25', '"extra"', 'EXTRA_IDENT'])
            new = toks[:where] + [[rep, 'x', None]] + toks[where:]
        elif kind == 'unknown_block':
            ins = [['/begin', 'begin', None], ['UNKNOWN_BLK', 'x', None]]
            if rng.random() < 0.5:
                ins.append([rng.choice(['1', '"t"', 'id']), 'x', None])
            ins += [['/end', 'end', None], ['UNKNOWN_BLK', 'x', None]]
            new = toks[:where] + ins + toks[where:]
        elif kind == 'array_short':
            _, s, e, _ = where
            if e > s:
                new = toks[:s] + toks[e:]
        elif kind == 'array_long':
            _, s, e, _ = where
            if e > s:
                new = toks[:e] + [list(t) for t in toks[s:e]] + toks[e:]
        elif kind in ('dup_tag', 'second_union'):
            _, s, e, _ = where
            new = toks[:e] + [list(t) for t in toks[s:e]] + toks[e:]
        elif kind == 'tag_as_block':
            _, s, e, (m, cont) = where
            new = toks[:s] + [['/begin', 'begin', None]] + toks[s:e] + [['/end', 'end', None], [m.tag, 'x', None]] + toks[e:]
        elif kind == 'block_as_tag':
            _, s, e, (m, cont) = where
            new = toks[:s] + toks[s + 1:e - 2] + toks[e:]
        if new is None:
            continue
        seen[kind] = seen.get(kind, 0) + 1
        out.append((kind, _rejoin(rng, new)))
    return out


# ------------------------------------------------------------------------------------------------
# 8. tokenizer of IF_DATA text and the reference interpreter

def tokenize_ifdata(text):
    """[(class, text)] with class BEGIN END ID STR NUM; comments are dropped.  Raises ValueError on anything else."""
    toks = []
    i = 0
    n = len(text)
    while i < n:
        c = text[i]
        if c.isspace():
            i += 1
        elif text.startswith('/*', i):
            j = text.find('*/', i + 2)
            if j < 0:
                raise ValueError('unclosed comment')
            i = j + 2
        elif text.startswith('//', i):
            j = text.find('\n', i)
            i = n if j < 0 else j + 1
        elif text.startswith('/begin', i):
            toks.append(('BEGIN', '/begin'))
            i += 6
        elif text.startswith('/end', i):
            toks.append(('END', '/end'))
            i += 4
        elif c == '"':
            j = i + 1
            while True:
                if j >= n:
                    raise ValueError('unclosed string')
                if text[j] == '\\' and j + 1 < n:
                    j += 2
                elif text[j] == '"':
                    if j + 1 < n and text[j + 1] == '"':
                        j += 2
                    else:
                        break
                else:
                    j += 1
            toks.append(('STR', text[i:j + 1]))
            i = j + 1
        elif c.isalpha() and c.isascii() or c == '_':
            j = i
            while j < n and (text[j].isascii() and (text[j].isalnum() or text[j] in '._[]')):
                j += 1
            toks.append(('ID', text[i:j]))
            i = j
        elif c in '+-.' or c.isdigit():
            j = i
            while j < n and (text[j].isascii() and (text[j].isalnum() or text[j] in '._[]+-')):
                j += 1
            toks.append(('NUM', text[i:j]))
            i = j
        else:
            raise ValueError('bad character %r' % c)
    return toks


class _Fail(Exception):
    pass


class _Reader:
    def __init__(self, toks, lenient):
        self.t = toks
        self.p = 0
        self.len = set(lenient)

    def peek(self, k=0):
        return self.t[self.p + k] if self.p + k < len(self.t) else ('EOF', '')

    def take(self, cls):
        c, text = self.peek()
        if c != cls:
            raise _Fail('expected %s, found %s %r at token %d' % (cls, c, text, self.p))
        self.p += 1
        return text


def _interp(t, rd):
    t = resolve(t)
    if t is None:
        return ['None']
    if isinstance(t, Scalar):
        text = rd.take('NUM')
        v = read_int(t.kind, text) if t.kind in INT_TYPES else read_float(t.kind, text, 'hex_float' in rd.len)
        if v is None:
            raise _Fail('%r is not a %s' % (text, t.kind))
        return v
    if isinstance(t, Enum):
        text = rd.take('ID')
        if text not in [i for i, _ in t.items]:
            raise _Fail('%r is not an item of the enum' % text)
        return ['EnumItem', text]
    if isinstance(t, Array):
        return _interp_array(t.elem, array_levels(t), rd)
    if isinstance(t, Seq):
        out = ['Sequence']
        while True:
            save = rd.p
            try:
                v = _interp(t.item, rd)
            except _Fail:
                rd.p = save
                break
            if rd.p == save:
                break           # an item that reads nothing: the repetition cannot make progress
            out.append(v)
        return out
    if isinstance(t, Struct):
        return ['Struct'] + [_interp(m, rd) for m in t.members]
    if isinstance(t, (TaggedStruct, TaggedUnion)):
        entries = {}
        count = 0
        while True:
            if isinstance(t, TaggedUnion) and count == 1:
                break
            c, text = rd.peek()
            m = None
            if c == 'ID':
                m = next((x for x in t.members if x.tag == text and not x.is_block), None)
                skip = 1
            elif c == 'BEGIN' and rd.peek(1)[0] == 'ID':
                m = next((x for x in t.members if x.tag == rd.peek(1)[1] and x.is_block), None)
                skip = 2
            if m is None:
                break
            if isinstance(t, TaggedStruct) and not m.rep_outer and m.tag in entries and 'multiplicity' not in rd.len:
                raise _Fail('tag %s may occur only once' % m.tag)
            rd.p += skip
            data = _interp_block(m.typ, rd)
            if m.is_block:
                rd.take('END')
                e = rd.take('ID')
                if e != m.tag:
                    raise _Fail('/end %s closes %s' % (e, m.tag))
            entries.setdefault(m.tag, []).append([data, 1 if m.is_block else 0])
            count += 1
        if isinstance(t, TaggedUnion) and count == 0 and 'union_required' in rd.len:
            raise _Fail('taggedunion without a member')
        name = 'TaggedStruct' if isinstance(t, TaggedStruct) else 'TaggedUnion'
        return [name] + [[k] + entries[k] for k in sorted(entries, key=lambda s: s.encode())]
    raise TypeError(t)


def _interp_array(elem, levels, rd):
    if is_string(Array(elem, [1])) and len(levels) == 1:
        c, text = rd.peek()
        if c == 'ID' and 'ident_string' in rd.len:
            rd.p += 1
            val = text
        else:
            val = unescape(rd.take('STR')[1:-1])
        if len(val.encode('utf-8')) > levels[0] and 'long_string' not in rd.len:
            raise _Fail('string longer than %d' % levels[0])
        return ['String', val]
    out = ['Array']
    for _ in range(levels[0]):
        if len(levels) > 1:
            out.append(_interp_array(elem, levels[1:], rd))
        else:
            out.append(_interp(elem, rd))
    return out


def _interp_block(t, rd):
    v = _interp(t, rd)
    if isinstance(resolve(t), Struct):
        return ['Block'] + v[1:]
    return ['Block', v]


def interpret(defn, ifdata_text, lenient=()):
    """(valid, tree): read the text of one IF_DATA block as the definition says.  valid = False (tree None) when the
    content does not conform; raises ValueError when the text is not a balanced `/begin IF_DATA ... /end IF_DATA`.
    lenient: set of rule names that are relaxed / changed (module doc, NOTES):
       multiplicity, union_required, hex_float, long_string, ident_string, empty_invalid"""
    toks = tokenize_ifdata(ifdata_text)
    if len(toks) < 4 or toks[0][0] != 'BEGIN' or toks[1] != ('ID', 'IF_DATA') or toks[-2][0] != 'END' \
            or toks[-1] != ('ID', 'IF_DATA'):
        raise ValueError('not an IF_DATA block')
    depth = 0
    for c, _ in toks:
        depth += (c == 'BEGIN') - (c == 'END')
        if depth < 0:
            raise ValueError('unbalanced')
    if depth:
        raise ValueError('unbalanced')
    body = toks[2:-2]
    if not body and 'empty_invalid' in lenient:
        return False, None
    rd = _Reader(body + [('END', '/end')], lenient)
    try:
        tree = _interp_block(defn.ifdata.typ, rd)
        if rd.p != len(body):
            raise _Fail('content continues after the definition is complete (token %d of %d)' % (rd.p, len(body)))
    except _Fail as e:
        interpret.last_error = str(e)
        return False, None
    return True, tree


interpret.last_error = ''
ALL_LENIENT = ('multiplicity', 'hex_float', 'long_string', 'ident_string', 'empty_invalid', 'union_required')


# ------------------------------------------------------------------------------------------------
# 9. library answers

def _s(b):
    return b.decode('utf-8', 'replace') if isinstance(b, (bytes, bytearray)) else b


def normalize(g):
    """decoded dump_gifd -> value tree (module doc)"""
    kind = _s(g[0])
    if kind == 'None':
        return ['None']
    if kind in ('Char', 'Int', 'Long', 'Int64', 'UChar', 'UInt', 'ULong', 'UInt64'):
        return [kind, g[2], g[3]]
    if kind in ('Float', 'Double'):
        return [kind, g[2]]
    if kind in ('String', 'EnumItem'):
        return [kind, _s(g[2])]
    if kind in ('Array', 'Sequence'):
        return [kind] + [normalize(x) for x in g[1:]]
    if kind in ('Struct', 'Block'):
        return [kind] + [normalize(x) for x in g[3:]]
    if kind in ('TaggedStruct', 'TaggedUnion'):
        out = [kind]
        for e in g[1:]:
            out.append([_s(e[0])] + [[normalize(it[6]), it[7]] for it in e[1:]])
        return out
    raise ValueError(kind)


def answer_blocks(ans):
    """[(valid, tree | None)] of an OK answer"""
    out = []
    for b in ans[1]:
        out.append((b[0], normalize(b[1][0]) if b[1] else None))
    return out


def tree_diff(a, b, path='$'):
    if isinstance(a, list) and isinstance(b, list):
        if a and b and isinstance(a[0], str) and isinstance(b[0], str) and a[0] != b[0]:
            return '%s: %s vs %s' % (path, _short(a), _short(b))
        for i in range(min(len(a), len(b))):
            d = tree_diff(a[i], b[i], '%s/%d' % (path, i))
            if d:
                return d
        if len(a) != len(b):
            return '%s: %d vs %d entries: %s vs %s' % (path, len(a) - 1, len(b) - 1, _short(a), _short(b))
        return None
    if a != b:
        return '%s: %r vs %r' % (path, a, b)
    return None


def _short(x):
    s = repr(x)
    return s if len(s) < 160 else s[:157] + '...'


def compare(answer_block, expected):
    """answer_block = one `( i<valid> <opt gifd> )` of an answer (decoded) or an element of answer_blocks();
    expected = value tree (content conforms) | (valid, tree) | False / (False, None) (content does not conform: only the
    flag is compared).  Returns None or a description of the first difference ('library vs expected')."""
    valid = answer_block[0]
    tree = answer_block[1]
    if isinstance(tree, list) and (not tree or isinstance(tree[0], list)):
        tree = normalize(tree[0]) if tree else None
    if expected is False:
        expected = (False, None)
    if isinstance(expected, tuple):
        evalid, etree = expected
    else:
        evalid, etree = True, expected
    if bool(valid) != bool(evalid):
        return 'valid flag: %d vs %d' % (valid, evalid)
    if not evalid:
        return None
    if tree is None:
        return 'no items vs %s' % _short(etree)
    return tree_diff(tree, etree)


_HARNESS = os.path.join(_VERIF, 'build', 'cargo-target', 'debug', 'implrun')


def case_line(a2ml, spec, blocks, strict):
    import sx
    return sx.enc([a2ml, spec, list(blocks), 1 if strict else 0])


def run_ifdata(cases, memlimit_kb=3000000, timeout=600, single_timeout=20, binary=None):
    """cases = [(a2ml text, spec text, [IF_DATA block text], strict)] -> decoded answers (None where the process died,
    was killed by the memory limit or ran into the timeout).  Every harness process runs under `ulimit -v memlimit_kb`."""
    import framework as fw
    import sx
    lines = [case_line(*c) for c in cases]
    cmd = ['bash', '-c', 'ulimit -v %d; exec %s IFDATA' % (memlimit_kb, binary or _HARNESS)]
    out = fw.run_isolating(cmd, lines, timeout=timeout, single_timeout=single_timeout)
    res = []
    for l in out:
        if l is None or l.startswith('DIED') or not l.startswith('('):
            res.append(None)
        else:
            res.append(sx.dec(l))
    return res


def written_ifdata_tokens(written):
    """the token lists of the IF_DATA blocks at MODULE level of a written document (A2ML block cut out)"""
    written = _s(written)
    k = written.find('/begin A2ML')
    if k >= 0:
        e = written.rfind('/end A2ML')
        written = written[:k] + written[e + 9:]
    toks = tokenize_ifdata(written)
    out = []
    depth = 0
    cur = None
    for i, (c, text) in enumerate(toks):
        if c == 'BEGIN':
            depth += 1
            if cur is None and toks[i + 1] == ('ID', 'IF_DATA'):
                cur = []
                start = depth
        if cur is not None:
            cur.append((c, text))
        if c == 'END':
            if cur is not None and depth == start:
                cur.append(toks[i + 1])
                out.append(cur)
                cur = None
            depth -= 1
    return out


def _numval(text):
    """(is_hex, exact numeric value as int or float) of a number token, None when it is not a number"""
    if _HEX_INT.match(text):
        return True, int(text[2:], 16)
    if _DEC_INT.match(text):
        return False, int(text)
    if _DEC_FLOAT.match(text):
        x = float(text)
        return False, (int(x) if x == int(x) and abs(x) < 1e300 else x)
    return None


def token_change(a, b, role=None, kind=None):
    """None when the written token b carries the value of the input token a, else the category of the change:
       value      a number with another value (typed reading when role/kind are given: float members compare as binary32)
       neg-zero   a float member: one of the two is -0.0, the other 0.0
       f32        (untyped numbers only) the values differ as binary64 but agree after rounding to binary32
       hex-lost   hex notation became decimal or vice versa, same value
       quoted     an identifier became a string with the same text
       other      anything else"""
    (ca, ta), (cb, tb) = a, b
    if ca == 'STR' and cb == 'STR':
        return None if unescape(ta[1:-1]) == unescape(tb[1:-1]) else 'other'
    if ca == 'ID' and cb == 'STR' and unescape(tb[1:-1]) == ta:
        return 'quoted'
    if ca != cb:
        return 'other'
    if ca != 'NUM':
        return None if ta == tb else 'other'
    if role == 'float':
        va, vb = read_float(kind, ta, True), read_float(kind, tb, True)
        if va is not None and vb is not None and va != vb and (va[1] | vb[1]) == (1 << 63) and (va[1] & vb[1]) == 0:
            return 'neg-zero'               # -0.0 written as 0 (or the reverse): equal as numbers, the sign is lost
        return None if va is not None and va == vb else 'value'
    na, nb = _numval(ta), _numval(tb)
    if na is None or nb is None:
        return None if ta == tb else 'other'
    if role == 'int':
        bits = INT_TYPES[kind][0]
        mask = (1 << bits) - 1
        if na[0] != nb[0]:
            return 'hex-lost'
        return None if (na[1] & mask) == (nb[1] & mask) and (na[0] or na[1] == nb[1]) else 'value'
    if na[1] != nb[1]:
        fa, fb = to_f32(float(na[1])), to_f32(float(nb[1]))
        if fa is not None and fa == fb and not (isinstance(na[1], int) and isinstance(nb[1], int) and False):
            return 'f32'
        return 'value'
    if na[0] != nb[0]:
        return 'hex-lost'
    return None


def tokens_preserved(intext, outtoks, inst=None):
    """[] when the written tokens `outtoks` (one element of written_ifdata_tokens) carry the same values in the same
    order as the input block text; otherwise [(category, description)] (categories: token_change, plus 'count').
    With inst (Instance of this very text) numbers are compared according to the type of their member."""
    intoks = tokenize_ifdata(intext)
    roles = None
    if inst is not None and len(inst.tokens) == len(intoks):
        roles = inst.tokens
    if len(intoks) != len(outtoks):
        return [('count', 'token count %d -> %d' % (len(intoks), len(outtoks)))]
    out = []
    for i, (a, b) in enumerate(zip(intoks, outtoks)):
        role = kind = None
        if roles:
            role, kind = roles[i][1], roles[i][2]
        ch = token_change(a, b, role, kind)
        if ch:
            out.append((ch, 'token %d: %r -> %r' % (i, a[1], b[1])))
    return out


# ------------------------------------------------------------------------------------------------
# 10. recogniser of the A2ML grammar (well-formedness of a definition text)

def definition_tokens(defn):
    """the flat list of A2ML tokens of render_definition(defn) (`)*` is one element)"""
    return render_definition(defn).split()


_A2ML_TOKEN = re.compile(r'''\s+|/\*.*?\*/|//[^\n]*|(?P<tag>"[^"]*")|(?P<num>0x[0-9a-fA-F]+|-?[0-9]+)|(?P<id>[A-Za-z_][A-Za-z0-9_]*)|(?P<p>[{}\[\]();,=*])''',
                         re.S)


def a2ml_tokens(text):
    out = []
    i = 0
    while i < len(text):
        m = _A2ML_TOKEN.match(text, i)
        if not m or m.end() == i:
            raise ValueError('cannot tokenize %r' % text[i:i + 12])
        i = m.end()
        for k in ('tag', 'num', 'id', 'p'):
            if m.group(k) is not None:
                out.append((k, m.group(k)))
    return out


def a2ml_wellformed(text, relax=()):
    """None when `text` is a well-formed A2ML definition with a `block "IF_DATA"`, else a message.
    The grammar is the one of the ASAM standard (quoted in the module doc of the a2ml macro of the library as well):
        declaration       = type_definition ";" | block_definition ";"
        block_definition  = "block" tag type_name | "block" tag "(" type_name ")*"
        type_name         = predefined | struct_type | taggedstruct_type | taggedunion_type | enum_type
        enum_type         = "enum" [ident] "{" enumerator {"," enumerator} "}" | "enum" ident
        enumerator        = tag ["=" constant]
        struct_type       = "struct" [ident] "{" {member ";"} "}" | "struct" ident
        member            = type_name {"[" constant "]"}
        taggedstruct_type = "taggedstruct" [ident] "{" {ts_member} "}" | "taggedstruct" ident
        ts_member         = ts_def ";" | "(" ts_def ")*" ";" | block_definition ";" | "(" block_definition ")*" ";"
        ts_def            = tag [member] | tag "(" member ")*"
        taggedunion_type  = "taggedunion" [ident] "{" {tu_member} "}" | "taggedunion" ident
        tu_member         = tag [member] ";" | block_definition ";"
    plus: a name that is referenced must have been defined earlier in the text (same kind of type).
    relax: set of
        block_member   block_definition takes a member (array dimensions allowed) instead of a type_name
        block_notype   `block tag` without a type
        tu_seq         `tag "(" member ")*"` also in a taggedunion
        neg_const      negative constants
        struct_seq     `"(" member ")*" ";"` as struct member
        toplevel_only  only names defined at the top level can be referenced"""
    relax = set(relax)
    try:
        toks = a2ml_tokens(text)
    except ValueError as e:
        return str(e)
    pos = [0]
    defined = set()
    depth = [0]

    class Bad(Exception):
        pass

    def peek(k=0):
        return toks[pos[0] + k] if pos[0] + k < len(toks) else ('eof', '')

    def take(kind=None, text=None):
        t = peek()
        if (kind and t[0] != kind) or (text and t[1] != text):
            raise Bad('expected %s, found %r (token %d)' % (text or kind, t[1], pos[0]))
        pos[0] += 1
        return t[1]

    def constant():
        c = take('num')
        if c.startswith('-') and 'neg_const' not in relax:
            raise Bad('negative constant')

    def type_name():
        k, v = peek()
        if k != 'id':
            raise Bad('type expected, found %r (token %d)' % (v, pos[0]))
        if v in SCALARS:
            pos[0] += 1
            return
        if v not in ('enum', 'struct', 'taggedstruct', 'taggedunion'):
            raise Bad('type expected, found %r (token %d)' % (v, pos[0]))
        pos[0] += 1
        name = None
        if peek()[0] == 'id' and peek()[1] not in KEYWORDS:
            name = take('id')
        if peek() != ('p', '{'):
            if name is None:
                raise Bad('%s without name and body' % v)
            if (v, name) not in defined:
                raise Bad('%s %s is referenced but not defined' % (v, name))
            return
        take('p', '{')
        depth[0] += 1
        if v == 'enum':
            while True:
                take('tag')
                if peek() == ('p', '='):
                    take()
                    constant()
                if peek() == ('p', ','):
                    take()
                    continue
                break
        elif v == 'struct':
            while peek() != ('p', '}'):
                if peek() == ('p', '(') and 'struct_seq' in relax:
                    take()
                    member()
                    take('p', ')')
                    take('p', '*')
                else:
                    member()
                take('p', ';')
        else:
            while peek() != ('p', '}'):
                tagged_member(v == 'taggedstruct')
                take('p', ';')
        take('p', '}')
        depth[0] -= 1
        if name is not None and (depth[0] == 0 or 'toplevel_only' not in relax):
            defined.add((v, name))

    def member():
        type_name()
        while peek() == ('p', '['):
            take()
            constant()
            take('p', ']')

    def block_definition():
        take('id', 'block')
        take('tag')
        if peek() == ('p', '('):
            take()
            member() if 'block_member' in relax else type_name()
            take('p', ')')
            take('p', '*')
        elif peek()[0] == 'id':
            member() if 'block_member' in relax else type_name()
        elif 'block_notype' not in relax:
            raise Bad('block without type (token %d)' % pos[0])

    def tagged_member(is_ts):
        outer = False
        if is_ts and peek() == ('p', '('):
            take()
            outer = True
        if peek() == ('id', 'block'):
            block_definition()
        else:
            take('tag')
            if peek() == ('p', '('):
                if not is_ts and 'tu_seq' not in relax:
                    raise Bad('repetition in taggedunion')
                take()
                member()
                take('p', ')')
                take('p', '*')
            elif peek()[0] == 'id':
                member()
        if outer:
            take('p', ')')
            take('p', '*')

    found = False
    try:
        while peek()[0] != 'eof':
            if peek() == ('id', 'block'):
                if peek(1) == ('tag', '"IF_DATA"'):
                    found = True
                depth[0] += 1
                block_definition()
                depth[0] -= 1
            else:
                type_name()
            take('p', ';')
    except Bad as e:
        return str(e)
    if not found:
        return 'no block "IF_DATA"'
    return None


A2ML_RELAX = ('block_member', 'block_notype', 'tu_seq', 'neg_const', 'struct_seq', 'toplevel_only')


def mutate_definition_text(rng, defn):
    """(kind, text): the rendered definition with one token deleted / duplicated / swapped / replaced"""
    toks = definition_tokens(defn)
    out = []
    for t in toks:
        out += [')', '*'] if t == ')*' else [t]
    toks = out
    i = rng.randrange(len(toks))
    kind = rng.choice(['delete', 'delete', 'dup', 'swap', 'replace', 'insert'])
    pool = ['{', '}', ';', ',', '(', ')', '*', '[', ']', '=', 'struct', 'enum', 'taggedstruct', 'taggedunion', 'block',
            'uint', 'char', '"TAG"', '3', 'Name', '0x10']
    if kind == 'delete':
        toks = toks[:i] + toks[i + 1:]
    elif kind == 'dup':
        toks = toks[:i] + [toks[i]] + toks[i:]
    elif kind == 'swap' and i + 1 < len(toks):
        toks[i], toks[i + 1] = toks[i + 1], toks[i]
    elif kind == 'replace':
        toks[i] = rng.choice(pool)
    else:
        toks = toks[:i] + [rng.choice(pool)] + toks[i:]
    return kind, ' '.join(toks)
