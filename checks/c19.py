"""C19 a2ml_specification!: typed IF_DATA access round-trips.
   P  Props/C19.v on the model A2ml/Typed.v of the generated code: load(store(v)) = v for every typed shape and well-typed
      value (any nesting), shape mismatches are error values
   C  the extracted model against the code that the IN-TREE macro crate generates (harness/macroprobe: seven fixed invocations
      covering every construct): the generic items the library parsed (harness kind IFDATA) are decoded by the model with the
      typed shape of the specification; decode outcome (value / no value) and every decoded leaf value are compared with
      X::load_from_ifdata (Debug text of the typed value) on conforming instances and on IF_DATA parsed under another in-file
      definition (23 mismatch families)
   W  on the generated code: load + store + write reproduces the content, store + load through the API is the identity on
      hand-built boundary values, X_TEXT is accepted by the library parser and describes the structure of the macro input,
      mismatching shapes give no value and never panic"""
import collections
import random
import re

import framework as fw
import sx
from checks import a2mlgen as g
from checks import macrolib as M

PROP = 'C19'
TARGETS = ['theories/Proofs/TypedProofs.v', 'theories/Run/RunC19.v']

KIND_VARIANT = {'char': 'Char', 'int': 'Int', 'long': 'Long', 'int64': 'Int64', 'uchar': 'UChar', 'uint': 'UInt',
                'ulong': 'ULong', 'uint64': 'UInt64'}

# oracle category -> known-finding key
KEYS = {
    'ACCEPTED-LOSSY': 'mismatch-accepted-lossy',
    'ACCEPTED-SAME': None,                   # equal text after load + store: another definition with the same reading, no loss
    'GENERIC-NEQ': 'dataless-tag-generic-inequality',
    'VALUE-DEBUG': 'negative-zero-written-as-zero',
    'NOVALUE': 'member-struct-of-member-struct-inlined',
}


def tty_sx(t):
    k = t[0]
    if k == 'scalar':
        if t[1] == 'float':
            return 'F'
        if t[1] == 'double':
            return 'D'
        return ['I', KIND_VARIANT[t[1]]]
    if k == 'str':
        return 'Str'
    if k == 'enum':
        return ['E'] + [name for name, _v in t[1]]
    if k == 'arr':
        return ['A', tty_sx(t[1]), t[2]]
    if k == 'seq':
        return ['Q', tty_sx(t[1])]
    if k == 'struct':
        return ['S'] + [tty_sx(m) for m in t[1]]
    if k in ('ts', 'tu'):
        out = ['T' if k == 'ts' else 'U']
        for tag, item, blk, rep in t[1]:
            out.append([tag, 1 if blk else 0, 1 if rep else 0] + fields_of(item))
        return out
    raise ValueError(t)


def fields_of(item):
    """the fields of a block whose content is `item` (parse_ifdata_make_block: a struct is merged into the block)"""
    if item is None:
        return []
    if item[0] == 'struct':
        return [tty_sx(m) for m in item[1]]
    return [tty_sx(item)]


def model_leaves(ms):
    out = []
    for l in ms:
        tag, v = l[0], l[1]
        if tag == 'I':
            out.append(v)
        elif tag in ('F', 'D'):
            import struct
            x = struct.unpack('<d', struct.pack('<Q', v))[0]
            out.append(('f32', x) if tag == 'F' else x)       # Debug prints the shortest text of the f32
        elif tag == 'S':
            out.append(v)
        elif tag in ('E', 'T'):
            out.append(('id', M.ucname_to_typename(v)))
    return out


def leaves_agree(model, dbg):
    return M.leaves_equal(model, dbg)


def _leaves_agree_plain(model, dbg):
    if len(model) != len(dbg):
        return False
    for a, b in zip(model, dbg):
        if isinstance(a, float) or isinstance(b, float):
            if isinstance(a, (tuple, str)) or isinstance(b, (tuple, str)):
                return False
            fa, fb = float(a), float(b)
            if fa != fb and not (fa != fa and fb != fb):
                return False
        elif a != b:
            return False
    return True


def check(tier, seed):
    v = fw.Verdict(PROP, tier, seed)
    rng = fw.rng_for(seed, PROP)
    known = fw.load_known_findings().get(PROP, {})
    ok_p, p_info = fw.proof_stage(v, PROP, TARGETS)
    impl = fw.build_harness(release=False)
    probe_err = None
    try:
        M.build_macroprobe()
        in_tree = M.macro_crate_in_use()
    except Exception as e:            # noqa
        probe_err, in_tree = str(e), None
    model_exe, model_err = None, None
    try:
        ok_m, log_m = fw.coq_make(TARGETS)
        if not ok_m:
            raise fw.CheckFailure('model does not compile:\n' + log_m[-2000:])
        model_exe = fw.build_model(PROP)
    except fw.CheckFailure as e:
        model_err = str(e)
    if probe_err:
        v.coverage.update({'evaluations': 0, 'distinct_nontrivial': 0, 'rule': 'macroprobe does not build'})
        v.violation('harness', {'stage': 'C', 'broken': 'harness/macroprobe (the fixed a2ml_specification! invocations compiled with the in-tree '
                                'a2lmacros) does not build', 'detail': probe_err[-3000:]}, no_input=True)
        return v.finish('proof')

    n = 25 if tier == 'quick' else 4000
    nspec = len(M.SPECS)
    texts = M.run('TEXT', [[i] for i in range(nspec)])
    xtext = [t[1] if not isinstance(t, str) and t[0] == 'OK' else '' for t in texts]
    failures = []           # (class, why, payload)
    for i, t in enumerate(texts):
        why = M.check_c19('TEXT', [i], t)
        if why:
            failures.append((M.category(why), why, {'kind': 'TEXT', 'case': [i]}))
    rt_cases = []
    for si in range(nspec):
        for j in range(n):
            rt_cases.append(M.conforming_case(si, rng, typed=(j % 3 == 2)))
        for fam in M.MISMATCH_FAMILIES:
            for j in range(max(1, n // 8)):
                c = M.mismatch_case(si, rng, fam)
                if c is not None:
                    rt_cases.append(c)
    for si in range(nspec):               # after the random cases: every tagged member of every specification, bounds of its types
        rt_cases.extend(M.directed_cases(si, rng))
    rt_ans = M.run('RT', rt_cases)
    val_cases = []
    for si in range(nspec):
        cnt = M.run('NVALUES', [[si]])[0]
        for k in range(cnt[1] if not isinstance(cnt, str) and cnt[0] == 'OK' else 0):
            val_cases.append([si, k])
    val_ans = M.run('VALUE', val_cases)
    stats = collections.Counter()
    for c, a in zip(rt_cases, rt_ans):
        why = M.check_c19('RT', c, a)
        stats['RT:' + (c[3] if len(c) > 3 else 'conf').split(':')[0] + (':' + (M.category(why) or 'ok'))] += 1
        if why:
            failures.append((M.category(why), why, {'kind': 'RT', 'case': c[:4]}))
    for c, a in zip(val_cases, val_ans):
        why = M.check_c19('VALUE', c, a)
        stats['VALUE:' + (M.category(why) or 'ok')] += 1
        if why:
            failures.append((M.category(why), why, {'kind': 'VALUE', 'case': c}))

    # ---- stage C: the model decodes the generic items the library parsed
    ifd = g.run_ifdata([(c[1] or xtext[c[0]], '', [c[2]], 0) for c in rt_cases], binary=impl)
    mlines, midx = [], []
    for i, (c, a) in enumerate(zip(rt_cases, ifd)):
        if a is None or g._s(a[0]) != 'OK' or not a[1]:
            continue
        blk = a[1][0]                         # ( valid <opt dump> )
        top = M.SPECS[c[0]]['typed_top']
        mlines.append(sx.enc([fields_of(top), blk[1]]))
        midx.append(i)
    mism = []
    if model_exe and mlines:
        mout = fw.run_sharded([model_exe], mlines)
        for i, line in zip(midx, mout):
            c, a = rt_cases[i], rt_ans[i]
            if isinstance(a, str) or a[0] != 'OK':
                continue
            dec = a[2]
            m = sx.pretty(sx.dec(line)) if line and not line.startswith('DIED') else None
            if m is None or m[0] not in ('OK', 'ERR'):
                mism.append((i, 'model failed on this input: %s' % (line or '')[:120]))
                continue
            if dec[0] == 'PANIC':
                continue                       # reported by the oracle
            if (dec[0] == 'OK') != (m[0] == 'OK'):
                mism.append((i, 'decode outcome: generated code %s (%s), model %s (%s)' % (dec[0], str(dec[1])[:80], m[0], str(m[1])[:80])))
                continue
            if dec[0] == 'OK':
                got = M.debug_leaves(dec[1])
                want = model_leaves(m[1])
                if not leaves_agree(want, got):
                    mism.append((i, 'decoded values differ: generated code %s, model %s' % (got[:12], want[:12])))

    v.coverage.update({
        'evaluations': len(rt_cases) + len(val_cases) + nspec, 'distinct_nontrivial': len(set(str(c[:3]) for c in rt_cases)),
        'rule': ('%d fixed a2ml_specification! invocations (all scalar types, char[n], arrays, named/anonymous enums, nested structs, sequences, '
                 'taggedstruct with single/repeated/block/data-less members, taggedunion, nested blocks, the specification of the repository\'s own '
                 'test, one tag below two parents with the same layout and other referenced types) x conforming instances (X_TEXT / own rendering / '
                 'typed shape as in-file definition; every tagged member at the bounds of its types) x 23 families of mismatching in-file '
                 'definitions x all hand-built boundary values; non-trivial = distinct (specification, definition, block)') % nspec,
        'macro_crate': str(in_tree)[:200],
        'statistics': dict(stats),
        'model_cases': len(mlines), 'correspondence_mismatches': len(mism),
        'traces_validated_against_impl': len(mlines) - len(mism) if model_exe else 0,
        'oracle_failures': len(failures), 'oracle_failure_classes': dict(collections.Counter(f[0] for f in failures)),
        'samples': [rt_cases[0][2][:300]] if rt_cases else [],
        'trusted_base': ['Coq kernel; extraction (ExtrOcamlBasic, ExtrOcamlString) and OCaml for the model run',
                         'rustc expands the in-tree proc macro as its generator functions say (observed through the compiled macroprobe crate)',
                         'checks/macrolib.py: typed_shape (the macro\'s struct fix-up, one level of inlining) gives the model its type description; '
                         'Debug text of the generated types is parsed into leaf values',
                         'the generic items come from the library\'s own parser (harness kind IFDATA)'],
    })
    v.assumptions = ['only constructs for which the macro generates compiling code are covered behaviourally (the non-compiling ones are '
                     'listed in DESIGN.md)']
    reported, seen = 0, set()
    for cls, why, payload in failures:
        key = KEYS.get(cls, cls)
        if key is None:
            continue
        if cls == 'NOVALUE' and M.SPECS[payload['case'][0]]['name'] != 'Nest':
            key = 'NOVALUE'
        if key in known:
            v.known(key, known[key])
            continue
        if key in seen or reported >= 3:
            continue
        seen.add(key)
        v.violation('input', dict(payload, why=why[:1500], **{'class': key, 'stage': 'W (oracle on the generated code)'}))
        reported += 1
    if reported == 0:
        if not ok_p:
            v.violation('proof', {'stage': 'P', 'broken_obligation': p_info.get('failing'), 'problems': p_info.get('problems'),
                                  'forbidden_constructs': p_info.get('forbidden'), 'log_tail': p_info.get('log', '')}, no_input=True)
        if model_err:
            v.violation('model', {'stage': 'C', 'broken': 'model build', 'detail': model_err}, no_input=True)
        elif mism:
            i, d = mism[0]
            v.violation('correspondence', {'stage': 'C', 'broken': 'typed-access model against the generated code (%d of %d cases differ)' % (len(mism), len(mlines)),
                                           'first_difference': d, 'kind': 'RT', 'case': rt_cases[i][:4]}, no_input=True)
    return v.finish('proof')


def setup():
    M.build_macroprobe()


def replay(r):
    M.build_macroprobe()
    kind, case = r.get('kind'), r.get('case')
    if not case:
        print('replay: no concrete input recorded; broken:', r.get('broken_obligation') or r.get('broken'))
        return 1
    a = M.run(kind, [case])[0]
    print('specification:', M.SPECS[case[0]]['name'])
    if kind == 'RT':
        print('in-file definition:', case[1] or '(X_TEXT)')
        print('IF_DATA:', case[2])
    print('answer:', str(a)[:2000])
    why = M.check_c19(kind, case, a)
    print('oracle:', why or 'property holds on this input')
    if r.get('first_difference'):
        print('model/implementation difference recorded:', r['first_difference'])
    return 1 if why or r.get('first_difference') else 0
