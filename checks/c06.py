"""C06 strict vs non-strict: proof (Props/C06.v: single decision point, diagnostic position, simulation lemmas) +
correspondence of the parser model in BOTH modes (model, diagnostics with line, written text) + oracle on the
implementation: the four relations of the property between load(T, strict) and load(T, non-strict)."""
import re
import framework as fw
import sx
import docgen
from checks import docs, loadlib, loadcheck

PROP = 'C06'
DIAG_LINES_ARE_PROPERTY = True
TARGETS = ['theories/Proofs/StrictProofs.v', 'theories/Proofs/StrictWholeProofs.v', 'theories/Run/RunLoad.v', 'theories/Proofs/DiagPosProofs.v']
RULE = ('every text is loaded with strict=true and strict=false: valid documents, documents with one injected fault of each of 14 classes '
        '(recoverable and hard), documents with several faults, token-level mutations (delete / duplicate / replace), IF_DATA under an '
        'A2ML definition (conforming and with single-token deviations); '
        'non-trivial = the two modes differ in outcome or log; distinct = distinct text')
ASSUMPTIONS = ['relation (3) of the property is only evaluated for inputs without IF_DATA, as the property states']
DEPRECATION = {'BlockRefDeprecated', 'EnumRefDeprecated'}
KINDS = ['missing_required', 'duplicate_single', 'block_as_keyword', 'keyword_as_block', 'unknown_enum', 'too_new', 'deprecated',
         'missing_parameter', 'wrong_end_tag', 'unknown_keyword', 'unknown_block', 'trailing_tokens', 'ident_for_string', 'digit_ident']


def gen_texts(rng, tier):
    sp = docs.spec()
    texts = []
    n = 60 if tier == 'quick' else 8000
    for i in range(n):
        node, text, toks = docs.random_doc(rng, size=rng.choice(['tiny', 'small', 'small']), ifdata=rng.choice([None, None, 'unknown']))
        texts.append(('valid', text))
    per_kind = 6 if tier == 'quick' else 400
    for kind in KINDS:
        for j in range(per_kind):
            try:
                opts = docgen.GenOptions(max_depth=4, max_repeat=2, p_optional=0.35, ifdata=None)
                dev = docgen.gen_deviation(sp, rng, kind, opts, docgen.Layout(mode=rng.choice(['canonical', 'random'])))
                texts.append((kind, dev.text))
            except Exception:
                continue
    # IF_DATA described by an A2ML block: conforming instances and single-token deviations of them (an identifier where a
    # string is expected, strings longer than char[n], ...), which the two modes treat differently by design
    from checks import a2mlgen as g, c18
    for i in range(25 if tier == 'quick' else 3000):
        d = g.gen_definition(rng, rng.choice([1, 2, 3]))
        a2ml = g.render_definition(d)
        blocks = [b[0] for b in c18.mixed_blocks(rng, d, 2, rng.choice([0, 2, 4]))]
        for b in blocks[:4]:
            texts.append(('a2ml-ifdata', c18.document(a2ml, [b])))
    # strings inside repeated members of an A2ML definition: quoted, as a bare identifier, longer than char[n] - at every
    # position of the repetition (the two modes differ here by design: non-strict accepts with a warning)
    defs = [('taggedstruct { "NAMES" (char[8])*; "N" uint; }', 'NAMES %s N 3'),
            ('taggedstruct { block "ENTRIES" (struct { char[8]; uint; })*; }', '/begin ENTRIES %s /end ENTRIES'),
            ('struct { uint; taggedstruct { ("T" char[4])*; }; }', '7 %s'),
            ('taggedstruct { ("G" struct { char[5]; char[5]; })*; }', '%s')]
    good, ident, long_ = ['"ab"', '"x y"', '""'], ['bare', 'id_2'], ['"much too long for this"']
    for di, (body, frame) in enumerate(defs):
        for trial in range(6 if tier == 'quick' else 60):
            items = [rng.choice(good) for _ in range(rng.randrange(1, 5))]
            k = rng.randrange(len(items))
            items[k] = rng.choice(ident + long_ + good)
            if di == 1:
                inner = ' '.join('%s %d' % (x, j) for j, x in enumerate(items))
            elif di == 2:
                inner = ' '.join('T %s' % x for x in items)
            elif di == 3:
                inner = ' '.join('G %s %s' % (x, rng.choice(good)) for x in items)
            else:
                inner = ' '.join(items)
            texts.append(('a2ml-strings', c18.document('block "IF_DATA" ' + body + ';', ['/begin IF_DATA ' + (frame % inner) + ' /end IF_DATA'])))
    # an A2ML block that the library's A2ML parser rejects (no IF_DATA anywhere, so the two modes must relate exactly):
    # alone, behind / in front of a MODULE whose A2ML block is fine, and with a specification passed by the caller
    good_aml = ['block "IF_DATA" taggedunion { "V" struct { uint; char[8]; }; };', 'struct S { uint; uchar; }; block "IF_DATA" struct S;',
                'enum E { "A" = 1, "B" = 2 }; block "IF_DATA" taggedstruct { "X" enum E; ("Y" uint)*; };']
    bad_aml = ['struct S { uint; ', 'struct { uint; } ;;; }', 'taggedstruct G { "X" uint };', 'enum E { "A" = , };', '}', 'struct S { bogus_type; };',
               'block "IF_DATA" taggedunion { "V" struct { uint; char[8] }; };', 'struct S { uint; };']
    def module(name, aml):
        return '/begin MODULE %s "" %s /end MODULE' % (name, ('/begin A2ML %s /end A2ML' % aml) if aml is not None else '')
    for trial in range(10 if tier == 'quick' else 200):
        g_, b_ = rng.choice(good_aml), rng.choice(bad_aml)
        for mods, spec in (([('m', b_)], None), ([('m1', g_), ('m2', b_)], None), ([('m1', b_), ('m2', g_)], None),
                           ([('m', b_)], g_), ([('m1', None), ('m2', b_)], g_), ([('m1', g_), ('m2', None), ('m3', b_)], None)):
            text = 'ASAP2_VERSION 1 71 /begin PROJECT p "" ' + ' '.join(module(n, a) for n, a in mods) + ' /end PROJECT'
            texts.append(('a2ml-broken' if spec is None else ('a2ml-broken', spec), text))
    # many deprecation notices in front of one recoverable fault (a log that is cut, de-duplicated or capped must not lose the
    # problem): N MEASUREMENTs with the deprecated BYTE_ORDER BIG_ENDIAN, then one MEASUREMENT with a fault
    faults = ['/begin MEASUREMENT bad "" UBYTE NO_COMPU_METHOD 0 0 0 255 /end CHARACTERISTIC',
              '/begin MEASUREMENT bad nostring UBYTE NO_COMPU_METHOD 0 0 0 255 /end MEASUREMENT',
              '/begin MEASUREMENT bad "" UBYTE NO_COMPU_METHOD 0 0 0 255 FUTURE_KEYWORD 1 /end MEASUREMENT',
              '/begin MEASUREMENT ok_last "" UBYTE NO_COMPU_METHOD 0 0 0 255 /end MEASUREMENT']
    for count in ((0, 3, 1100) if tier == 'quick' else (0, 1, 17, 255, 256, 999, 1000, 1001, 1100, 5000)):
        body = '\n'.join('/begin MEASUREMENT m%d "" UBYTE NO_COMPU_METHOD 0 0 0 255 BYTE_ORDER BIG_ENDIAN /end MEASUREMENT' % k for k in range(count))
        for fault in faults:
            texts.append(('many-notices', 'ASAP2_VERSION 1 71\n/begin PROJECT p ""\n/begin MODULE m ""\n' + body + '\n' + fault + '\n/end MODULE\n/end PROJECT\n'))
    # token-level mutations of valid documents
    m = 80 if tier == 'quick' else 15000
    for i in range(m):
        node, text, toks = docs.random_doc(rng, size='tiny', ifdata=None)
        chunks = loadlib.lex_chunks(text)
        for _ in range(rng.randrange(1, 4)):
            if len(chunks) < 3:
                break
            k = rng.randrange(len(chunks))
            op = rng.randrange(4)
            if op == 0:
                del chunks[k]
            elif op == 1:
                chunks.insert(k, chunks[k])
            elif op == 2:
                chunks[k] = ' ' + rng.choice(['BOGUS', '1x', '/begin', '/end', '"str"', '0x', '-', 'UBYTE', '1 2 3', 'FOO_BAR 1'])
            else:
                j = rng.randrange(len(chunks))
                chunks[k], chunks[j] = chunks[j], chunks[k]
        texts.append(('mutated', ''.join(chunks)))
    return texts


def gen_cases(rng, tier):
    cases = []
    for kind, text in gen_texts(rng, tier):
        i = len(cases)
        spec = None
        if isinstance(kind, tuple):
            kind, spec = kind
        cases.append({'text': text, 'strict': True, 'kind': kind, 'pair': i + 1, 'spec': spec})
        cases.append({'text': text, 'strict': False, 'kind': kind, 'pair': i, 'spec': spec})
    return cases


def variants(r):
    return [d[1] for d in r.diag_list()]


def oracle(c, r, cases, res):
    if r.status in ('DIED', 'PANIC'):
        return 'panic / crash in %s mode' % ('strict' if c['strict'] else 'non-strict')
    if not c['strict']:
        return None                     # the relations are evaluated once per pair, at the strict member
    S, N = r, res[c['pair']]
    if N.status in ('DIED', 'PANIC'):
        return None
    s_ok, n_ok = S.status == 'OK', N.status == 'OK'
    if s_ok and not n_ok:
        return 'strict loading succeeds but non-strict loading fails (%s)' % sx.pretty(N.err)[1]
    if n_ok and not N.diags:
        if not s_ok:
            return 'non-strict loading succeeds without warnings but strict loading fails (%s)' % sx.pretty(S.err)[1]
        if S.diags:
            return 'non-strict loading has no warnings but strict loading reports %s' % variants(S)
        d = loadlib.veq(S.node, N.node)
        if d:
            return 'both modes succeed without warnings but the models differ at %s' % d
    if not re.search(r'/begin\s+IF_DATA', c['text']):
        n_problem = (not n_ok) or any(v not in DEPRECATION for v in variants(N))
        if (not s_ok) != n_problem:
            return ('strict %s although non-strict %s' % ('fails' if not s_ok else 'succeeds',
                                                          'reports only deprecations / nothing' if not n_problem else 'reports %s' % (variants(N) if n_ok else 'an error')))
        if s_ok and n_ok:
            d = loadlib.veq(S.node, N.node)
            if d:
                return 'both modes succeed but the models differ at %s' % d
    # every diagnostic carries file and line
    for rr in (S, N):
        ds = rr.diag_list() if rr.status == 'OK' else ([loadlib.diag_key(rr.err)] if rr.status == 'ERR' else [])
        for (kind, variant, line, key) in ds:
            if kind == 'Parser' and (line is None or line < 1):
                return 'diagnostic %s carries no file / line' % variant
    return None


def classify_known(c, why, r):
    if 'carries no file / line' in why and ('MissingVersionInfo' in why or 'InvalidVersion' in why):
        return 'version-diagnostics-without-position'
    return None


def nontrivial_key(c, r):
    return hash(c['text']) if c['kind'] != 'valid' else None


def distribution(cases, res):
    d = {}
    for c, r in zip(cases, res):
        k = '%s/%s/%s' % (c['kind'], 'strict' if c['strict'] else 'lenient', r.status)
        d[k] = d.get(k, 0) + 1
    return {'by_kind_mode_status': d}


def check(tier, seed):
    import checks.c06 as me
    return loadcheck.run(me, tier, seed)


def replay(r):
    import checks.c06 as me
    c = dict(r['prop_case'])
    impl = fw.build_harness()
    res, _ = loadlib.run_impl([(c['text'], True, c.get('spec'), 0), (c['text'], False, c.get('spec'), 0)], impl)
    cases = [dict(c, strict=True, pair=1), dict(c, strict=False, pair=0)]
    why = oracle(cases[0], res[0], cases, res)
    print('strict:', res[0].status, res[0].diag_list() if res[0].status == 'OK' else sx.pretty(res[0].err))
    print('non-strict:', res[1].status, res[1].diag_list() if res[1].status == 'OK' else sx.pretty(res[1].err))
    print('oracle:', why or 'property holds on this input')
    return 1 if why else 0
