"""shared access to the grammar-directed document generator (tools/docgen.py) and the stage-T translators"""
import os
import random
import framework as fw
import docgen

GEN = os.path.join(fw.BUILD, 'gen')
SPEC_JSON = os.path.join(GEN, 'spec_shipped.json')
VERSIONS = [(1, 50), (1, 51), (1, 60), (1, 61), (1, 70), (1, 71)]
_spec = None


def translate_shipped():
    """stage T: regenerate the grammar description from the shipped generated code; returns (ok, detail)"""
    os.makedirs(GEN, exist_ok=True)
    rc, out = fw.sh('python3 %s/tools/spec_from_generated.py --out %s' % (fw.VERIF, SPEC_JSON), timeout=300)
    return rc == 0, out[-3000:]


TRANSLATION_FAILURES = []


def spec():
    """the grammar for the document generators: recovered from the shipped generated code; when that translation reports code
    that is not an instance of the template (TRANSLATION_FAILURES), the grammar the in-tree DSL parser reads is used instead,
    so that the checks can still search for an input on which the odd code misbehaves"""
    global _spec
    if _spec is None:
        if not os.path.exists(SPEC_JSON):
            translate_shipped()
        try:
            _spec = docgen.load_spec(SPEC_JSON)
        except ValueError:
            import json
            raw = json.load(open(SPEC_JSON))
            TRANSLATION_FAILURES[:] = raw.get('failures', [])
            dsl = os.path.join(GEN, 'spec_dsl.json')
            if not os.path.exists(dsl):
                raise
            _spec = docgen.load_spec(dsl)
    return _spec


def random_doc(rng, size='small', version=None, layout=None, ifdata=None, a2ml=None, strings=None, dupnames=0.0, **kw):
    sp = spec()
    version = version or rng.choice(VERSIONS)
    sizes = {'tiny': (3, 1, 0.15), 'small': (4, 2, 0.3), 'medium': (6, 3, 0.5), 'large': (8, 4, 0.7)}
    depth, rep, popt = sizes[size]
    opts = docgen.GenOptions(version=version, max_depth=depth, max_repeat=rep, p_optional=popt, ifdata=ifdata, a2ml=a2ml,
                             string_classes=strings or ['plain', 'empty', 'escapes', 'dquote', 'utf8', 'mixed'], **kw)
    node = docgen.gen_tree(sp, rng, opts)
    if dupnames and rng.random() < dupnames:
        duplicate_named(node, rng, sp)
    if rng.random() < 0.85:
        order_positions(node)
    lay = layout or docgen.Layout(mode=rng.choice(['canonical', 'random', 'oneline']), crlf=rng.random() < 0.2,
                                  comments=rng.choice([None, None, 'block-level', 'everywhere']))
    text, toks = docgen.render(node, rng, lay, sp)
    return node, text, toks


def apply_positions(node):
    """reorder the children of every block the way the writer is documented to: the slots that position-restricted
    children occupy are filled with those children in ascending position (children with equal positions keep their
    order).  Returns True when an order changed."""
    from checks import loadlib
    pt = loadlib.pos_types()
    changed = False
    for n, _parent in node.walk():
        slots, items = [], []
        for i, k in enumerate(n.kids):
            ent = pt.get(k.type.encode()) if k.type else None
            if ent is None:
                continue
            pos = ent[1] if ent[0] == 'const' else k.fields[ent[1]].value
            slots.append(i)
            items.append((pos, len(items), k))
        if len(items) > 1:
            ordered = sorted(items, key=lambda x: (x[0], x[1]))
            if [x[1] for x in ordered] != list(range(len(items))):
                changed = True
                for slot, (_p, _i, k) in zip(slots, ordered):
                    n.kids[slot] = k
                if n.payload is not None:
                    pslots = [i for i, x in enumerate(n.payload) if any(x is it[2] for it in items)]
                    for slot, (_p, _i, k) in zip(pslots, ordered):
                        n.payload[slot] = k
    return changed


def duplicate_named(node, rng, sp, times=None):
    """give some name-keyed lists (MEASUREMENT .. of a MODULE, OVERWRITE of an INSTANCE, ...) two or three elements with the
    same name: for OVERWRITE (component name + axis number) that is what a valid file looks like, for the others it is a
    file the library accepts without a diagnostic; every element must survive load and write"""
    import copy
    cands = []
    for n, _parent in node.walk():
        ti = sp.info.get(n.type) if n.type else None
        if ti is None:
            continue
        for k in n.kids:
            it = ti.item(k.tag) if k.tag else None
            if it is not None and it.named and it.repeat and k.fields:
                cands.append((n, k))
    rng.shuffle(cands)
    for n, k in cands[:times or rng.choice([1, 1, 2, 3])]:
        for _ in range(rng.choice([1, 1, 2])):
            dup = copy.deepcopy(k)
            for v in dup.fields[1:]:
                if getattr(v, 'kind', None) == 'int' and isinstance(v.value, int) and 0 <= v.value < 100:
                    v.value += 1
                    v.text = str(v.value)
                    break
            pos = max(i for i, x in enumerate(n.kids) if x is k) + 1
            n.kids.insert(rng.choice([pos, len(n.kids)]) if n.payload is None else pos, dup)
            if n.payload is not None:
                n.payload.insert(max(i for i, x in enumerate(n.payload) if x is k) + 1, dup)


def order_positions(node):
    """give the position-restricted children of every block ascending positions in file order, so that the writer
    has nothing to reorder (the reordering case is kept for a minority of documents: known finding)"""
    from checks import loadlib
    pt = loadlib.pos_types()
    for n, _parent in node.walk():
        pos = 1
        for k in n.kids:
            ent = pt.get(k.type.encode()) if k.type else None
            if ent and ent[0] == 'field':
                v = k.fields[ent[1]]
                v.value = pos
                v.text = str(pos)
                pos += 1
