"""C02 content preservation: proof (Props/C02.v) + correspondence of parser/writer models + oracle: the significant
tokens of write(load(T)) equal those of T up to number / escape notation (and position-restricted reordering), block-level
comments are kept, and an integer literal that does not fit its field is diagnosed."""
import random
import docgen
import framework as fw
import sx
from checks import docs, loadlib, loadcheck

PROP = 'C02'
TARGETS = ['theories/Proofs/EscapeProofs.v', 'theories/Proofs/IntTextProofs.v', 'theories/Proofs/GrammarObligations.v',
           'theories/Proofs/StrictWholeProofs.v', 'theories/Proofs/SeqMonoProofs.v', 'theories/Proofs/ParseOrderProofs.v',
           'theories/Proofs/LineOffsetProofs.v', 'theories/Proofs/ParseTraceProofs.v', 'theories/Proofs/LoadWriteDocProofs.v', 'theories/Proofs/LinePreservationProofs.v', 'theories/Proofs/IfdataTraceProofs.v', 'theories/Proofs/IfdataUnknownTraceProofs.v', 'theories/Run/RunLoad.v']
ROUNDTRIP_STAGE = True        # counts the elements of every loaded document that meet the value condition of the load -> write theorem
RULE = ('valid documents from the regenerated grammar in strict mode (all layouts, comments, number notations, IF_DATA absent / '
        'uninterpreted / A2ML-described); boundary sweep: every integer field type of the grammar (i16 u16 i32 u32 u64) x '
        '{min-1, min, -1, 0, max, max+1, 2^w-1, 2^w, 2^64-1, 2^64} x {decimal, hex}; uninterpreted IF_DATA numbers of 8..64 bit and floats; '
        'non-trivial = more than 40 significant tokens or a boundary case; distinct = distinct text')
ASSUMPTIONS = ['the comparison of significant tokens uses an independent scanner (loadlib.scan_tokens), validated against the hook tokenizer by docgen\'s acceptance run']

TEMPLATE = ('ASAP2_VERSION 1 71 /begin PROJECT p "" /begin MODULE m "" /begin MEASUREMENT x "" UBYTE NO_COMPU_METHOD %(u16)s 0 0 255 '
            'BIT_MASK %(u64)s ECU_ADDRESS %(u32)s ECU_ADDRESS_EXTENSION %(i16)s SYMBOL_LINK "s" %(i32)s /end MEASUREMENT /end MODULE /end PROJECT')
BITS = {'u16': (16, False), 'i16': (16, True), 'u32': (32, False), 'i32': (32, True), 'u64': (64, False)}


def boundary_cases():
    cases = []
    for ty, (w, signed) in BITS.items():
        lo, hi = (-(1 << (w - 1)), (1 << (w - 1)) - 1) if signed else (0, (1 << w) - 1)
        for v in sorted({lo - 1, lo, -1, 0, 1, hi, hi + 1, (1 << w) - 1, 1 << w, (1 << 64) - 1, 1 << 64}):
            for notation in ('dec', 'hex'):
                if notation == 'hex' and v < 0:
                    continue
                lit = str(v) if notation == 'dec' else '0x%X' % v
                vals = {k: '1' for k in BITS}
                vals[ty] = lit
                if notation == 'dec':
                    fits = lo <= v <= hi
                else:
                    fits = v < (1 << w)
                cases.append({'text': TEMPLATE % vals, 'strict': True, 'kind': 'boundary', 'literal': lit, 'fits': fits, 'type': ty})
    return cases


def ifdata_number_cases():
    cases = []
    lits = ['0', '255', '-128', '65535', '2147483647', '-2147483648', '2147483648', '4294967295', '4294967296', '4294967297',
            '0xFF', '0x1E', '0x1E000001', '0x7FFFFFFE', '0xe5', '0xFFFFFFFF', '0x1FFFFFFFF', '0xFFFFFFFFFFFFFFFF', '1.0', '1e3', '0.1', '2.5', '-0.5', '16777217', '1e-3']
    for lit in lits:
        t = ('ASAP2_VERSION 1 71 /begin PROJECT p "" /begin MODULE m "" /begin IF_DATA VENDOR %s "s" /begin BLK %s id /end BLK /end IF_DATA '
             '/end MODULE /end PROJECT') % (lit, lit)
        cases.append({'text': t, 'strict': True, 'kind': 'ifdata-number', 'literal': lit})
    # float literals at and beyond the limits of f32 and f64: uninterpreted, and at a position the file's A2ML declares as float / double
    # (a literal that does not fit a float member makes the definition fail; the uninterpreted fallback keeps it as a double)
    aml = '/begin A2ML block "IF_DATA" taggedunion { "SCALING" struct { float; double; uint; }; "D" struct { double; }; }; /end A2ML '
    for lit in ['3.4028235e38', '-3.4028235e38', '3.5e38', '4e38', '1e39', '-1e39', '1e308', '-1.7976931348623157e308', '1e-46', '5e-324', '1e-39']:
        for body in ('VENDOR %s "s"', 'SCALING %s 2.5 7', 'SCALING 1.5 %s 7', 'D %s'):
            for a in ('', aml):
                t = 'ASAP2_VERSION 1 71 /begin PROJECT p "" /begin MODULE m "" ' + a + '/begin IF_DATA ' + (body % lit) + ' /end IF_DATA /end MODULE /end PROJECT'
                cases.append({'text': t, 'strict': False, 'kind': 'ifdata-number', 'literal': lit})
    return cases


def ifdata_sequence_cases():
    """repeated members of an A2ML definition whose items are structs: complete items, an incomplete last item (the definition does
    not fit: the content is kept uninterpreted, every token must survive), an item that starts like a sibling tag"""
    aml = ('/begin A2ML block "IF_DATA" taggedunion { "DEMO" taggedstruct { block "PAIRS" (struct { uint; uint; })*; '
           '"MODES" (struct { enum { "FAST" = 0, "SLOW" = 1 }; uint; })*; "SLOW"; "COUNT" uint; "TRIPLES" (struct { uint; uint; uint; })*; }; }; /end A2ML ')
    bodies = ['/begin PAIRS 1 2 3 4 /end PAIRS COUNT 2', '/begin PAIRS 1 2 3 /end PAIRS COUNT 2', '/begin PAIRS 1 /end PAIRS', '/begin PAIRS /end PAIRS COUNT 0',
              'MODES FAST 10 SLOW 20 SLOW COUNT 2', 'MODES FAST 10 SLOW COUNT 1', 'MODES FAST 10 SLOW', 'TRIPLES 1 2 3 4 5 COUNT 1', 'TRIPLES 1 2 3 4 COUNT 1',
              'TRIPLES 1 2 COUNT 7', 'COUNT 1 TRIPLES 1 2 3 4 5 6 7']
    out = []
    for body in bodies:
        for strict in (False, True):
            t = 'ASAP2_VERSION 1 71 /begin PROJECT p "" /begin MODULE m "" ' + aml + '/begin IF_DATA DEMO ' + body + ' /end IF_DATA /end MODULE /end PROJECT'
            out.append({'text': t, 'strict': strict, 'kind': 'doc'})
    return out


def gen_cases(rng, tier):
    cases = boundary_cases() + ifdata_number_cases() + ifdata_sequence_cases()
    n = 200 if tier == 'quick' else 15000
    for i in range(n):
        node, text, toks = docs.random_doc(rng, size=rng.choice(['tiny', 'small', 'small', 'medium']),
                                           ifdata=rng.choice([None, 'unknown', 'unknown', 'empty']),
                                           a2ml='simple' if rng.random() < 0.1 else None, dupnames=0.2)
        case = {'text': text, 'strict': True, 'kind': 'doc'}
        # a document whose position-restricted children are out of order: the documented reordering gives the expected order
        import copy
        node2 = copy.deepcopy(node)
        if docs.apply_positions(node2):
            case['expected_order_text'] = docgen.render(node2, random.Random(1), docgen.Layout(mode='oneline'), docs.spec())[0]
        cases.append(case)
    # position-restricted children in every rotation of three and four positions
    for i in range(12 if tier == 'quick' else 300):
        perm = list(range(1, rng.choice([3, 4, 4, 5]) + 1))
        rng.shuffle(perm)
        tags = ['AXIS_PTS_X', 'FNC_VALUES', 'NO_AXIS_PTS_X', 'AXIS_RESCALE_X', 'NO_RESCALE_X']
        body = {'AXIS_PTS_X': 'AXIS_PTS_X %d UBYTE INDEX_INCR DIRECT', 'FNC_VALUES': 'FNC_VALUES %d UBYTE ROW_DIR DIRECT',
                'NO_AXIS_PTS_X': 'NO_AXIS_PTS_X %d UBYTE', 'AXIS_RESCALE_X': 'AXIS_RESCALE_X %d UBYTE 2 INDEX_INCR DIRECT',
                'NO_RESCALE_X': 'NO_RESCALE_X %d UBYTE'}
        use = rng.sample(tags, len(perm))
        head = 'ASAP2_VERSION 1 71 /begin PROJECT p "" /begin MODULE m "" /begin RECORD_LAYOUT rl '
        tail = ' /end RECORD_LAYOUT /end MODULE /end PROJECT'
        text = head + ' '.join(body[t] % p for t, p in zip(use, perm)) + tail
        exp = head + ' '.join(body[t] % p for p, t in sorted(zip(perm, use))) + tail
        case = {'text': text, 'strict': True, 'kind': 'doc'}
        if exp != text:
            case['expected_order_text'] = exp
        cases.append(case)
    return cases


def oracle(c, r, cases, res):
    if r.status == 'DIED':
        return 'implementation process died'
    if r.status == 'PANIC':
        return 'panic (%s)' % (r.stage or 'load')
    if c['kind'] == 'boundary':
        if not c['fits']:
            if r.status == 'OK':
                tin = loadlib.scan_tokens(c['text'])
                tout = loadlib.scan_tokens(r.text1.decode('utf-8', 'replace'))
                d = loadlib.first_token_difference(tin, tout) if tin and tout else (0, 'unscannable')
                if d is not None:
                    return 'integer literal %s does not fit its %s field, is not diagnosed and is changed: %s' % (c['literal'], c['type'], d[1])
                return 'integer literal %s does not fit its %s field and is not diagnosed' % (c['literal'], c['type'])
            return None
        if r.status != 'OK':
            return 'integer literal %s fits its %s field but the document is rejected (%s)' % (c['literal'], c['type'], sx.pretty(r.err)[1])
    if r.status != 'OK':
        return None
    text1 = r.text1.decode('utf-8', 'replace')
    tin = loadlib.scan_tokens(c['text'])
    tout = loadlib.scan_tokens(text1)
    if tin is None or tout is None:
        return 'output cannot be scanned' if tout is None else None
    if c.get('expected_order_text'):
        # the expected text is rendered in another layout: the raw text of an A2ML block is compared up to white space here
        squeeze = lambda toks: [(t[0], ' '.join(t[1].split())) + tuple(t[2:]) if t[0] == 'a2ml' else t for t in toks]
        d = loadlib.first_token_difference(squeeze(loadlib.scan_tokens(c['expected_order_text'])), squeeze(tout))
        if d is not None:
            return 'position-restricted children are written neither in file order nor in position order: ' + d[1]
    elif loadlib.reordered_blocks(r.node):
        # (the text of an A2ML block is kept with LF line ends whatever the file uses, as in the ordered comparison below)
        key = lambda t: (t[0], repr(float(loadlib.number_value(t[1])[1]) + 0.0) if (t[0] == 'number' and loadlib.number_value(t[1])) else (loadlib.unescape_py(t[1][1:-1]) if t[0] == 'string' else (t[1].replace('\r\n', '\n') if t[0] == 'a2ml' else t[1])))
        if sorted(map(key, tin)) != sorted(map(key, tout)):
            return 'tokens lost or invented (document with position-restricted reordering)'
    else:
        d = loadlib.first_token_difference(tin, tout)
        if d is not None:
            return d[1]
    # block-level comments are kept
    pos = 0
    for cm in collect_comments(r.node):
        k = text1.find(cm, pos)
        if k < 0:
            return 'block-level comment %r is missing from the output' % cm[:40]
    return None


def collect_comments(node, out=None):
    out = [] if out is None else out
    if loadlib.is_node(node):
        for cm in node[4]:
            if cm[4] == 0:
                out.append(cm[0].decode('utf-8', 'replace'))
        for grp in node[3]:
            for k in grp:
                collect_comments(k, out)
    return out


def explained_by_storage(literal):
    """is a change of this number literal explained by the recorded finding (uninterpreted IF_DATA stores numbers as i32, else
    as f32)?  An integer literal that fits an i32 and a decimal literal that an f32 holds exactly must come back unchanged."""
    import struct
    t = literal.strip()
    try:
        if t.lower().startswith('0x') or t.lower().startswith('-0x'):
            v = int(t, 16)
            return not (-(1 << 31) <= v < (1 << 31))
        if all(ch in '+-0123456789' for ch in t):
            v = int(t)
            return not (-(1 << 31) <= v < (1 << 31))
        x = float(t)
        try:
            return struct.unpack('<f', struct.pack('<f', x))[0] != x
        except OverflowError:
            # beyond the range of f32 the value is kept as an f64 (since b449238): it must come back as the same number
            return x != x or x in (float('inf'), float('-inf'))
    except (ValueError, OverflowError, struct.error):
        return True


def classify_known(c, why, r):
    import re
    if c['kind'] == 'ifdata-number':
        return 'unknown-ifdata-number-precision' if explained_by_storage(c['literal']) else None
    if 'IF_DATA' in c['text'] and 'number' in why and in_ifdata(c, why):
        m = re.search(r"input number '([^']*)'", why)
        if m is None or explained_by_storage(m.group(1)):
            return 'unknown-ifdata-number-precision'
    return None


def in_ifdata(c, why):
    import re
    m = re.search(r'token (\d+):', why)
    if not m:
        return False
    toks = loadlib.scan_tokens(c['text'])
    idx = int(m.group(1))
    depth = 0
    stack = []
    for i, t in enumerate(toks):
        if t[0] == 'begin':
            stack.append(toks[i + 1][1] if i + 1 < len(toks) else '')
        elif t[0] == 'end' and stack:
            if i >= idx:
                break
            stack.pop()
        if i == idx:
            return 'IF_DATA' in stack
    return 'IF_DATA' in stack


def nontrivial_key(c, r):
    if c['kind'] != 'doc' or len(c['text']) > 400:
        return hash(c['text'])
    return None


def distribution(cases, res):
    return {'boundary_cases': sum(1 for c in cases if c['kind'] == 'boundary'),
            'boundary_rejected': sum(1 for c, r in zip(cases, res) if c['kind'] == 'boundary' and r.status == 'ERR'),
            'ifdata_number_cases': sum(1 for c in cases if c['kind'] == 'ifdata-number')}


def check(tier, seed):
    import checks.c02 as me
    return loadcheck.run(me, tier, seed)


def replay(r):
    import checks.c02 as me
    return loadcheck.replay(r, me)
