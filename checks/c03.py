"""C03 loading never panics / hangs: proof (Props/C03.v: the scanner is total for every byte string - no out-of-bounds
access, every loop consumes input; token lines are monotone so the u32 line arithmetic cannot underflow; string and comment
scanners) + correspondence of the whole tokenizer+parser model with the implementation on malformed inputs (outcome class,
diagnostic, panic) + totality oracle on the implementation (catch_unwind, 8 MiB stack, watchdog) over all entry points."""
import os
import time
import framework as fw
import sx
from checks import docs, loadlib, loadcheck

PROP = 'C03'
TARGETS = ['theories/Proofs/TokenizerProofs.v', 'theories/Proofs/LayoutProofs.v', 'theories/Proofs/EscapeProofs.v', 'theories/Proofs/TerminationProofs.v', 'theories/Run/RunLoad.v']
RULE = ('every prefix of small generated documents, single-chunk deletion / duplication / swap / replacement, token soups over '
        '{/begin,/end,/include,A2ML,IF_DATA,quote,/*,//,numbers,identifiers}, A2ML blocks with lone quotes / unclosed comments, nesting '
        'ladders of depth 10..200000, random bytes; x strict in {0,1} x a2ml_spec in {None, valid, invalid} x entry in '
        '{load_from_string, load_fragment, load(file)}; non-trivial = input that is rejected or produces diagnostics; distinct = distinct input')
ASSUMPTIONS = ['wall-clock hanging and real stack depth are runtime facts: covered by the watchdog (60 s) and the 8 MiB thread stack of the harness, not by a theorem']
SOUP = ['/begin', '/end', '/include', 'A2ML', 'IF_DATA', '"', '/*', '*/', '//', '\n', '0x', '1', '-', '1e5', 'ident', 'MODULE', 'PROJECT',
        'ASAP2_VERSION', 'MEASUREMENT', '"str"', '/end A2ML', '/begin A2ML', '\\', "'", '.', 'x\x00y', 'é', '\r\n', '\t', ' ',
        # multi-byte characters where the scanner expects a token (error excerpts are cut by byte offsets), characters that start
        # no token, white space other than blank / tab / line ends
        '°', 'Maßeinheit°C', '漢字', '\U0001F600', '{', '$', '/x', '\x0c', '\x0b', '\ufeff', '\u00a0', '"é', 'é"']
VALID_SPEC = 'block "IF_DATA" taggedunion if_data { "XCP" struct { uint; }; };'
INVALID_SPEC = 'block "IF_DATA" taggedunion {'


def gen_texts(rng, tier):
    texts = []
    ndocs = 6 if tier == 'quick' else 60
    for d in range(ndocs):
        node, text, toks = docs.random_doc(rng, size='tiny', ifdata=rng.choice([None, 'unknown']), a2ml=rng.choice([None, 'simple']))
        step = max(1, len(text) // (250 if tier == 'quick' else 500))
        for k in range(0, len(text) + 1, step):
            texts.append(text[:k])
        chunks = loadlib.lex_chunks(text)
        for _ in range(60 if tier == 'quick' else 300):
            ch = list(chunks)
            k = rng.randrange(len(ch))
            op = rng.randrange(4)
            if op == 0:
                del ch[k]
            elif op == 1:
                ch.insert(k, ch[k])
            elif op == 2:
                j = rng.randrange(len(ch)); ch[k], ch[j] = ch[j], ch[k]
            else:
                ch[k] = ' ' + rng.choice(SOUP)
            texts.append(''.join(ch))
    for _ in range(400 if tier == 'quick' else 30000):
        n = rng.randrange(1, 25)
        texts.append(' '.join(rng.choice(SOUP) for _ in range(n)) if rng.random() < 0.7 else ''.join(rng.choice(SOUP) for _ in range(n)))
    # the raw text of an A2ML block is a String token too: where the block stands in uninterpreted IF_DATA (or anywhere a string is
    # expected) that text goes through get_string - texts that start with a quote, end in a multi-byte character, are one byte long
    for raw in ('"é', '"', '""', '"a', '"é"', '"\\', 'é"', '"\U0001F600', 'x', '"漢', "'", '"\n"', '" é'):
        for ctx in ('/begin IF_DATA X /begin A2ML%s /end A2ML /end IF_DATA', '/begin IF_DATA X /begin A2ML %s /end A2ML K 1 /end IF_DATA',
                    '/begin A2ML%s /end A2ML', '/begin MEASUREMENT m /begin A2ML%s /end A2ML'):
            texts.append('ASAP2_VERSION 1 71 /begin PROJECT p "" /begin MODULE m "" ' + (ctx % raw) + ' /end MODULE /end PROJECT')
    # IF_DATA read under an A2ML definition whose repeated members can match without taking a token (a reader that goes on
    # while "an item was read" never ends there): hand-written shapes and generated definitions, conforming and mutated content
    hdr2 = 'ASAP2_VERSION 1 71 /begin PROJECT p "" /begin MODULE m "" /begin A2ML %s /end A2ML /begin IF_DATA %s /end IF_DATA /end MODULE /end PROJECT'
    nullable = [('block "IF_DATA" taggedstruct { "ITEM" ( struct { taggedstruct { "X" uint; }; } )*; };', ['ITEM', 'ITEM X 1', 'ITEM X 1 X 2', 'ITEM Y', '']),
                ('block "IF_DATA" taggedstruct { "ITEM" ( taggedstruct { "X" uint; } )*; };', ['ITEM', 'ITEM X 1 X', 'ITEM 1']),
                ('block "IF_DATA" struct { ( taggedunion { "A" uint; "B" float; } )*; };', ['', 'A 1', 'A 1 B 2.5', 'C']),
                ('block "IF_DATA" struct { ( struct { taggedstruct { ("R" uint)*; }; taggedunion { "U" uint; }; } )*; uint; };', ['1', 'R 1 R 2 U 3 4', 'U 1', '']),
                ('block "IF_DATA" struct { ( struct { ( uint )*; } )*; };', ['', '1 2 3', 'x']),
                ('block "IF_DATA" taggedstruct { block "B" ( struct { taggedstruct { "X" uint; }; } )*; };', ['/begin B /end B', '/begin B X 1 /end B', '/begin B', 'B'])]
    for aml, contents in nullable:
        for cont in contents:
            texts.append(hdr2 % (aml, cont))
    try:
        from checks import a2mlgen as g, c18
        for i in range(20 if tier == 'quick' else 1500):
            d = g.gen_definition(rng, rng.choice([1, 2, 3]), nullable_seq=True, struct_repeat=rng.random() < 0.5, tu_seq=rng.random() < 0.3)
            a2ml = g.render_definition(d)
            for b in [b[0] for b in c18.mixed_blocks(rng, d, 2, rng.choice([0, 2, 4]))][:3]:
                texts.append(c18.document(a2ml, [b]))
    except RecursionError:
        pass
    # the crash shapes found earlier (regressions of fix: commits) and their relatives
    hdr = 'ASAP2_VERSION 1 71 /begin PROJECT p "" /begin MODULE m "" '
    texts += ['/begin A2ML', '/begin A2ML ', hdr + '/begin A2ML', hdr + '/begin A2ML /', hdr + '/begin A2ML /*', hdr + '/begin A2ML //',
              hdr + '/begin A2ML "', hdr + '/begin A2ML " /end A2ML', hdr + '/begin IF_DATA /begin A2ML" /end A2ML /end IF_DATA /end MODULE /end PROJECT',
              hdr + '/begin A2ML block "IF_DATA" long; /end A2ML /begin IF_DATA "', '"', '/', '/*', '-', '0x', '.', '\\', '/begin', '/end', '/include',
              hdr + '/begin A2ML\r\n\r\n/end A2ML /end MODULE /end PROJECT']
    return texts


def damaged_block_texts():
    """/begin .. /end structure damaged inside IF_DATA (read uninterpreted and under a definition) and inside ordinary blocks: the tag
    behind /begin deleted, replaced by a string / number / /end, /begin doubled, input cut behind /begin.  Each text is loaded
    in BOTH modes (a reader that only logs the problem in non-strict mode must still get past it)."""
    hdr = 'ASAP2_VERSION 1 71 /begin PROJECT p "" /begin MODULE m "" '
    ftr = ' /end MODULE /end PROJECT'
    aml = '/begin A2ML block "IF_DATA" taggedunion { "XCP" struct { uint; taggedstruct { block "SEG" struct { uint; }; "K" uint; }; }; }; /end A2ML '
    bodies = ['XCP 1 /begin SEG 2 /end SEG K 3', 'XCP /begin SEG 1 2 /end SEG', 'VENDOR /begin SEG 1 /begin INNER "a" /end INNER /end SEG 5']
    out = []
    for a in ('', aml):
        for body in bodies:
            toks = body.split(' ')
            for i, t in enumerate(toks):
                if t != '/begin':
                    continue
                variants = [toks[:i + 1] + toks[i + 2:],                       # tag deleted
                            toks[:i + 1] + ['"text"'] + toks[i + 2:],           # tag replaced by a string
                            toks[:i + 1] + ['17'] + toks[i + 2:],               # ... by a number
                            toks[:i + 1] + ['/end'] + toks[i + 2:],             # ... by /end
                            toks[:i + 1] + ['/begin'] + toks[i + 1:],           # /begin doubled
                            toks[:i + 1] + ['/* c */'] + toks[i + 1:],          # a comment between /begin and its tag
                            toks[:i + 1]]                                       # cut behind /begin (block closed below)
                for vt in variants:
                    out.append(hdr + a + '/begin IF_DATA ' + ' '.join(vt) + ' /end IF_DATA' + ftr)
                out.append(hdr + a + '/begin IF_DATA ' + ' '.join(toks[:i + 1]))  # end of input behind /begin
    for blk in ('/begin MEASUREMENT m1 "" UBYTE NO_COMPU_METHOD 0 0 0 255 /begin %s /end MEASUREMENT', '/begin %s /end MODULE',
                '/begin GROUP g "" /begin %s FUNCTION_LIST /end GROUP'):
        for tag in ('', '"s"', '1', '/end', '/begin', '/begin X /end X'):
            out.append(hdr + (blk % tag) + ftr)
    return out


def ladders(tier):
    out = []
    depths = [10, 100, 1000, 5000] + ([20000, 200000] if True else [])
    hdr = 'ASAP2_VERSION 1 71 /begin PROJECT p "" /begin MODULE m "" /begin IF_DATA X '
    for d in depths:
        out.append(hdr + '/begin B ' * d + '/end B ' * d + '/end IF_DATA /end MODULE /end PROJECT')
        out.append(hdr + '/begin B ' * d)
    return out


def check(tier, seed):
    v = fw.Verdict(PROP, tier, seed)
    rng = fw.rng_for(seed, PROP)
    known = fw.load_known_findings().get(PROP, {})
    t_info = loadcheck.stage_t(v)
    ok_p, p_info = fw.proof_stage(v, PROP, TARGETS)
    model_exe, model_err = None, None
    try:
        ok_m, log_m = fw.coq_make(['theories/Run/RunLoad.v'])
        if not ok_m:
            raise fw.CheckFailure('model does not compile:\n' + log_m[-2000:])
        model_exe = fw.build_model('LOAD')
    except fw.CheckFailure as e:
        model_err = str(e)
    impl = fw.build_harness()
    texts = gen_texts(rng, tier)
    # --- part 1: correspondence on the malformed stream (string entry point, both modes)
    tuples = []
    for t in texts:
        tuples.append((t, rng.random() < 0.5, None, 0))
    for t in damaged_block_texts():
        for strict in (False, True):
            texts.append(t)
            tuples.append((t, strict, None, 0))
    t1 = time.time()
    res, lines = loadlib.run_impl(tuples, impl, timeout=240 if tier == 'quick' else 1800)
    # re-run died shards case by case (a load that does not end within the limit counts as died: "never hangs")
    died = [i for i, r in enumerate(res) if r.status == 'DIED']
    if died:
        from concurrent.futures import ThreadPoolExecutor
        with ThreadPoolExecutor(max_workers=fw.NPROC) as ex:
            redo = list(ex.map(lambda i: fw.run_single([impl, 'LOAD'], lines[i], timeout=30), died))
        for i, l in zip(died, redo):
            res[i] = loadlib.Loaded(l)
    mism = []
    if model_exe:
        mout, _ = loadlib.run_model(tuples, res, model_exe)
        for i, (r, m) in enumerate(zip(res, mout)):
            d = loadlib.compare(r, m)
            if d is not None:
                mism.append((i, d))
    # --- part 2: totality over configurations and entry points
    cfg_cases = []
    pool = texts + ladders(tier)
    for t in pool:
        b = t.encode('utf-8', 'surrogatepass') if isinstance(t, str) else t
        spec = rng.choice([None, None, VALID_SPEC, INVALID_SPEC])
        cfg_cases.append([b, rng.randrange(2), [spec] if spec else [], rng.choice([0, 0, 1, 2])])
    for _ in range(300 if tier == 'quick' else 40000):
        n = rng.choice([0, 1, 2, 3, 5, 8, 16, 40, 200])
        cfg_cases.append([bytes(rng.randrange(256) for _ in range(n)), rng.randrange(2), [], 2])
    clines = [sx.enc(c) for c in cfg_cases]
    cout = fw.run_isolating([impl, 'C03'], clines, timeout=240 if tier == 'quick' else 1800, single_timeout=30)
    # --- part 3: documents that live in several files (entry point load(file) with /include), whole and with an include
    # file truncated at a random point; comment-heavy layouts at the file boundaries
    from checks import inclib, c16
    icases = inclib.gen_split_cases(rng, 30 if tier == 'quick' else 1500)
    for c in list(icases):
        incs = [p_ for p_ in c['files'] if p_ != c['main'] and isinstance(c['files'][p_], str) and c['files'][p_]]
        if incs:
            p_ = rng.choice(sorted(incs))
            cut = dict(c, files=dict(c['files']))
            cut['files'][p_] = c['files'][p_][:rng.randrange(len(c['files'][p_]))]
            icases.append(cut)
    icases += boundary_comment_cases()
    ilines = [sx.enc(list(c16.loadinc_line(c))) for c in icases]
    iout = fw.run_isolating([impl, 'LOADINC'], ilines, timeout=240 if tier == 'quick' else 1800, single_timeout=30)
    inclib.cleanup_tmp()
    t_corr = time.time() - t1

    failures = []        # (description, replay payload, known key or None)
    inc_outcomes = {}
    for c, l, il in zip(icases, iout, ilines):
        st = 'DIED' if (l is None or l.startswith('DIED')) else sx.pretty(sx.dec(l))[0]
        inc_outcomes[st] = inc_outcomes.get(st, 0) + 1
        if st in ('PANIC', 'DIED'):
            failures.append(('%s in load(file) of a document split into %d files (%s)' % (st, len(c['files']), (l or '')[:40]),
                             {'kind': 'LOADINC', 'case': il, 'files': {k_: (t_ if isinstance(t_, str) else '') for k_, t_ in c['files'].items()}, 'main': c['main']}, None))
    for i, r in enumerate(res):
        if r.status in ('PANIC', 'DIED'):
            failures.append(('load_from_string %s on %r' % (r.status, texts[i][:60]), {'kind': 'LOAD', 'case': lines[i], 'text': texts[i]}, classify(texts[i])))
    outcomes = {}
    for c, l in zip(cfg_cases, cout):
        st = 'DIED' if l.startswith('DIED') else sx.pretty(sx.dec(l))[0]
        outcomes[st] = outcomes.get(st, 0) + 1
        if st in ('PANIC', 'DIED'):
            txt = bytes(c[0]).decode('utf-8', 'replace')
            failures.append(('%s (%s) in entry point %d on %r' % (st, l[:30], c[3], txt[:60]), {'kind': 'C03', 'case': sx.enc(c)}, classify(txt)))
    status = {}
    for r in res:
        status[r.status] = status.get(r.status, 0) + 1
    v.coverage.update({
        'evaluations': len(texts) + len(cfg_cases) + len(icases),
        'distinct_nontrivial': len({t for t, r in zip(texts, res) if r.status != 'OK' or r.diags}) + len({bytes(c[0]) for c in cfg_cases}),
        'rule': RULE, 'samples': [texts[5][:200], texts[len(texts) // 2][:200]],
        'traces_validated_against_impl': len(texts) - len(mism) if model_exe else 0,
        'correspondence_mismatches': len(mism), 'oracle_failures': len(failures), 'correspondence_wall_s': round(t_corr, 1),
        'input_distribution': {'load_from_string_status': status, 'all_entry_points_outcome': outcomes, 'multi_file_outcome': inc_outcomes,
                               'deepest_nesting_ladder': 200000},
        'trusted_base': ['std::panic::catch_unwind and process exit status as the observation of panics / aborts',
                         'float oracle table, extraction, translators as in C01'],
    })
    v.assumptions = ASSUMPTIONS
    reported = 0
    for desc, payload, key in failures:
        if key is not None and key in known:
            v.known(key, known[key])
            continue
        if reported < 3:
            payload = dict(payload, why=desc, stage='W (totality oracle on the implementation)')
            v.violation('input', payload)
            reported += 1
    if reported == 0:
        if not t_info.get('ok', True):
            v.violation('translate', {'stage': 'T', 'broken': t_info.get('what'), 'detail': t_info.get('detail')}, no_input=True)
        if not ok_p:
            v.violation('proof', {'stage': 'P', 'broken_obligation': p_info.get('failing'), 'problems': p_info.get('problems'),
                                  'forbidden_constructs': p_info.get('forbidden'), 'log_tail': p_info.get('log', '')}, no_input=True)
        if model_err:
            v.violation('model', {'stage': 'C', 'broken': 'model build', 'detail': model_err}, no_input=True)
        elif mism:
            i, d = mism[0]
            v.violation('correspondence', {'stage': 'C', 'broken': 'correspondence of tokenizer+parser model with the implementation on malformed input (%d of %d differ)' % (len(mism), len(texts)),
                                           'first_difference': d, 'kind': 'LOAD', 'case': lines[i], 'text': texts[i]}, no_input=True)
    return v.finish('proof')


def boundary_comment_cases():
    """include directives at the three kinds of places where comments are not kept (top level, between the parameters of
    an element, inside IF_DATA) and at block level, x a comment of either kind at the start / end of the include file and
    before / behind the directive, x blank lines that make the line numbers of the two files run in either order"""
    out = []
    cm = ['', '/* banner */\n', '// banner\n', '/* two\n lines */ ', '/**/']
    places = {
        'top': ('ASAP2_VERSION 1 71\n%s/include "x.inc"%s\n',
                '%s/begin PROJECT p ""\n /begin MODULE m "" /end MODULE\n/end PROJECT%s'),
        'param': ('ASAP2_VERSION 1 71 /begin PROJECT p "" /begin MODULE m ""\n/begin MEASUREMENT a ""\n%s/include "x.inc"%s\n/end MODULE /end PROJECT',
                  '%sUBYTE NO_COMPU_METHOD 0 0 0 1\n/end MEASUREMENT%s'),
        'ifdata': ('ASAP2_VERSION 1 71 /begin PROJECT p "" /begin MODULE m ""\n/begin IF_DATA V\n%s/include "x.inc"%s\n/end IF_DATA /end MODULE /end PROJECT',
                   '%s1 2 "s" /begin B 3 /end B%s'),
        'block': ('ASAP2_VERSION 1 71 /begin PROJECT p "" /begin MODULE m ""\n%s/include "x.inc"%s\n/end MODULE /end PROJECT',
                  '%s/begin MEASUREMENT a "" UBYTE NO_COMPU_METHOD 0 0 0 1 /end MEASUREMENT%s'),
    }
    for place, (main_t, inc_t) in sorted(places.items()):
        for lead in (0, 12):
            for c_inc_start in cm:
                for c_other in ('', '/* c */ ', '// c\n'):
                    for where in range(3):
                        pre = c_other if where == 0 else ''
                        post = (' ' + c_other) if where == 1 else ''
                        tail = ('\n' + c_other) if where == 2 else ''
                        files = {'main.a2l': '\n' * lead + main_t % (pre, post), 'x.inc': inc_t % (c_inc_start, tail)}
                        for strict in (True, False):
                            out.append({'files': files, 'main': 'main.a2l', 'strict': strict, 'kind': 'split',
                                        'label': 'boundary comment %s lead=%d' % (place, lead)})
    return out


def nesting_depth(text):
    d = m = 0
    for tok in text.split():
        if tok == '/begin':
            d += 1
            m = max(m, d)
        elif tok == '/end':
            d -= 1
    return m


def classify(text):
    if nesting_depth(text) >= 2000:
        return 'unbounded-recursion'
    return None


def replay(r):
    impl = fw.build_harness()
    line = fw.run_single([impl, r['kind']], r['case'], timeout=60)
    print('implementation:', line[:300])
    bad = line.startswith('DIED') or 'PANIC' in line[:40] or '50414e4943' in line[:40]
    print('oracle:', 'panic / crash' if bad else 'no panic')
    return 1 if bad else 0
