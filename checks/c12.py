"""C12 limit plausibility: proof (Props/C12.v: range per conversion kind for all floats; float classification =
exact rational classification on the property's whole grid, decided in the kernel) + bit-exact correspondence of
the primitive-float model with checker.rs (calc through the cfg hook, error decision through public check() on
modules built per object kind) + oracle against exact rational arithmetic in Python."""
import struct
from fractions import Fraction
import framework as fw
import sx

PROP = 'C12'
KIND = 'C12'
TARGETS = ['theories/Proofs/LimitsProofs.v', 'theories/Lib/LimitsRun.v']
FLOAT_PRIMS = ('sub', 'opp', 'mul', 'ltb', 'float', 'div', 'add', 'abs', 'PrimFloat.leb', 'PrimFloat.eqb',
               'normfr_mantissa', 'frshiftexp', 'ldshiftexp', 'of_uint63', 'classify', 'PrimFloat.compare',
               'PrimInt63.lsr', 'PrimInt63.land', 'PrimInt63.int', 'PrimInt63.eqb', 'PrimInt63.lsl', 'PrimInt63.lor',
               'PrimInt63.sub', 'PrimInt63.add', 'PrimInt63.ltb', 'PrimInt63.leb', 'PrimInt63.mul', 'PrimInt63.compare')
RULE = ('12 object kinds (MEASUREMENT, TYPEDEF_MEASUREMENT, AXIS_PTS, CHARACTERISTIC of type VALUE / ASCII / VAL_BLK / CURVE, TYPEDEF_CHARACTERISTIC of type VALUE / ASCII, AXIS_DESCR; incl. a standard axis as second axis of a MAP and third axis of a CUBOID behind a FIX_AXIS, record layout with other data types at the other positions) x 11 data types x conversion kinds {none, FORM, LINEAR with/without coeffs, RAT_FUNC with/without coeffs '
        '(linear special case and general), IDENTICAL, TAB_*} x coefficient grid (both signs, 1e-6..1e6, exact and inexact decimals) '
        'x declared limits inside / outside on each side / at the tolerance edge, plus random bit patterns incl. inf, nan, subnormals; '
        'non-trivial = LINEAR or RAT_FUNC with coefficients; distinct = distinct (case, outcome)')
TRUSTED_BASE = ['Coq primitive floats (kernel implementation of IEEE-754 binary64 = hardware floats) evaluated by vm_compute in coqc; listed by Print Assumptions as primitive constants, no FloatAxioms used',
                'f64 literal parsing of rustc for the data type constants and 1E-6 (compared bit for bit with the model constants through the correspondence)']
ASSUMPTIONS = ['NaN results are compared as one canonical NaN', 'declared limits and coefficients reach check() as f64 values (text->f64 is C01/C02 territory)']

DT_RAW = [(0, 255), (-128, 127), (0, 65535), (-32768, 32767), (0, 4294967295), (-2147483648, 2147483647),
          (0, 2 ** 64), (-2 ** 63, 2 ** 63), (-65504, 65504), None, None]


def fbits(x):
    return struct.unpack('<Q', struct.pack('<d', x))[0]


def bfloat(b):
    return struct.unpack('<d', struct.pack('<Q', b))[0]


def gen_cases(rng, tier):
    cases = []
    coef = [1e-6, 1e-3, 0.1, 0.5, 1.0, 2.5, 3.0, 100.0, 1e3, 1e6]
    offs = [0.0, 1.0, -1.0, 0.5, -40.0, 100.5, 1e6, -1e6, 1e-6]
    # corpus first: the negative-slope regression (fixed) and the tolerance edge
    cases.append([0, 0, 3, [fbits(-1.0), fbits(0.0)], fbits(-255.0), fbits(0.0)])
    cases.append([0, 0, 3, [fbits(-1.0), fbits(0.0)], fbits(0.0), fbits(0.0)])
    n_grid = 1500 if tier == 'quick' else 200000
    for _ in range(n_grid):
        k = rng.randrange(12)
        d = rng.randrange(11)
        r = rng.random()
        if r < 0.45:
            a = rng.choice(coef) * rng.choice([1, -1]); b = rng.choice(offs)
            ck, cs = 3, [fbits(a), fbits(b)]
        elif r < 0.8:
            b = rng.choice(coef) * rng.choice([1, -1]); c = rng.choice(offs); f = rng.choice([1.0, -1.0, 0.5, 1e3, 1e-3])
            general = rng.random() < 0.15
            a = rng.choice([1.0, 0.0]) if general else 0.0
            dd = 1.0 if (general and a == 0.0) else 0.0
            # a general RAT_FUNC is one with a, d or e different from zero (or f = 0): each alone must make it general
            ee = 0.0
            if general and rng.random() < 0.4:
                a, dd, ee = 0.0, 0.0, rng.choice([1.0, -1.0, 1e-3, 0.5, 255.0])
            ck, cs = 5, [fbits(a), fbits(b), fbits(c), fbits(dd), fbits(ee), fbits(f if not (general and rng.random() < 0.3) else 0.0)]
        else:
            ck, cs = rng.choice([0, 1, 2, 4, 6, 7, 8, 9]), []
        # declared limits relative to an estimate of the range
        raw = DT_RAW[d] or ((-3.4e38, 3.4e38) if d == 9 else (-1.7e308, 1.7e308))
        lo, hi = float(raw[0]), float(raw[1])
        if ck == 3:
            x, y = a * lo + b, a * hi + b
            lo, hi = min(x, y), max(x, y)
        elif ck == 5 and cs[0] == fbits(0.0) and cs[3] == fbits(0.0) and bfloat(cs[5]) != 0.0:
            ff = bfloat(cs[5])
            x, y = (ff * lo - c) / b, (ff * hi - c) / b
            lo, hi = min(x, y), max(x, y)
        w = hi - lo if hi - lo < float('inf') else 1e300
        place = rng.randrange(6)
        q = w * 0.25
        pad = abs(lo) * 0.01 + abs(hi) * 0.01 + q + 1.0
        dl, dh = {0: (lo + q, hi - q), 1: (lo - pad, hi - q), 2: (lo + q, hi + pad), 3: (lo - pad, hi + pad),
                  4: (lo, hi), 5: (lo - abs(lo) * 5e-7, hi + abs(hi) * 5e-7)}[place]
        cases.append([k, d, ck, cs, fbits(dl), fbits(dh)])
    n_rand = 300 if tier == 'quick' else 50000
    special = [0, 1 << 63, 0x7FF0000000000000, 0xFFF0000000000000, 0x7FF8000000000000, 1, 0x7FEFFFFFFFFFFFFF, 0xFFEFFFFFFFFFFFFF]
    def rb():
        return rng.choice(special) if rng.random() < 0.2 else rng.getrandbits(64)
    for _ in range(n_rand):
        ck = rng.choice([3, 5])
        cs = [rb() for _ in range(2 if ck == 3 else 6)]
        if ck == 5 and rng.random() < 0.7:
            cs[0] = 0; cs[3] = 0; cs[4] = 0
        cases.append([rng.randrange(12), rng.randrange(11), ck, cs, rb(), rb()])
    return cases


def model_terms(cases):
    out = []
    for k, d, ck, cs, lo, hi in cases:
        out.append('run_case %d %d %d [%s] %d %d' % (k, d, ck, '; '.join(str(x) for x in cs), lo, hi))
    return out


def exact_expectation(case):
    """exact rational classification, or None when not clearly decidable / not finite"""
    k, d, ck, cs, lo, hi = case
    import math
    vals = [bfloat(x) for x in cs] + [bfloat(lo), bfloat(hi)]
    if any(math.isnan(v) or math.isinf(v) for v in vals):
        return None
    # the statement quantifies over coefficient magnitudes 1e-6..1e6; outside a generous margin around that grid
    # (subnormal or astronomically large coefficients, where the binary64 evaluation itself overflows to +-inf) the
    # exact-arithmetic oracle does not judge - those cases still go through the model/implementation comparison
    if any(v != 0 and not (1e-9 <= abs(v) <= 1e9) for v in vals[:len(cs)]):
        return None
    raw = DT_RAW[d]
    if raw is None:
        raw = (-Fraction(bfloat(0x47EFFFFFE0000000)), Fraction(bfloat(0x47EFFFFFE0000000))) if d == 9 else \
              (-Fraction(bfloat(0x7FEFFFFFFFFFFFFF)), Fraction(bfloat(0x7FEFFFFFFFFFFFFF)))
    rlo, rhi = Fraction(raw[0]), Fraction(raw[1])
    if ck == 3:
        a, b = Fraction(vals[0]), Fraction(vals[1])
        x, y = a * rlo + b, a * rhi + b
    elif ck == 5:
        a, b, c, dd, e, f = [Fraction(v) for v in vals[:6]]
        if not (a == 0 and dd == 0 and e == 0 and f != 0):
            return False           # not evaluated: never an error
        if b == 0:
            return None
        x, y = (f * rlo - c) / b, (f * rhi - c) / b
    elif ck == 1:
        return False
    else:
        x, y = rlo, rhi
    elo, ehi = min(x, y), max(x, y)
    if max(abs(elo), abs(ehi)) > Fraction(10) ** 300:
        return None
    dl, dh = Fraction(vals[-2]), Fraction(vals[-1])
    # per side: clearly outside (by more than 1e-4 of the bound), or inside / on the bound / beyond it by less than 1e-9 of
    # the bound (far within the documented tolerance of 1e-6); anything between is not judged
    def side(decl, ex, outward):
        # the documented tolerance is relative to the calculated bound (1e-6 of it): for a bound of 0 it is 0
        margin = abs(ex)
        beyond = (decl - ex) * outward          # > 0: outside the calculated range
        if beyond > 0 and beyond >= margin * Fraction(1, 10000):
            return 'out'
        if beyond <= margin * Fraction(1, 10 ** 9):
            return 'in'
        return None
    lo_side, hi_side = side(dl, elo, -1), side(dh, ehi, 1)
    if lo_side is None or hi_side is None:
        return None
    return lo_side == 'out' or hi_side == 'out'


def oracle_line(case, impl):
    if isinstance(impl, str):
        return impl
    exp = exact_expectation(case)
    if exp is None:
        return None
    if bool(impl[0]) != exp:
        return 'limit error %s reported, exact arithmetic says it %s be (calc range bits %x..%x)' % (
            'is' if impl[0] else 'is not', 'should' if exp else 'should not', impl[1], impl[2])
    return None


def check(tier, seed):
    v = fw.Verdict(PROP, tier, seed)
    rng = fw.rng_for(seed, PROP)
    ok_p, p_info = fw.proof_stage(v, PROP, TARGETS, FLOAT_PRIMS)
    impl = fw.build_harness()
    cases = gen_cases(rng, tier)
    lines = [sx.enc(c) for c in cases]
    impl_raw = fw.run_sharded([impl, KIND], lines)
    impl_out = []
    for l in impl_raw:
        if l.startswith('DIED'):
            impl_out.append(l)
        else:
            r = sx.pretty(sx.dec(l))
            impl_out.append(tuple(r) if len(r) == 3 and isinstance(r[0], int) else 'UNEXPECTED: %s' % r)
    model_err = None
    model_out = None
    try:
        header = ('From A2L Require Import Lib.Limits Lib.LimitsRun.\nFrom Coq Require Import ZArith List.\n'
                  'Import ListNotations.\nOpen Scope Z_scope.')
        model_out = fw.run_model_coqc(PROP, header, model_terms(cases), 3)
    except fw.CheckFailure as e:
        model_err = str(e)
    mism = [i for i in range(len(cases)) if model_out is not None and impl_out[i] != model_out[i]]
    fails = [(i, oracle_line(cases[i], impl_out[i])) for i in range(len(cases))]
    fails = [(i, w) for i, w in fails if w]
    decided = sum(1 for c in cases if exact_expectation(c) is not None)
    keys = {(tuple(map(str, c)), impl_out[i]) for i, c in enumerate(cases) if c[2] in (3, 5) and c[3]}
    v.coverage.update({
        'evaluations': len(cases), 'distinct_nontrivial': len(keys), 'rule': RULE,
        'samples': [cases[0], cases[len(cases) // 2], cases[-1]],
        'traces_validated_against_impl': len(cases) - len(mism) if model_out is not None else 0,
        'correspondence_mismatches': len(mism), 'oracle_failures': len(fails),
        'cases_decided_by_exact_arithmetic': decided,
        'input_distribution': {'error_reported': sum(1 for o in impl_out if not isinstance(o, str) and o[0]),
                               'no_error': sum(1 for o in impl_out if not isinstance(o, str) and not o[0])},
        'trusted_base': TRUSTED_BASE,
    })
    v.assumptions = ASSUMPTIONS
    for i, w in fails[:3]:
        v.violation('input', {'kind': KIND, 'case': lines[i], 'case_readable': cases[i], 'why': w,
                              'implementation_output': list(impl_out[i]) if not isinstance(impl_out[i], str) else impl_out[i],
                              'stage': 'W (exact rational oracle)'})
    extra = extra_stage(v, tier, rng, impl)
    for ex in extra[:max(0, 3 - len(fails))]:
        v.violation('input', ex['payload'])
    if not fails and not extra:
        if not ok_p:
            v.violation('proof', {'stage': 'P', 'broken_obligation': p_info.get('failing'), 'problems': p_info.get('problems'),
                                  'forbidden_constructs': p_info.get('forbidden'), 'log_tail': p_info.get('log', '')}, no_input=True)
        if model_err:
            v.violation('model', {'stage': 'C', 'broken': 'model evaluation', 'detail': model_err}, no_input=True)
        elif mism:
            i = mism[0]
            v.violation('correspondence', {'stage': 'C', 'broken': 'correspondence model/implementation (%d of %d differ)' % (len(mism), len(cases)),
                                           'kind': KIND, 'case': lines[i], 'case_readable': cases[i],
                                           'implementation_output': impl_out[i], 'model_output': model_out[i]}, no_input=True)
    return v.finish('proof')


def oracle(case, line):
    if line.startswith('DIED'):
        return line
    r = sx.pretty(sx.dec(line))
    return oracle_line(case, tuple(r) if len(r) == 3 and isinstance(r[0], int) else 'UNEXPECTED: %s' % r)


def extra_stage(v, tier, rng, impl):
    """the decision for an object depends on its own module only: groups of cases put into ONE file (one MODULE each, every
    module with its own compu method of the same name "cm"), one check() - every object must get the decision it gets alone"""
    base = gen_cases(rng, 'quick')
    rng.shuffle(base)
    n_groups = 150 if tier == 'quick' else 20000
    groups = []
    for g in range(n_groups):
        k = rng.choice([2, 2, 3, 4, 6])
        grp = [rng.choice(base) for _ in range(k)]
        if g % 3 == 0:
            # same object kind and data type in every module, different conversions: what a per-file cache would mix up
            grp = [[grp[0][0], grp[0][1]] + list(c[2:]) for c in grp]
        groups.append(grp)
    flat = [c for grp in groups for c in grp]
    single = fw.run_sharded([impl, 'C12'], [sx.enc(c) for c in flat])
    multi = fw.run_sharded([impl, 'C12M'], [sx.enc(grp) for grp in groups])
    found, pos, n_ok, n_mixed = [], 0, 0, 0
    for grp, line in zip(groups, multi):
        alone = single[pos:pos + len(grp)]
        pos += len(grp)
        if line is None or line.startswith('DIED') or any(a is None or a.startswith('DIED') for a in alone):
            found.append({'payload': {'kind': 'C12M', 'case': sx.enc(grp), 'case_readable': grp, 'why': 'implementation died',
                                      'stage': 'W (several modules in one file)'}})
            continue
        m = sx.dec(line)
        a = [sx.dec(x) for x in alone]
        if m and m[0] == b'UNEXPECTED' or any(x and x[0] == b'UNEXPECTED' for x in a):
            continue
        want = [x[0] for x in a]
        if len({sx.enc(list(c[2:4])) for c in grp}) > 1:
            n_mixed += 1
        if list(m) != want:
            k = next(i for i, (x, y) in enumerate(zip(m, want)) if x != y)
            if len(found) < 3:
                found.append({'payload': {'kind': 'C12M', 'case': sx.enc(grp), 'case_readable': grp, 'alone': want, 'together': list(m),
                                          'why': 'the object of module %d gets %d limit error(s) alone and %d in a file with %d modules' % (k, want[k], m[k], len(grp)),
                                          'stage': 'W (several modules in one file)'}})
        else:
            n_ok += 1
    v.coverage['multi_module_files'] = len(groups)
    v.coverage['multi_module_files_with_different_conversions_named_cm'] = n_mixed
    v.coverage['multi_module_files_ok'] = n_ok
    return found


def replay(r):
    if r.get('kind') != 'C12M':
        return None
    impl = fw.build_harness()
    grp = sx.dec(r['case'])
    together = sx.dec(fw.run_single([impl, 'C12M'], r['case']))
    alone = [sx.dec(fw.run_single([impl, 'C12'], sx.enc(c)))[0] for c in grp]
    print('cases:', r.get('case_readable'))
    print('alone:   ', alone)
    print('together:', list(together))
    return 0 if list(together) == alone else 1
