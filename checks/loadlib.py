"""Running LOAD cases on the implementation and on the extracted parser/writer model.
   impl answer (harness/implrun/src/load.rs):
     ( OK <node> ( <diag>* ) text1 ( <cycle>* ) <floattable> ) | ( ERR <diag> <floattable> ) | ( PANIC [stage] <floattable> )
   model answer (coq/theories/Run/RunLoad.v):
     ( OK <node> ( <diag>* ) text1 ) | ( ERR <diag> ) | ( PANIC site ) | ( FUEL ) | ( UNSUPPORTED what )"""
import framework as fw
import sx


class Loaded:
    __slots__ = ('raw', 'status', 'node', 'diags', 'text1', 'cycles', 'ftab', 'err', 'stage', 'a2ml')

    def __init__(self, line):
        self.raw = line
        self.node = self.diags = self.text1 = self.cycles = self.err = self.stage = None
        self.ftab = []
        self.a2ml = [[], []]
        if line is None or line.startswith('DIED'):
            self.status = 'DIED'
            return
        r = sx.dec(line)
        # the last element is the A2ML oracle ( table builtin ) - see load.rs a2mltable
        if len(r) >= 2 and isinstance(r[-1], list) and len(r[-1]) == 2 and all(isinstance(x, list) for x in r[-1]) and \
                all(isinstance(e, list) and len(e) == 2 and isinstance(e[0], (bytes, bytearray)) for e in r[-1][0]):
            self.a2ml = r[-1]
            r = r[:-1]
        self.status = r[0].decode()
        if self.status == 'OK':
            self.node, self.diags, self.text1, self.cycles, self.ftab = r[1], r[2], r[3], r[4], r[5]
        elif self.status == 'ERR':
            self.err = r[1]
            self.ftab = r[2] if len(r) > 2 else []
        elif self.status == 'PANIC':
            if len(r) > 1 and isinstance(r[1], (bytes, bytearray)):
                self.stage = r[1].decode()
                self.ftab = r[2] if len(r) > 2 else []
            else:
                self.ftab = r[1] if len(r) > 1 else []

    def diag_list(self):
        return [diag_key(d) for d in (self.diags or [])]


def diag_key(d):
    """(kind, variant, line, key text)"""
    p = sx.pretty(d)
    return (p[0], p[1], p[2], p[4] if len(p) > 4 else '')


def run_impl(cases, binary=None, timeout=3000):
    """cases: list of (text, strict, spec_or_None, cycles) -> list of Loaded"""
    binary = binary or fw.build_harness()
    lines = [sx.enc([t, 1 if s else 0, [sp] if sp else [], cyc]) for (t, s, sp, cyc) in cases]
    out = fw.run_sharded([binary, 'LOAD'], lines, timeout=timeout)
    return [Loaded(l) for l in out], lines


def run_model(cases, impl_results, model_exe, timeout=3000):
    lines = []
    for (t, s, sp, cyc), r in zip(cases, impl_results):
        lines.append(sx.enc([t, 1 if s else 0, [sp] if sp else [], 0, r.ftab if r.ftab is not None else [], r.a2ml[0], r.a2ml[1]]))
    out = fw.run_sharded([model_exe], lines, timeout=timeout)
    return out, lines


def compare(impl, model_line):
    """None if model and implementation agree on everything the model computes, else a short description"""
    if impl.status == 'DIED':
        return 'implementation died'
    if model_line is None or model_line.startswith('DIED'):
        return 'model died (%s)' % model_line
    m = sx.dec(model_line)
    ms = m[0].decode()
    if ms == 'UNSUPPORTED':
        return None
    if ms != impl.status:
        return 'status: implementation %s, model %s %s' % (impl.status, ms, sx.pretty(m[1:])[:1])
    if ms == 'OK':
        if m[1] != impl.node:
            return 'model tree differs: ' + first_diff(impl.node, m[1])
        if m[2] != impl.diags:
            return 'diagnostics differ: impl %s model %s' % (sx.pretty(impl.diags)[:3], sx.pretty(m[2])[:3])
        if m[3] != impl.text1:
            a = impl.text1.decode('utf-8', 'replace').split('\n')
            b = m[3].decode('utf-8', 'replace').split('\n')
            for i, (x, y) in enumerate(zip(a, b)):
                if x != y:
                    return 'written text differs at line %d: impl %r model %r' % (i + 1, x[:80], y[:80])
            return 'written text differs in length'
        return None
    if ms == 'ERR':
        a = sx.pretty(impl.err)
        b = sx.pretty(m[1])
        if a[0] == 'Tokenizer':
            a = a[:3]
        elif a[0] == 'Other':
            a = a[:2]
        if list(a) != list(b):
            return 'error differs: impl %s model %s' % (a, b)
    return None


def diag_line_difference(impl, model_line):
    """(variant, line the implementation reports, line of the model) when implementation and model agree on outcome and on the
    diagnostics except for the LINE of one of them; None otherwise.  The model's line is the line of the last token consumed
    when the problem is detected (theorem C06_diagnostic_position), so such a difference is a wrong position in the library."""
    if impl.status == 'DIED' or model_line is None or model_line.startswith('DIED'):
        return None
    m = sx.dec(model_line)
    if m[0].decode() != impl.status:
        return None
    if impl.status == 'OK':
        a, b = [diag_key(d) for d in impl.diags], [diag_key(d) for d in m[2]]
    elif impl.status == 'ERR':
        pa, pb = sx.pretty(impl.err), sx.pretty(m[1])
        if pa[0] != 'Parser' or len(pa) < 3 or len(pb) < 3:
            return None
        a, b = [diag_key(impl.err)], [diag_key(m[1])]
    else:
        return None
    if len(a) != len(b):
        return None
    found = None
    for x, y in zip(a, b):
        if x == y:
            continue
        if (x[0], x[1], x[3]) == (y[0], y[1], y[3]) and x[2] != y[2]:
            found = found or (x[1], x[2], y[2])
        else:
            return None
    return found


def first_diff(a, b, path=''):
    if type(a) != type(b):
        return '%s: %r vs %r' % (path, sx.pretty(a), sx.pretty(b))
    if isinstance(a, list):
        if len(a) != len(b):
            return '%s: length %d vs %d' % (path, len(a), len(b))
        for i, (x, y) in enumerate(zip(a, b)):
            if x != y:
                return first_diff(x, y, path + '/%d' % i)
        return path + ': ?'
    return '%s: %r vs %r' % (path, sx.pretty(a) if not isinstance(a, int) else a, sx.pretty(b) if not isinstance(b, int) else b)


# ---- a small independent scanner for significant tokens (used by the C02 / C05 oracles) ----
def scan_tokens(text):
    """[(kind, text, line)] with kinds begin,end,ident,string,number,a2ml; comments skipped; None if not scannable"""
    out = []
    i, n, line = 0, len(text), 1
    ws = ' \t\n\r\x0c'
    while i < n:
        c = text[i]
        if c in ws:
            if c == '\n':
                line += 1
            i += 1
            continue
        if text.startswith('/*', i):
            j = text.find('*/', i + 2)
            if j < 0:
                return None
            line += text.count('\n', i, j + 2)
            i = j + 2
            continue
        if text.startswith('//', i):
            j = text.find('\n', i)
            i = n if j < 0 else j
            continue
        if text.startswith('/begin', i):
            out.append(('begin', '/begin', line)); i += 6; continue
        if text.startswith('/end', i):
            out.append(('end', '/end', line)); i += 4; continue
        if c == '"':
            j = i + 1
            while j < n:
                if text[j] == '\\':
                    j += 2
                    continue
                if text[j] == '"':
                    if j + 1 < n and text[j + 1] == '"':
                        j += 2
                        continue
                    break
                j += 1
            if j >= n:
                return None
            tok = text[i:j + 1]
            line += tok.count('\n')          # the library reports the line on which a string ends
            out.append(('string', tok, line))
            i = j + 1
            continue
        j = i
        while j < n and text[j] not in ws and text[j] != '"' and not text.startswith('/*', j) and not text.startswith('//', j):
            j += 1
        if j == i:
            return None
        tok = text[i:j]
        kind = 'number' if (tok[0].isdigit() or tok[0] in '-+.') and all(ch in '0123456789abcdefABCDEFxX.+-' for ch in tok) else 'ident'
        out.append((kind, tok, line))
        i = j
        if kind == 'ident' and tok == 'A2ML' and len(out) >= 2 and out[-2][0] == 'begin':
            j = text.find('/end', i)
            if j < 0:
                return None
            raw = text[i:j]
            out.append(('a2ml', raw.strip(), line))
            line += raw.count('\n')
            i = j
    return out


# ---- replica of the generated PartialEq on generic dumps (layout, comments and notation are ignored) ----
def is_node(x):
    return isinstance(x, list) and len(x) == 5 and isinstance(x[0], (bytes, bytearray)) and isinstance(x[1], list) and len(x[1]) == 5


def _feq(a, b):
    """f64 == on bit patterns"""
    ma, mb = a & ((1 << 63) - 1), b & ((1 << 63) - 1)
    if ma > 0x7FF0000000000000 or mb > 0x7FF0000000000000:
        return False
    if ma == 0 and mb == 0:
        return True
    return a == b


def gifd_eq(a, b):
    if a[0] != b[0]:
        return False
    v = a[0]
    if v == b'None':
        return True
    if v in (b'Char', b'Int', b'Long', b'Int64', b'UChar', b'UInt', b'ULong', b'UInt64'):
        return a[2] == b[2] and a[3] == b[3]          # (value, is_hex) tuple is compared
    if v in (b'Float', b'Double'):
        return _feq(a[2], b[2])
    if v in (b'String', b'EnumItem'):
        return a[2] == b[2]
    if v in (b'Array', b'Sequence'):
        return len(a) == len(b) and all(gifd_eq(x, y) for x, y in zip(a[1:], b[1:]))
    if v in (b'Struct', b'Block'):
        return len(a) == len(b) and all(gifd_eq(x, y) for x, y in zip(a[3:], b[3:]))
    if v in (b'TaggedStruct', b'TaggedUnion'):
        if len(a) != len(b):
            return False
        for ea, eb in zip(a[1:], b[1:]):
            if ea[0] != eb[0] or len(ea) != len(eb):
                return False
            for ta, tb in zip(ea[1:], eb[1:]):
                if ta[5] != tb[5] or ta[7] != tb[7] or not gifd_eq(ta[6], tb[6]):
                    return False
        return True
    return a == b


def veq(a, b, path=''):
    """None if equal under PartialEq, else the path of the first difference"""
    if is_node(a) and is_node(b):
        if a[0] != b[0]:
            return path + ': type'
        p = path + '/' + a[0].decode()
        if a[0] == b'IfData':
            ia, ib = a[2][0], b[2][0]
            if len(ia) != len(ib) or (ia and not gifd_eq(ia[0], ib[0])):
                return p + ': ifdata_items'
            return None
        if a[0] == b'A2ml':
            return None if a[2][0][0] == b[2][0][0] else p + ': a2ml_text'
        if len(a[2]) != len(b[2]):
            return p + ': field count'
        for k, (x, y) in enumerate(zip(a[2], b[2])):
            d = veq(x, y, p + '.f%d' % k)
            if d:
                return d
        for k, (x, y) in enumerate(zip(a[3], b[3])):
            if len(x) != len(y):
                return p + ': number of children in group %d (%d vs %d)' % (k, len(x), len(y))
            for j, (u, v) in enumerate(zip(x, y)):
                d = veq(u, v, p + '[%d]' % j)
                if d:
                    return d
        return None
    if isinstance(a, list) and isinstance(b, list):
        if a and not isinstance(a[0], list):
            if len(a) == 3 and len(b) == 3:                      # int: value hex off
                return None if a[0] == b[0] else path + ': int value %d vs %d' % (a[0], b[0])
            if len(a) == 2 and isinstance(a[0], int):            # float bits off
                return None if _feq(a[0], b[0]) else path + ': float bits %x vs %x' % (a[0], b[0])
            return None if a[0] == b[0] else path + ': text %r vs %r' % (a[0][:40], b[0][:40])
        if len(a) != len(b):
            return path + ': list length %d vs %d' % (len(a), len(b))
        for k, (x, y) in enumerate(zip(a, b)):
            d = veq(x, y, path + '#%d' % k)
            if d:
                return d
        return None
    return None if a == b else path + ': ?'


# ---- does the writer reorder position-restricted children of some block? (known finding K2) ----
POS_TYPES = None


def pos_types():
    global POS_TYPES
    if POS_TYPES is None:
        import json
        from checks import docs
        sp = json.load(open(docs.SPEC_JSON))
        POS_TYPES = {}
        for name, ex in sp['extra'].items():
            pr = ex.get('pos_restrict')
            if pr in (None, 'None'):
                continue
            if pr.startswith('Some(self.'):
                fld = pr[len('Some(self.'):-1]
                idx = [i for i, it in enumerate(x for x in sp['types'][name]['items'] if 'name' in x) if it['name'] == fld]
                POS_TYPES[name.encode()] = ('field', idx[0])
            else:
                POS_TYPES[name.encode()] = ('const', int(pr[5:-1]))
    return POS_TYPES


def reordered_blocks(node, out=None):
    """type names of blocks whose position-restricted children are not written in their stored order"""
    out = [] if out is None else out
    if not is_node(node):
        return out
    pt = pos_types()
    items = []
    for grp in node[3]:
        for k in grp:
            if is_node(k):
                reordered_blocks(k, out)
                uid, line = k[1][0], k[1][1]
                pos = None
                if k[0] in pt:
                    kind, val = pt[k[0]]
                    pos = val if kind == 'const' else k[2][val][0]
                items.append((0 if uid != 0 else 1, uid, line, pos))
    for cm in node[4]:
        items.append((0 if cm[1] != 0 else 1, cm[1], cm[2], None))
    items.sort(key=lambda x: x[:3])
    restricted = [x[3] for x in items if x[3] is not None]
    if len(restricted) > 1 and restricted != sorted(restricted):
        out.append(node[0].decode())
    return out


# ---- shrinking of documents (delta debugging over lexical chunks, whitespace kept with the chunk) ----
def lex_chunks(text):
    """split text into chunks = (leading whitespace + one token or comment); rejoining gives the text back"""
    chunks = []
    i, n = 0, len(text)
    ws = ' \t\n\r\x0c'
    while i < n:
        j = i
        while j < n and text[j] in ws:
            j += 1
        if j >= n:
            chunks.append(text[i:])
            break
        if text.startswith('/*', j):
            k = text.find('*/', j + 2)
            k = n if k < 0 else k + 2
        elif text.startswith('//', j):
            k = text.find('\n', j)
            k = n if k < 0 else k
        elif text[j] == '"':
            k = j + 1
            while k < n:
                if text[k] == '\\':
                    k += 2
                    continue
                if text[k] == '"':
                    if k + 1 < n and text[k + 1] == '"':
                        k += 2
                        continue
                    break
                k += 1
            k = min(n, k + 1)
        else:
            k = j
            while k < n and text[k] not in ws and text[k] != '"' and not text.startswith('/*', k) and not text.startswith('//', k):
                k += 1
            k = max(k, j + 1)
        chunks.append(text[i:k])
        i = k
    return chunks


def ddmin(chunks, pred, max_tests=1500):
    tests = [0]
    n = 2
    while len(chunks) >= 2 and tests[0] < max_tests:
        size = max(1, len(chunks) // n)
        reduced = False
        for i in range(0, len(chunks), size):
            cand = chunks[:i] + chunks[i + size:]
            tests[0] += 1
            if cand and pred(''.join(cand)):
                chunks = cand
                n = max(n - 1, 2)
                reduced = True
                break
            if tests[0] >= max_tests:
                break
        if not reduced:
            if size == 1:
                break
            n = min(n * 2, len(chunks))
    return chunks


def shrink_text(text, pred, max_tests=1500):
    """smallest text found (by chunk deletion, then whitespace normalisation) for which pred still holds"""
    if not pred(text):
        return text
    chunks = ddmin(lex_chunks(text), pred, max_tests)
    small = ''.join(chunks)
    # try to normalise the whitespace of each chunk
    norm = [(' ' + c.strip()) if c.strip() else c for c in chunks]
    if pred(''.join(norm)):
        small = ''.join(norm).strip()
    return small


def block_spans(chunks):
    """(start, end) chunk index ranges of balanced /begin X ... /end X groups (end exclusive, includes the end tag)"""
    spans = []
    stack = []
    for i, c in enumerate(chunks):
        t = c.strip()
        if t == '/begin':
            stack.append(i)
        elif t == '/end' and stack:
            s = stack.pop()
            spans.append((s, min(len(chunks), i + 2)))
    return spans


def shrink_doc(text, pred, max_tests=2500):
    """structural first (drop whole blocks, largest first), then chunk-level ddmin"""
    if not pred(text):
        return text
    chunks = lex_chunks(text)
    tests = 0
    progress = True
    while progress and tests < max_tests:
        progress = False
        spans = sorted(block_spans(chunks), key=lambda s: s[0] - s[1])
        for (s, e) in spans:
            if e - s >= len(chunks) - 2:
                continue
            cand = chunks[:s] + chunks[e:]
            tests += 1
            if pred(''.join(cand)):
                chunks = cand
                progress = True
                break
            if tests >= max_tests:
                break
    chunks = ddmin(chunks, pred, max_tests)
    small = ''.join(chunks)
    norm = [(' ' + c.strip()) if c.strip() else c for c in chunks]
    if pred(''.join(norm)):
        small = ''.join(norm).strip()
    return small


# ---- value-level comparison of significant tokens (C02) ----
def unescape_py(body):
    out = []
    i = 0
    n = len(body)
    while i < n:
        c = body[i]
        if c == '\\' and i + 1 < n and body[i + 1] in '"\'\\nrt':
            out.append({'"': '"', "'": "'", '\\': '\\', 'n': '\n', 'r': '\r', 't': '\t'}[body[i + 1]])
            i += 2
        elif c == '"' and i + 1 < n and body[i + 1] == '"':
            out.append('"')
            i += 2
        else:
            out.append(c)
            i += 1
    return ''.join(out)


def number_value(tok):
    """numeric meaning of a number lexeme: ('i', int) for integers / hex patterns, ('f', float) otherwise, None if not a number"""
    t = tok
    try:
        if t[:2] in ('0x', '0X') and len(t) > 2:
            return ('i', int(t[2:].lstrip('+'), 16))
        if all(ch in '+-0123456789' for ch in t):
            return ('i', int(t))
        return ('f', float(t))
    except ValueError:
        return None


def token_equiv(a, b):
    """a, b = (kind, text, line): equal up to number / escape notation"""
    if a[0] != b[0]:
        # an integral float may be written as an integer and vice versa
        if {a[0], b[0]} <= {'number'}:
            pass
        else:
            return False
    if a[0] in ('begin', 'end', 'ident'):
        return a[1] == b[1]
    if a[0] == 'string':
        return unescape_py(a[1][1:-1]) == unescape_py(b[1][1:-1])
    if a[0] == 'a2ml':
        return a[1].replace('\r\n', '\n').strip() == b[1].replace('\r\n', '\n').strip()
    if a[0] == 'number':
        va, vb = number_value(a[1]), number_value(b[1])
        if va is None or vb is None:
            return a[1] == b[1]
        if va[0] == 'i' and vb[0] == 'i':
            return va[1] == vb[1]
        return float(va[1]) == float(vb[1])
    return a[1] == b[1]


def first_token_difference(ta, tb):
    """index and description of the first non-equivalent token, or None"""
    for i, (a, b) in enumerate(zip(ta, tb)):
        if not token_equiv(a, b):
            return i, 'token %d: input %s %r (line %d) -> output %s %r' % (i, a[0], a[1][:40], a[2], b[0], b[1][:40])
    if len(ta) != len(tb):
        i = min(len(ta), len(tb))
        extra = (ta[i] if len(ta) > len(tb) else tb[i])
        return i, '%d tokens in, %d tokens out; first surplus %s token: %r' % (len(ta), len(tb), 'input' if len(ta) > len(tb) else 'output', extra[1][:40])
    return None
