"""C09 merge preserves the reference structure of the merged-in file.
   T  ref/sites.json -> Gen/Sites.v; every identifier field of the grammar recovered from /repo is classified
   P  Props/C09.v: a reference at a visited site designates the representative of its target (all namespaces, all inputs);
      at an unvisited site it is silently retargeted; closed obligation: every site of a renaming namespace is visited
   C  the table is what the code does: at every (site, parent) instance, B refers to X and A holds a different X ->
      the referrer afterwards names X.MERGE exactly where the table says so; the extracted model predicts the same
   W  the statement on grammar-generated consistent pairs (disjoint / identical / conflict / crosskind / premerged):
      every reference of every element that came from B names the representative of its target; no new dangling reference"""
import json
import os
import re

import collections

import framework as fw
import sx
from checks import docs, reflib as R, refprobe as P

PROP = 'C09'
TARGETS = ['theories/Proofs/MergeRefProofs.v', 'theories/Run/RunC09.v']
RENAMING_NS = R.RENAMING_NS


def stage_t(v):
    docs.translate_shipped()
    import sites_to_coq
    sites_to_coq.main()
    S = P.sites()
    bad = R.check_classified(R.spec_json(), S)
    return {'ok': not bad, 'what': 'identifier fields of the grammar without a classification in ref/sites.json', 'detail': bad[:10],
            'sites': len(S['sites']), 'instances': len(P.instances())}


# ---------------------------------------------------------------------------------------------- rich oracle
def top_defs(dump, S):
    """named definitions of module 0 in model order: [(path in module, type, name, container path)]
    (names may contain brackets, so they are taken from the nodes, never parsed out of a path)"""
    ix = R._index(S)
    out = []

    def on_node(n, tname, path, mi):
        if mi != 0 or tname not in ix.def_field or tname == 'Module':
            return
        pm = R.path_in_module(path)
        name = R._txt(n[2][0][0])
        suffix = '[' + name + ']'
        if pm and pm.endswith(suffix):
            head = pm[:-len(suffix)]
            out.append((pm, tname, name, head[:head.rfind('/')]))
    R._dump_walk(dump, R.spec_json()['types'], ix, '', None, None, on_node, lambda *a: None)
    return out


def fresh_form(name, base):
    return name == base + '.MERGE' or (name.startswith(base + '.MERGE') and name[len(base) + 6:].isdigit())


def align(S, dA, dB, dR):
    """representative of every named definition of B: {(container path, type, name): name in the result | None=shared}"""
    ix = R._index(S)

    def grouped(d):
        g = {}
        for pm, t, n, cont in top_defs(d, S):
            g.setdefault((cont, t), []).append(n)
        return g
    gA, gB, gR = grouped(dA), grouped(dB), grouped(dR)
    rep, problems = {}, []
    for key, namesB in gB.items():
        cont, t = key
        ns = ix.def_field[t][0]
        namesA = gA.get(key, [])
        namesR = gR.get(key, [])
        if ns not in RENAMING_NS:
            for n in namesB:
                rep[(cont, t, n)] = n if n in namesR else None
            continue
        if namesR[:len(namesA)] != namesA:
            problems.append('%s %s: elements of A not kept in place' % (cont, t))
            continue
        app = namesR[len(namesA):]
        p = 0
        all_b = set(x for (c2, t2), l in gB.items() if ix.def_field[t2][0] == ns for x in l)
        for n in namesB:
            # a generated name is never a name of B, so an appended element whose name B uses is that element of B
            if p < len(app) and (app[p] == n or (fresh_form(app[p], n) and app[p] not in all_b)):
                rep[(cont, t, n)] = app[p]
                p += 1
            else:
                rep[(cont, t, n)] = None
        if p != len(app):
            problems.append('%s %s: appended elements %s do not match B %s' % (cont, t, app, namesB))
    return rep, problems


def reference_oracle(S, dA, dB, dR):
    """[(class, description)] of references of B that do not designate the representative of their target"""
    ix = R._index(S)
    rep, problems = align(S, dA, dB, dR)
    out = [('alignment', p) for p in problems]
    # rename map per namespace (module scope): name in B -> name of the representative; shared twins keep their name
    rho, shared = {}, set()
    for (cont, t, n), r in rep.items():
        ns = ix.def_field[t][0]
        rho.setdefault(ns, {}).setdefault(n, r if r is not None else n)
        if r is None and ns in RENAMING_NS:
            shared.add((cont, t, n))
    defsA = R.definitions_in_dump(dA, S).get(0, {})
    refsR = {}
    for site, path, target, mi, index, holder, ptype in R.references_in_dump(dR, S, detail=True):
        if mi == 0:
            refsR.setdefault((site, R.path_in_module(path)), []).append(target)
    paths_a = set(R.path_in_module(x[0]) for x in R.nodes_in_dump(dA, S) if x[2] == 0)
    defs_b = {pm: (t, n, cont) for pm, t, n, cont in top_defs(dB, S)}
    by_len = sorted(defs_b, key=len, reverse=True)
    united_lists = {'Function': ('SUB_FUNCTION', 'IN_MEASUREMENT', 'LOC_MEASUREMENT', 'OUT_MEASUREMENT'),
                    'Group': ('SUB_GROUP', 'FUNCTION_LIST', 'REF_CHARACTERISTIC', 'REF_MEASUREMENT')}
    namesA = {}
    for pm, t, n, cont in top_defs(dA, S):
        namesA.setdefault(t, set()).add(n)
    twin_targets = {}
    exp_count = {}
    # names that designate more than one element of a namespace in the result (the kinds of a namespace are looked up as one)
    per_ns = {}
    for pm, t, n, cont in top_defs(dR, S):
        dns = ix.def_field[t][0]
        if dns in RENAMING_NS and cont == '':
            per_ns.setdefault(dns, collections.Counter())[n] += 1
    ambiguous = {dns: set(n for n, k in c.items() if k > 1) for dns, c in per_ns.items()}
    ambiguous_reported = set()
    stats = {'refs': 0, 'checked': 0, 'holder_absent': 0, 'renamed_targets': 0, 'shared_owner': 0, 'united_owner_other_lists': 0}
    for site, path, target, mi, index, holder, ptype in R.references_in_dump(dB, S, detail=True):
        if mi != 0:
            continue
        stats['refs'] += 1
        pm = R.path_in_module(path)
        e = ix.by_key[tuple(site.split('.'))]
        ns = e['ns']
        # where is the holder in the result?  replace the names of renamed definitions along the path
        pm_r, owner_shared, skip, owner_ns, united_owner = pm, False, False, None, False
        for dp in by_len:                               # innermost named definition first
            if pm == dp or pm.startswith(dp + '/'):
                t, nm, cont = defs_b[dp]
                r = rep.get((cont, t, nm))
                dns = ix.def_field[t][0]
                if r is None and dns in RENAMING_NS:
                    owner_shared = True
                    owner_ns = dns
                if r is not None and r != nm:
                    pm_r = dp[:-len(nm) - 1] + r + ']' + pm_r[len(dp):]
                if t in united_lists and nm in namesA.get(t, ()):
                    united_owner = True                 # the lists of same-named FUNCTIONs / GROUPs are united as sets
                    rest = pm[len(dp):].lstrip('/').split('/')[0]
                    if rest not in united_lists[t]:
                        skip = True                     # lists that the name-keyed union does not merge
        if skip:
            stats['united_owner_other_lists'] += 1
            continue
        first = '/' + pm.lstrip('/').split('/')[0]
        if first.split('[')[0] in ('/VARIANT_CODING', '/MOD_COMMON', '/USER_RIGHTS', '/MOD_PAR') and first in paths_a:
            stats['singleton_of_A_wins'] = stats.get('singleton_of_A_wins', 0) + 1
            continue                                    # B's block is not taken when A has one
        expected = rho.get(ns, {}).get(target, target)
        if site in P.SELF_NAMED:
            continue
        got = refsR.get((site, pm_r))
        if got is None:
            stats['holder_absent'] += 1
            continue
        stats['checked'] += 1
        if expected != target:
            stats['renamed_targets'] += 1
        if owner_shared:
            stats['shared_owner'] += 1
        if expected in ambiguous.get(ns, ()) and (ns, expected) not in ambiguous_reported:
            ambiguous_reported.add((ns, expected))
            out.append(('ambiguous-target:' + ns, '%s at %s: B named %r; in the result the name %r designates %d elements of the name space %s, '
                        'so the reference no longer designates one element' % (site, pm, target, expected, per_ns[ns][expected], ns)))
        if expected not in got:
            cls = ('shared-twin-with-renamed-target:%s->%s' % (owner_ns, ns)) if owner_shared else 'site:' + site
            out.append((cls, '%s at %s: B named %r, the representative of that element is %r, the result names %s'
                        % (site, pm, target, expected, got[:4])))
            if owner_shared:
                twin_targets[expected] = cls
        elif not owner_shared and not united_owner:
            # an identifier list may name the element several times: every occurrence has to follow
            exp_count.setdefault((site, pm_r, pm), collections.Counter())[expected] += 1
    for (site, pm_r, pm), cnt in exp_count.items():
        got = collections.Counter(refsR.get((site, pm_r)) or [])
        for name, k in cnt.items():
            if got[name] < k:
                out.append(('site:' + site, '%s at %s: B names %r %d times (after renaming), the result only %d times: %s'
                            % (site, pm, name, k, got[name], sorted(got.elements())[:6])))
    stats['_twin_targets'] = twin_targets
    return out, stats


def check(tier, seed):
    v = fw.Verdict(PROP, tier, seed)
    rng = fw.rng_for(seed, PROP)
    known = fw.load_known_findings().get(PROP, {})
    S = P.sites()
    t_info = stage_t(v)
    ok_p, p_info = fw.proof_stage(v, PROP, TARGETS, closed_obligations=0)
    impl = fw.build_harness(release=False)

    # ---- stage C: the table against the implementation, and the model's prediction
    per = 2 if tier == 'quick' else 10
    table = P.probe_merge(rng.randrange(1 << 30), per=per)
    inst = P.instances()
    model_exe, model_err = None, None
    try:
        ok_m, log_m = fw.coq_make(TARGETS)
        if not ok_m:
            raise fw.CheckFailure('model does not compile:\n' + log_m[-2000:])
        model_exe = fw.build_model(PROP)
    except fw.CheckFailure as e:
        model_err = str(e)
    mismatches, violations_c, n_probe = [], [], 0
    model_lines, model_meta = [], []
    for i, (sid, h, f, p) in enumerate(inst):
        k = P.inst_key(sid, p)
        e = R.site_flags(S, h, f, p)
        row = table.get(k, {})
        for (ta, tb, target, outcome) in row.get('cases', []):
            n_probe += 1
            want = {True: ('renamed',), False: ('retargeted',), None: ('same-name', 'referrer-missing')}[e['merge'] if e['merge'] in (True, False) else None]
            if outcome not in want:
                rec = {'instance': k, 'table_says': e['merge'], 'observed': outcome, 'textA': ta, 'textB': tb, 'target': target}
                mismatches.append(rec)
                if outcome == 'retargeted' or outcome.startswith('other'):
                    violations_c.append(rec)
            if e['merge'] in (True, False):
                model_lines.append(sx.enc([[[0, target, 1]], [[0, target, 2]], [[i, target]]]))
                model_meta.append((k, target, outcome))
    model_bad = []
    if model_exe:
        out = fw.run_sharded([model_exe], model_lines)
        for (k, target, outcome), line in zip(model_meta, out):
            m = sx.pretty(sx.dec(line)) if line and not line.startswith('DIED') else None
            pred = m[2][0][1] if m and m[0] == 'OK' else None
            obs = target + '.MERGE' if outcome == 'renamed' else target if outcome in ('retargeted', 'same-name') else None
            if obs is not None and pred != obs:
                model_bad.append({'instance': k, 'model_predicts': pred, 'implementation': obs})

    # ---- stage W: the statement on generated pairs
    n_pairs = 60 if tier == 'quick' else 2500
    pairs = []
    R.DUP_IN_LISTS = 0.3          # identifier lists of B may name an object twice
    for j in range(n_pairs):
        ov = R.OVERLAPS[j % len(R.OVERLAPS)]
        ta, tb, info = R.gen_merge_pair(rng, S, ov, size=rng.choice(['small', 'small', 'medium']))
        pairs.append((ov, ta, tb))
    R.DUP_IN_LISTS = 0.0
    twins = P.twin_pairs(rng.randrange(1 << 30), per=1 if tier == 'quick' else 8)
    for k, ta, tb in twins:
        pairs.append(('twin:' + k, ta, tb))
    # names that already carry a .MERGE suffix (files that were merged before): both x and x.MERGE of B collide with different
    # objects of A - the two new names must differ and every reference must follow its own object
    def _hand(dt_a, dt_b, names):
        head = 'ASAP2_VERSION 1 71\n/begin PROJECT p ""\n/begin MODULE m ""\n'
        meas = lambda n, dt: '/begin MEASUREMENT %s "" %s NO_COMPU_METHOD 0 0 0 100 /end MEASUREMENT\n' % (n, dt)
        ta = head + ''.join(meas(n, dt_a) for n in names) + '/end MODULE\n/end PROJECT\n'
        tb = (head + ''.join(meas(n, dt_b) for n in names) +
              '/begin FUNCTION f "" /begin IN_MEASUREMENT %s /end IN_MEASUREMENT /begin OUT_MEASUREMENT %s /end OUT_MEASUREMENT /end FUNCTION\n' % (names[0], names[-1]) +
              '/begin GROUP g "" /begin REF_MEASUREMENT %s /end REF_MEASUREMENT /end GROUP\n' % ' '.join(names) +
              '/end MODULE\n/end PROJECT\n')
        return ta, tb
    for names in (['speed', 'speed.MERGE'], ['speed', 'speed.MERGE', 'speed.MERGE2'], ['v.MERGE', 'v.MERGE.MERGE'], ['w.MERGE2', 'w']):
        ta, tb = _hand('FLOAT32_IEEE', 'SWORD', names)
        pairs.append(('hand:merge-suffix', ta, tb))
    loads = R.run_cases('LOAD', [R.load_case(t) for ov, ta, tb in pairs for t in (ta, tb)], binary=impl)
    merges = R.run_cases('MERGE', [R.merge_case(ta, tb) for ov, ta, tb in pairs], binary=impl)
    failures, stats_all, new_dangling = [], {}, 0
    for j, (ov, ta, tb) in enumerate(pairs):
        la, lb, m = loads[2 * j], loads[2 * j + 1], merges[j]
        if not la or not lb or not m or la[0] != b'OK' or lb[0] != b'OK':
            continue
        if m[0] != b'OK':
            failures.append((j, 'merge', 'merge_modules %s' % sx.pretty(m[:2])))
            continue
        bad, st = reference_oracle(S, la[1], lb[1], m[1])
        twin_targets = st.pop('_twin_targets', {})
        for kk, n in st.items():
            stats_all[kk] = stats_all.get(kk, 0) + n
        xa = R.run_cases('CHECK', [R.check_case(ta), R.check_case(tb)], binary=impl)
        before = set(R.xref_errors(xa[0][1])) | set(R.xref_errors(xa[1][1])) if xa[0] and xa[1] and xa[0][0] == b'OK' and xa[1][0] == b'OK' else set()
        after = set(R.xref_errors(m[2]))
        if not before and after:
            new_dangling += 1
            # a THIS. reference inside an element that merge renamed to X.MERGE is left without its containing structure
            # when the structures of B that used X were shared with identical twins of A: a consequence of that class
            rest = []
            for e in sorted(after):
                cls = twin_targets.get(e[1]) if (len(e) >= 4 and str(e[3]).startswith('THIS.')) else None
                if cls is not None:
                    bad.append((cls, 'check() after the merge: %r lost its containing structure (its users in B were shared with A\'s twins): %s' % (e[1], (e,))))
                else:
                    rest.append(e)
            if rest:
                bad.append(('dangling', 'check() after the merge of two consistent files: %s' % rest[:3]))
        for cls, why in bad:
            failures.append((j, cls, why))

    v.coverage.update({
        'evaluations': n_probe + len(pairs),
        'distinct_nontrivial': len([k for k in table if table[k].get('cases')]) + stats_all.get('renamed_targets', 0),
        'rule': ('stage C: for each of the 60 (site, parent) instances, %d consistent documents B focused on the site and a destination '
                 'A holding a same-name/different-content twin of the target (non-trivial = the instance was populated); stage W: %d '
                 'pairs of consistent single-module documents cycling through disjoint/identical/conflict/crosskind/premerged; '
                 'non-trivial = references whose target had to be renamed' % (per, n_pairs)),
        'probe_instances_populated': len([k for k in table if table[k].get('cases')]),
        'probe_cases': n_probe,
        'table_mismatches': len(mismatches),
        'model_prediction_mismatches': len(model_bad),
        'traces_validated_against_impl': len(model_lines) - len(model_bad) if model_exe else 0,
        'pairs': len(pairs), 'twin_referrer_pairs': len(twins), 'pair_reference_stats': stats_all, 'pairs_with_new_dangling_reference': new_dangling,
        'oracle_failures': len(failures),
        'translator': t_info,
        'samples': [pairs[0][1][:400], pairs[0][2][:400]] if pairs else [],
        'trusted_base': ['Coq kernel; extraction (ExtrOcamlBasic, ExtrOcamlString) and OCaml for the model run',
                         'ref/sites.json: which fields are references and to which namespace (checked for completeness against the grammar '
                         'recovered from /repo; its merge flags are compared with the implementation at every site instance on every run)',
                         'checks/reflib.py (document generator, dump walkers), harness MERGE/LOAD handlers and the typed dumper'],
    })
    v.assumptions = ['names are unique per namespace in both inputs', 'B is internally consistent (generated so)',
                     'VAR_CHARACTERISTIC (self-named) is judged by the site probe only',
                     'GROUP/FUNCTION (united by name), VARIANT_CODING / MOD_COMMON / MOD_PAR / USER_RIGHTS (taken only when A has none) are '
                     'compared where their holder exists in the result']

    reported = 0
    seen = set()
    for rec in violations_c:
        key = 'site:' + rec['instance'].split('@')[0]
        if key in known:
            v.known(key, known[key])
            continue
        if rec['instance'] in seen or reported >= 3:
            continue
        seen.add(rec['instance'])
        v.violation('input', dict(rec, kind='MERGE', stage='C (site probe): the referrer from B designates A\'s element, not the representative',
                                  why='reference at %s silently retargeted' % rec['instance']))
        reported += 1
    for j, cls, why in failures:
        key = cls
        if key in known:
            v.known(key, known[key])
            continue
        if cls in seen or reported >= 3:
            continue
        seen.add(cls)
        ov, ta, tb = pairs[j]
        v.violation('input', {'kind': 'MERGE', 'overlap': ov, 'textA': ta, 'textB': tb, 'why': why, 'class': cls,
                              'stage': 'W (reference oracle on the implementation)'})
        reported += 1
    if reported == 0:
        if not t_info['ok']:
            v.violation('translate', {'stage': 'T', 'broken': t_info['what'], 'detail': t_info['detail']}, no_input=True)
        if not ok_p:
            v.violation('proof', {'stage': 'P', 'broken_obligation': p_info.get('failing'), 'problems': p_info.get('problems'),
                                  'forbidden_constructs': p_info.get('forbidden'), 'log_tail': p_info.get('log', '')}, no_input=True)
        if model_err:
            v.violation('model', {'stage': 'C', 'broken': 'model build', 'detail': model_err}, no_input=True)
        elif mismatches or model_bad:
            v.violation('correspondence', {'stage': 'C', 'broken': 'site table / model against the implementation',
                                           'table_mismatches': [{k: x[k] for k in ('instance', 'table_says', 'observed')} for x in mismatches[:10]],
                                           'model_mismatches': model_bad[:10],
                                           'textA': mismatches[0]['textA'] if mismatches else None,
                                           'textB': mismatches[0]['textB'] if mismatches else None}, no_input=True)
    return v.finish('proof')


def replay(r):
    S = P.sites()
    impl = fw.build_harness(release=False)
    if not r.get('textA'):
        print('replay: no concrete input recorded; broken:', r.get('broken_obligation') or r.get('broken'))
        print(json.dumps({k: r[k] for k in r if k.endswith('mismatches')}, indent=1)[:3000])
        return 1
    ta, tb = r['textA'], r['textB']
    la, lb = R.run_cases('LOAD', [R.load_case(ta), R.load_case(tb)], binary=impl)
    m = R.run_cases('MERGE', [R.merge_case(ta, tb)], binary=impl)[0]
    print('--- A\n%s\n--- B\n%s' % (ta[:3000], tb[:3000]))
    if not m or m[0] != b'OK':
        print('merge:', m and sx.pretty(m[:2]))
        return 1
    bad, st = reference_oracle(S, la[1], lb[1], m[1])
    print('references of B:', st)
    for cls, why in bad:
        print('VIOLATED [%s] %s' % (cls, why))
    if r.get('target'):
        defs = R.definitions_in_dump(m[1], S).get(0, {})
        print('definitions after the merge:', {k: sorted(x) for k, x in defs.items()})
        print('references after the merge naming %r or its new name:' % r['target'],
              [(d[0], R.path_in_module(d[1]), d[2]) for d in R.references_in_dump(m[1], S) if d[2].startswith(r['target'])])
        if r.get('observed') == 'retargeted':
            return 1
    return 1 if bad else 0
