"""C01 save/reload stability: proof (Props/C01.v) + correspondence of the generic parser and writer models with
load_from_string / write_to_string on grammar-derived documents + oracle: load(write(M)) == M and
write(load(write(M))) == write(M) over two further cycles on the real library."""
import framework as fw
import sx
from checks import docs, loadlib, loadcheck

PROP = 'C01'
TARGETS = ['theories/Proofs/EscapeProofs.v', 'theories/Proofs/IntTextProofs.v', 'theories/Proofs/GrammarObligations.v',
           'theories/Proofs/TokenizerProofs.v', 'theories/Proofs/RoundTripProofs.v', 'theories/Run/RunLoad.v', 'theories/Run/RunRT.v']
RULE = ('documents derived from the regenerated grammar (all element kinds reachable, six versions), layouts canonical / random / one line, '
        'LF and CRLF, decimal / hex / exponent numbers at and around the limits, strings with all escapes and Unicode, both comment kinds '
        'at block level and everywhere, IF_DATA absent / empty / uninterpreted / described by an A2ML block; each loaded, written and reloaded '
        'twice; non-trivial = document with at least 40 tokens; distinct = distinct text')
ASSUMPTIONS = ['A2ML-described IF_DATA is compared on the implementation only (the model of the A2ML interpreter belongs to C18)']
TRUSTED_BASE = []


def gen_cases(rng, tier):
    cases = []
    n = 250 if tier == 'quick' else 8000
    # corpus: minimised earlier findings (regressions of the fix: commits)
    for text in CORPUS:
        cases.append({'text': text, 'strict': False, 'cycles': 2, 'kind': 'corpus'})
    for i in range(n):
        a2ml = 'simple' if rng.random() < 0.15 else None
        node, text, toks = docs.random_doc(rng, size=rng.choice(['tiny', 'small', 'small', 'medium', 'large'] if tier != 'quick' else ['tiny', 'small', 'small', 'medium']),
                                           ifdata=rng.choice([None, 'unknown', 'empty']), a2ml=a2ml)
        cases.append({'text': text, 'strict': rng.random() < 0.3, 'cycles': 2, 'kind': 'doc', 'ntok': len(toks)})
    return cases


HDR = 'ASAP2_VERSION 1 71 /begin PROJECT p "" /begin MODULE m ""\n'
FTR = '\n/end MODULE /end PROJECT\n'
CORPUS = [
    HDR + '/begin MEASUREMENT a "" UBYTE NO_COMPU_METHOD 0 0 0 255\n/* one\n   two\n   three */\n/end MEASUREMENT' + FTR,
    HDR + '/begin MEASUREMENT a "" UBYTE NO_COMPU_METHOD 0 0 0 255 /end MEASUREMENT\n/* multi\nline */\n/begin MEASUREMENT b "" UBYTE NO_COMPU_METHOD 0 0 0 255 /end MEASUREMENT' + FTR,
    (HDR + '/begin A2ML\r\n  block "IF_DATA" long;\r\n/end A2ML\r\n' + FTR).replace('\n', '\r\n').replace('\r\r', '\r'),
    HDR + '/begin IF_DATA /* only a comment */ /end IF_DATA' + FTR,
    HDR + '/begin IF_DATA X /begin A 1 /end A /* c */ /begin B 2 /end B /* d */ K 3 /end IF_DATA' + FTR,
    HDR + '/begin MEASUREMENT a "" UBYTE NO_COMPU_METHOD 0 0 -1e-300 1.5e+300 ECU_ADDRESS 0xFFFFFFFF /end MEASUREMENT' + FTR,
]


def oracle(c, r, cases, res):
    if r.status == 'DIED':
        return 'implementation process died while loading'
    if r.status == 'PANIC':
        return 'panic (%s)' % (r.stage or 'load')
    if r.status != 'OK':
        return None                      # not an accepted input
    prev_text = r.text1
    for k, cy in enumerate(r.cycles):
        st = cy[0].decode()
        if st != 'OK':
            return 'cycle %d: the written file does not load (%s)' % (k + 1, st)
        if cy[1] != 1:
            return 'cycle %d: the reloaded model differs from the model that was written' % (k + 1)
        if cy[2] != prev_text:
            a = prev_text.decode('utf-8', 'replace').split('\n')
            b = cy[2].decode('utf-8', 'replace').split('\n')
            return 'cycle %d: the written text changes (%d -> %d lines)' % (k + 1, len(a), len(b))
        prev_text = cy[2]
    if len(r.cycles) < c.get('cycles', 0):
        return 'missing cycles'
    return None


def classify_known(c, why, r):
    if r.status == 'OK' and loadlib.reordered_blocks(r.node):
        return 'position-restricted-reorder'
    return None


def nontrivial_key(c, r):
    if r.status != 'OK' or len(c['text']) < 300:
        return None
    return hash(c['text'])


def distribution(cases, res):
    return {'with_a2ml': sum(1 for c in cases if '/begin A2ML' in c['text']),
            'with_if_data': sum(1 for c in cases if 'IF_DATA' in c['text']),
            'crlf': sum(1 for c in cases if '\r\n' in c['text']),
            'with_comments': sum(1 for c in cases if '/*' in c['text'] or '//' in c['text'])}


ROUNDTRIP_STAGE = True


def extra_stage(v, tier, rng, impl):
    """models built and edited through the public API (the second half of the quantifier): modules with loaded-like and
    many NEW elements (uid 0) of the same kinds, pushes in arbitrary order, then write -> load -> compare -> write"""
    from checks import modlib as ml
    n = 120 if tier == 'quick' else 2000
    cases = []
    for i in range(n):
        st = ml.gen_module(rng, rng.choice([0, 2, 8, 30]), with_new=0, kinds=rng.choice([None, [2, 11], [11]]))
        st[0] = []
        ops = []
        kinds = rng.choice([[11], [2, 11], list(range(20))])
        for j in range(rng.choice([1, 5, 40, 70])):
            k = rng.choice(kinds)
            ops.append(['push', k, ml.el(ml.TAGS[k], 'new_%03d_%s' % (j, rng.choice('abxyz')), 0, 0, 2, 1)])      # T::new(): uid 0, line 0
        if rng.random() < 0.3:
            ops.insert(rng.randrange(len(ops) + 1), ['sni'])
        ops.append(['rt'])
        cases.append([1, st, ops])
    out = fw.run_sharded([impl, 'C15'], [sx.enc(c) for c in cases])
    fails = []
    rt_ok = 0
    for c, line in zip(cases, out):
        o = ml.decode_out(line)
        why = None
        if o is None:
            why = 'process died'
        elif o[-1] == ['PANIC']:
            why = None if any(x[0] == 'sni' for x in c[2]) else 'panic while writing / reloading an API-built model'
        else:
            flags = o[-1][2] if len(o[-1]) >= 3 else None
            if not flags:
                why = 'no round-trip observation'
            elif not flags[0]:
                why = 'the text written from an API-built model does not load'
            elif not flags[1]:
                why = 'load(write(M)) != M for a model edited through the API (%d pushes)' % sum(1 for x in c[2] if x[0] == 'push')
            elif not flags[2]:
                why = 'write(load(write(M))) != write(M) for a model edited through the API'
            else:
                rt_ok += 1
        if why:
            fails.append({'payload': {'kind': 'C15', 'case': sx.enc(c), 'case_readable': c, 'why': why,
                                      'stage': 'W (API-built models: push histories, write, reload)'}})
    v.coverage['api_built_models'] = len(cases)
    v.coverage['api_built_round_trips_ok'] = rt_ok
    return fails[:3]


def check(tier, seed):
    import checks.c01 as me
    return loadcheck.run(me, tier, seed)


def replay(r):
    if r.get('kind') == 'C15':
        from checks import modlib as ml
        impl = fw.build_harness()
        line = fw.run_single([impl, 'C15'], r['case'])
        o = ml.decode_out(line)
        print('history:', str(r.get('case_readable'))[:1500])
        print('last observation (loads, model equal, text equal):', o[-1][2] if o and len(o[-1]) >= 3 else o and o[-1])
        ok = o and len(o[-1]) >= 3 and all(o[-1][2])
        return 0 if ok else 1
    import checks.c01 as me
    return loadcheck.replay(r, me)
