"""C01 save/reload stability: proof (Props/C01.v) + correspondence of the generic parser and writer models with
load_from_string / write_to_string on grammar-derived documents + oracle: load(write(M)) == M and
write(load(write(M))) == write(M) over two further cycles on the real library."""
import framework as fw
import sx
from checks import docs, loadlib, loadcheck

PROP = 'C01'
TARGETS = ['theories/Proofs/EscapeProofs.v', 'theories/Proofs/IntTextProofs.v', 'theories/Proofs/GrammarObligations.v',
           'theories/Proofs/TokenizerProofs.v', 'theories/Proofs/RoundTripProofs.v', 'theories/Run/RunLoad.v', 'theories/Run/RunRT.v']
RULE = ('documents derived from the regenerated grammar (all element kinds reachable, six versions), layouts canonical / random / one line, '
        'LF and CRLF, decimal / hex / exponent numbers at and around the limits, strings with all escapes and Unicode, both comment kinds '
        'at block level and everywhere, IF_DATA absent / empty / uninterpreted / described by an A2ML block; each loaded, written and reloaded '
        'twice; non-trivial = document with at least 40 tokens; distinct = distinct text')
ASSUMPTIONS = ['A2ML-described IF_DATA is compared on the implementation only (the model of the A2ML interpreter belongs to C18)']
TRUSTED_BASE = []


def gen_cases(rng, tier):
    cases = []
    n = 250 if tier == 'quick' else 8000
    # corpus: minimised earlier findings (regressions of the fix: commits)
    for text in CORPUS:
        cases.append({'text': text, 'strict': False, 'cycles': 2, 'kind': 'corpus'})
    # an element that is written on the line of the token in front of it (offset 0) directly behind a stored // comment:
    # through the reordering of position-restricted items, through an unknown element that non-strict loading skips; LF / CRLF
    for body in ('/begin RECORD_LAYOUT rl\n  // axis point count first, then the values\n  FNC_VALUES 2 UBYTE COLUMN_DIR DIRECT NO_AXIS_PTS_X 1 UBYTE\n/end RECORD_LAYOUT',
                 '/begin RECORD_LAYOUT rl\n  /* a */ // b\n  RESERVED 3 BYTE FNC_VALUES 2 UBYTE COLUMN_DIR DIRECT NO_AXIS_PTS_X 1 UBYTE\n/end RECORD_LAYOUT',
                 '/begin MEASUREMENT a "" UBYTE NO_COMPU_METHOD 0 0 0 255\n  // address\n  VENDOR_KW 1 ECU_ADDRESS 0x10\n/end MEASUREMENT',
                 '/begin MEASUREMENT a "" UBYTE NO_COMPU_METHOD 0 0 0 255\n  ECU_ADDRESS 0x10\n  // last\n  VENDOR_KW 1 /end MEASUREMENT',
                 '/begin MEASUREMENT a "" UBYTE NO_COMPU_METHOD 0 0 0 255\n  // block\n  /begin VENDOR_BLK 1 /end VENDOR_BLK /begin ANNOTATION /end ANNOTATION\n/end MEASUREMENT',
                 '/begin MEASUREMENT a "" UBYTE NO_COMPU_METHOD 0 0 0 255 /end MEASUREMENT\n// between\nVENDOR_KW 2 /begin MEASUREMENT b "" UBYTE NO_COMPU_METHOD 0 0 0 255 /end MEASUREMENT'):
        for nl in ('\n', '\r\n'):
            cases.append({'text': (HDR + body + FTR).replace('\n', nl), 'strict': False, 'cycles': 2, 'kind': 'offset0-behind-line-comment'})
    for i in range(n):
        a2ml = 'simple' if rng.random() < 0.15 else None
        node, text, toks = docs.random_doc(rng, size=rng.choice(['tiny', 'small', 'small', 'medium', 'large'] if tier != 'quick' else ['tiny', 'small', 'small', 'medium']),
                                           ifdata=rng.choice([None, 'unknown', 'empty']), a2ml=a2ml)
        cases.append({'text': text, 'strict': rng.random() < 0.3, 'cycles': 2, 'kind': 'doc', 'ntok': len(toks)})
    return cases


HDR = 'ASAP2_VERSION 1 71 /begin PROJECT p "" /begin MODULE m ""\n'
FTR = '\n/end MODULE /end PROJECT\n'
CORPUS = [
    HDR + '/begin IF_DATA X 5.0 /begin B 1e3 2.50 /end B /end IF_DATA' + FTR,
    HDR + '/begin MEASUREMENT a "" UBYTE NO_COMPU_METHOD 0 0 0 255\n/* one\n   two\n   three */\n/end MEASUREMENT' + FTR,
    HDR + '/begin MEASUREMENT a "" UBYTE NO_COMPU_METHOD 0 0 0 255 /end MEASUREMENT\n/* multi\nline */\n/begin MEASUREMENT b "" UBYTE NO_COMPU_METHOD 0 0 0 255 /end MEASUREMENT' + FTR,
    (HDR + '/begin A2ML\r\n  block "IF_DATA" long;\r\n/end A2ML\r\n' + FTR).replace('\n', '\r\n').replace('\r\r', '\r'),
    HDR + '/begin IF_DATA /* only a comment */ /end IF_DATA' + FTR,
    HDR + '/begin IF_DATA X /begin A 1 /end A /* c */ /begin B 2 /end B /* d */ K 3 /end IF_DATA' + FTR,
    HDR + '/begin MEASUREMENT a "" UBYTE NO_COMPU_METHOD 0 0 -1e-300 1.5e+300 ECU_ADDRESS 0xFFFFFFFF /end MEASUREMENT' + FTR,
]


def oracle(c, r, cases, res):
    if r.status == 'DIED':
        return 'implementation process died while loading'
    if r.status == 'PANIC':
        return 'panic (%s)' % (r.stage or 'load')
    if r.status != 'OK':
        return None                      # not an accepted input
    prev_text = r.text1
    for k, cy in enumerate(r.cycles):
        st = cy[0].decode()
        if st != 'OK':
            return 'cycle %d: the written file does not load (%s)' % (k + 1, st)
        if cy[1] != 1:
            later_ok = all(x[0] == b'OK' and x[1] == 1 for x in r.cycles[k + 1:]) and all(x[2] == cy[2] for x in r.cycles[k + 1:])
            same = cy[2] == prev_text and later_ok
            return 'cycle %d: the reloaded model differs from the model that was written; %s' % (
                k + 1, 'the written text is the same and stays the same' if same else 'the written text changes as well')
        if cy[2] != prev_text:
            a = prev_text.decode('utf-8', 'replace').split('\n')
            b = cy[2].decode('utf-8', 'replace').split('\n')
            return 'cycle %d: the written text changes (%d -> %d lines)' % (k + 1, len(a), len(b))
        prev_text = cy[2]
    if len(r.cycles) < c.get('cycles', 0):
        return 'missing cycles'
    return None


def _gifd_floats(g, out):
    """bit patterns of the Float / Double items of a generic IF_DATA dump"""
    v = g[0]
    if v in (b'Float', b'Double'):
        out.append(g[2])
    elif v in (b'Array', b'Sequence'):
        for x in g[1:]:
            _gifd_floats(x, out)
    elif v in (b'Struct', b'Block'):
        for x in g[3:]:
            _gifd_floats(x, out)
    elif v in (b'TaggedStruct', b'TaggedUnion'):
        for e in g[1:]:
            for t in e[1:]:
                _gifd_floats(t[6], out)
    return out


def integral_float_in_uninterpreted_ifdata(node):
    """does an IF_DATA that no A2ML definition describes hold a float whose value is an integer in the i32 range?"""
    import struct
    if not loadlib.is_node(node):
        return False
    if node[0] == b'IfData':
        items, valid = node[2][0], node[2][1] if len(node[2]) > 1 else None
        if isinstance(valid, list):
            valid = valid[0] if valid else 0
        if items and not valid:
            for bits in _gifd_floats(items[0], []):
                try:
                    x = struct.unpack('<d', struct.pack('<Q', bits if isinstance(bits, int) else bits[0]))[0]
                except Exception:
                    continue
                if x == x and abs(x) < 2 ** 31 and x == int(x):
                    return True
        return False
    return any(integral_float_in_uninterpreted_ifdata(k) for grp in node[3] for k in grp)


def classify_known(c, why, r):
    # uninterpreted IF_DATA stores a number by the first type that takes it (i32, else f32, else f64); a float with an integral
    # value is written without a fraction ("5.0" -> "5") and read back as an integer: the model differs once, the text is stable
    if r.status == 'OK' and 'model differs' in why and 'the written text is the same' in why and integral_float_in_uninterpreted_ifdata(r.node):
        return 'uninterpreted-ifdata-integral-float'

    # the finding: children with a position restriction are written in position order - the model read back lists them in
    # that order (differs once), the text is the same from the first save on.  Anything else in such a document is a violation.
    if r.status == 'OK' and loadlib.reordered_blocks(r.node) and 'model differs' in why and 'the written text is the same' in why:
        # and nothing but the order changed: the written text has the tokens of the input (same number, same keywords and names)
        ti, to = loadlib.scan_tokens(c['text']), loadlib.scan_tokens(r.text1.decode('utf-8', 'replace'))
        if ti is not None and to is not None and len(ti) == len(to) and \
                sorted(t[1] for t in ti if t[0] == 'ident') == sorted(t[1] for t in to if t[0] == 'ident'):
            return 'position-restricted-reorder'
    return None


def nontrivial_key(c, r):
    if r.status != 'OK' or len(c['text']) < 300:
        return None
    return hash(c['text'])


def distribution(cases, res):
    return {'with_a2ml': sum(1 for c in cases if '/begin A2ML' in c['text']),
            'with_if_data': sum(1 for c in cases if 'IF_DATA' in c['text']),
            'crlf': sum(1 for c in cases if '\r\n' in c['text']),
            'with_comments': sum(1 for c in cases if '/*' in c['text'] or '//' in c['text'])}


ROUNDTRIP_STAGE = True


def extra_stage(v, tier, rng, impl):
    """models built and edited through the public API (the second half of the quantifier): modules with loaded-like and
    many NEW elements (uid 0) of the same kinds, pushes in arbitrary order, then write -> load -> compare -> write"""
    from checks import modlib as ml
    n = 120 if tier == 'quick' else 2000
    cases = []
    for i in range(n):
        st = ml.gen_module(rng, rng.choice([0, 2, 8, 30]), with_new=0, kinds=rng.choice([None, [2, 11], [11]]))
        st[0] = []
        ops = []
        kinds = rng.choice([[11], [2, 11], list(range(20))])
        for j in range(rng.choice([1, 5, 40, 70])):
            k = rng.choice(kinds)
            ops.append(['push', k, ml.el(ml.TAGS[k], 'new_%03d_%s' % (j, rng.choice('abxyz')), 0, 0, 2, 1)])      # T::new(): uid 0, line 0
        if rng.random() < 0.3:
            ops.insert(rng.randrange(len(ops) + 1), ['sni'])
        ops.append(['rt'])
        cases.append([1, st, ops])
    out = fw.run_sharded([impl, 'C15'], [sx.enc(c) for c in cases])
    fails = []
    rt_ok = 0
    for c, line in zip(cases, out):
        o = ml.decode_out(line)
        why = None
        if o is None:
            why = 'process died'
        elif o[-1] == ['PANIC']:
            why = None if any(x[0] == 'sni' for x in c[2]) else 'panic while writing / reloading an API-built model'
        else:
            flags = o[-1][2] if len(o[-1]) >= 3 else None
            if not flags:
                why = 'no round-trip observation'
            elif not flags[0]:
                why = 'the text written from an API-built model does not load'
            elif not flags[1]:
                why = 'load(write(M)) != M for a model edited through the API (%d pushes)' % sum(1 for x in c[2] if x[0] == 'push')
            elif not flags[2]:
                why = 'write(load(write(M))) != write(M) for a model edited through the API'
            else:
                rt_ok += 1
        if why:
            fails.append({'payload': {'kind': 'C15', 'case': sx.enc(c), 'case_readable': c, 'why': why,
                                      'stage': 'W (API-built models: push histories, write, reload)'}})
    v.coverage['api_built_models'] = len(cases)
    v.coverage['api_built_round_trips_ok'] = rt_ok
    fails = fails[:3]
    # files: A2lFile::write(path, banner) / load(path), three saves with and without a banner.  The first save may differ
    # from the later ones (the banner takes the first line), from the second save on the bytes must not change any more
    import random as _random
    import docgen
    sp = docs.spec()
    bcases, btexts = [], []
    for i in range(30 if tier == 'quick' else 1500):
        opts = docgen.GenOptions(version=rng.choice(docs.VERSIONS), max_depth=4, max_repeat=2, p_optional=0.3,
                                 ifdata=rng.choice([None, 'unknown']))
        node = docgen.gen_tree(sp, _random.Random(rng.randrange(1 << 30)), opts)
        docs.order_positions(node)
        lay = docgen.Layout(mode=rng.choice(['canonical', 'random', 'oneline']), comments=rng.choice([None, 'block-level']))
        text, _ = docgen.render(node, _random.Random(rng.randrange(1 << 30)), lay, sp)
        for banner in ([], 'written by the check', 'two words\nand a second line'):
            bcases.append([text, 0, banner])
            btexts.append(text)
    bout = fw.run_sharded([impl, 'BANNER'], [sx.enc(c) for c in bcases])
    n_ok = 0
    for c, line in zip(bcases, bout):
        why = None
        if not line or line.startswith('DIED'):
            why = 'process died in the file save cycle'
        else:
            a = sx.dec(line)
            st = a[0].decode()
            if st == 'NOLOAD':
                continue
            if st in ('PANIC', 'ERR'):
                why = '%s in the file save cycle: %s' % (st, sx.pretty(a[1:]))
            elif not (a[1] and a[2]):
                why = 'the model read back from the saved file differs from the loaded model (banner %r)' % (c[2],)
            elif not a[3]:
                why = 'the saved file keeps changing: second and third save differ (banner %r)' % (c[2],)
            else:
                n_ok += 1
        if why and len(fails) < 3:
            fails.append({'payload': {'kind': 'BANNER', 'case': sx.enc(c), 'text': c[0], 'banner': c[2], 'why': why,
                                      'stage': 'W (file save cycle: write(path, banner), load(path))'}})
    v.coverage['file_save_cycles'] = len(bcases)
    v.coverage['file_save_cycles_ok'] = n_ok
    return fails[:3] + include_stage(v, tier, rng, impl)


def include_comment_cases():
    """documents whose include files carry comments where the including file's blocks keep comments: at the top and the end of
    a file included in MODULE / PROJECT / a nested block, in front of a document that is included as a whole"""
    from checks import inclib
    out = []
    head = 'ASAP2_VERSION 1 71\n/begin PROJECT p ""\n  /begin MODULE m ""\n'
    tail = '  /end MODULE\n/end PROJECT\n'
    meas = '/begin MEASUREMENT %s "" UBYTE NO_COMPU_METHOD 0 0 0 255\n%s/end MEASUREMENT\n'
    doc = head + '    ' + (meas % ('m0', '')) + tail
    for cm in ('// header of the include file\n', '/* header */\n', '/* two\n   lines */\n', '// one\n// two\n\n'):
        for strict in (True, False):
            def add(label, files, main='main.a2l'):
                out.append(dict(files=files, main=main, strict=strict, flat=inclib._try_flat(files, main), kind='split', expect='equal',
                                names=[], a2ml=False, label='include comments: ' + label))
            add('at the top of a file included in MODULE', {'main.a2l': head + '    /include "a.a2l"\n' + tail, 'a.a2l': cm + (meas % ('m1', ''))})
            add('at the end of a file included in MODULE', {'main.a2l': head + '    /include "a.a2l"\n' + tail, 'a.a2l': (meas % ('m1', '')) + cm})
            add('between two elements of a file included in MODULE',
                {'main.a2l': head + '    /include "a.a2l"\n' + tail, 'a.a2l': (meas % ('m1', '')) + cm + (meas % ('m2', ''))})
            add('in a file included in a nested block',
                {'main.a2l': head + '    ' + (meas % ('m1', '      /include "a.a2l"\n')) + tail, 'a.a2l': cm + 'ECU_ADDRESS 0x10\n' + cm})
            add('in a nested include', {'main.a2l': head + '    /include "a.a2l"\n' + tail, 'a.a2l': cm + '/include "b.a2l"\n' + cm,
                                        'b.a2l': cm + (meas % ('m1', ''))})
            add('in the main file and in the include file', {'main.a2l': head + '    ' + cm + '    /include "a.a2l"\n    ' + cm + tail,
                                                             'a.a2l': cm + (meas % ('m1', ''))})
            add('MODULE in an include file', {'main.a2l': 'ASAP2_VERSION 1 71\n/begin PROJECT p ""\n' + cm + '/include "mod.a2l"\n' + cm + '/end PROJECT\n',
                                              'mod.a2l': cm + '/begin MODULE m ""\n' + cm + '    ' + (meas % ('m1', '')) + '/end MODULE\n' + cm})
            add('in front of a document that is included as a whole', {'main.a2l': cm + '/include "doc.a2l"\n', 'doc.a2l': doc})
            add('in front of and at the top of a document that is included as a whole', {'main.a2l': cm + '\n/include "doc.a2l"\n' + cm, 'doc.a2l': cm + doc + cm})
    return out


def include_stage(v, tier, rng, impl):
    """save cycle of documents that are spread over include files: the file written next to the sources loads to an equal model
    and the text written from that model is the same text (nothing is copied from an include file into the main file)"""
    from checks import inclib
    cases = include_comment_cases() + inclib.gen_split_cases(rng, 25 if tier == 'quick' else 1200)
    # the same documents, edited through the API before they are saved: new objects of kinds that the include files hold too,
    # placed by sort_new_items() (between the elements of an include file) or left at the end, or the whole file sorted
    edited = []
    for c in cases:
        # the MODULE that is edited stands in the main file: what is added to a block of an include file is not written
        # (the block is represented by its directive; include files are never rewritten)
        mt = c['files'].get(c['main'])
        if not c.get('flat') or not isinstance(mt, str) or '/begin MODULE' not in mt:
            continue
        for variant in range(2):
            ops = [['push', k, 'api_new_%d_%d' % (variant, j)] for j, k in enumerate(rng.sample([2, 8, 9, 11, 19], rng.choice([1, 2, 3])))]
            # sort() only on the hand-written file sets: on generated documents with several MODULEs it also moves A2ML blocks in
            # front of IF_DATA that were read without them (known finding of C14)
            hand = (c.get('label') or '').startswith('include comments:')
            ops.append(rng.choice([['sni'], ['sort']]) if (variant == 0 and hand) else ['sni'])
            edited.append(dict(c, flat=None, ops=ops, label=(c.get('label') or '') + ' + API edits %s' % [o[0] for o in ops]))
    cases = cases + edited
    answers = inclib.run_incl(cases, binary=impl)
    inclib.cleanup_tmp()
    def first_module(n):
        if not loadlib.is_node(n):
            return None
        if n[0] == b'Module':
            return n
        for grp in n[3]:
            for k in grp:
                m = first_module(k)
                if m is not None:
                    return m
        return None

    fails, n_ok, n_skipped = [], 0, 0
    for c, a in zip(cases, answers):
        if c.get('ops') and a and a[0] == b'OK':
            m0 = first_module(a[1])
            if m0 is None or (len(m0[1]) > 4 and m0[1][4]):
                n_skipped += 1          # the MODULE that was edited comes from an include file: the edit is not written
                continue
        probs = [(t, d) for t, d in inclib.problems(c, a) if t in ('reload-text', 'reload-model', 'reload-err', 'panic', 'died')]
        if not probs:
            n_ok += 1
            continue
        if [t for t, d in probs] == ['reload-text'] and any(o[0] == 'sort' for o in (c.get('ops') or [])) and len(a[4]) > 4 \
                and a[3].split() == a[4][4].split():
            # sort() gives every element a fresh layout; the blank lines in front of an element that lives in an include file cannot be
            # kept anywhere (the directive is written with them, the include file is not rewritten): same tokens, other line breaks, once
            if not any(f.get('known_key') for f in fails):
                fails.append({'known_key': 'sort-with-includes-line-breaks',
                              'payload': {'kind': 'INCL', 'files': {p_: (t if isinstance(t, str) else (t or b'').decode('utf-8', 'replace')) for p_, t in c['files'].items()},
                                          'main': c['main'], 'strict': c['strict'], 'flat': c.get('flat'), 'label': c.get('label'), 'case_kind': c['kind'],
                                          'ops': c.get('ops'), 'why': 'sort() on a document with include files: the first save and the save after a reload differ in line breaks',
                                          'stage': 'W (save cycle of a document spread over include files)'}})
            continue
        if len([f for f in fails if 'payload' in f]) < 2:
            tag, detail = probs[0]
            fails.append({'payload': {'kind': 'INCL', 'files': {p_: (t if isinstance(t, str) else (t or b'').decode('utf-8', 'replace')) for p_, t in c['files'].items()},
                                      'main': c['main'], 'strict': c['strict'], 'flat': c.get('flat'), 'label': c.get('label'), 'case_kind': c['kind'],
                                      'ops': c.get('ops'),
                                      'why': 'save cycle over include files: %s: %s' % (tag, detail),
                                      'stage': 'W (save cycle of a document spread over include files)'}})
    v.coverage['include_save_cycles_skipped_edit_in_included_module'] = n_skipped
    v.coverage['include_save_cycles'] = len(cases)
    v.coverage['include_save_cycles_ok'] = n_ok
    return fails


def check(tier, seed):
    import checks.c01 as me
    return loadcheck.run(me, tier, seed)


def replay(r):
    if r.get('kind') == 'INCL':
        from checks import inclib
        impl = fw.build_harness()
        case = dict(files=r['files'], main=r['main'], strict=r['strict'], flat=r.get('flat'), kind=r.get('case_kind', 'split'),
                    expect='equal', label=r.get('label'), a2ml=False, names=[], ops=r.get('ops'))
        for p_, t in sorted(r['files'].items()):
            print('--- %s\n%s' % (p_, (t or '')[:1500]))
        print('edits:', r.get('ops'))
        a = inclib.run_incl([case], binary=impl)[0]
        inclib.cleanup_tmp()
        probs = [(t, d) for t, d in inclib.problems(case, a) if t in ('reload-text', 'reload-model', 'reload-err', 'panic', 'died')]
        for tag, detail in probs:
            print('VIOLATED [%s] %s' % (tag, detail))
        print('oracle:', 'violated' if probs else 'holds')
        return 1 if probs else 0
    if r.get('kind') == 'BANNER':
        impl = fw.build_harness()
        line = fw.run_single([impl, 'BANNER'], r['case'])
        print('text:', (r.get('text') or '')[:1500])
        print('banner:', r.get('banner'))
        a = sx.dec(line) if line and not line.startswith('DIED') else None
        print('answer (model1 equal, model2 equal, text2 == text3, text1 == text2):', a)
        bad = a is None or a[0] != b'OK' or not (a[1] and a[2] and a[3])
        print('oracle:', 'violated' if bad else 'holds')
        return 1 if bad else 0
    if r.get('kind') == 'C15':
        from checks import modlib as ml
        impl = fw.build_harness()
        line = fw.run_single([impl, 'C15'], r['case'])
        o = ml.decode_out(line)
        print('history:', str(r.get('case_readable'))[:1500])
        print('last observation (loads, model equal, text equal):', o[-1][2] if o and len(o[-1]) >= 3 else o and o[-1])
        ok = o and len(o[-1]) >= 3 and all(o[-1][2])
        return 0 if ok else 1
    import checks.c01 as me
    return loadcheck.replay(r, me)
