"""Property C19 (a2ml_specification!: typed IF_DATA access round-trips): driver library for the harness
/verif/harness/macroprobe, whose a2ml_specification! invocations are expanded by the IN-TREE crate /repo/a2lmacros.

    build_macroprobe()                 cargo build (offline, cached), returns the binary
    macro_crate_in_use()               the a2lmacros line(s) of `cargo tree` (must name /repo/a2lmacros)
    run(kind, cases)                   kinds TEXT / RT / VALUE / NVALUES, cases are Python lists (see main.rs)
    SPECS                              the fixed specifications: name, enhanced A2ML text (read from specs.rs), type tree
    conforming_case(spec, rng)         random conforming IF_DATA instance (case of kind RT, meta 'conf:...')
    directed_cases(spec, rng)          conforming instances that contain a given tagged member (every member of the
                                       specification in turn) with the integers / enums at the bounds of that member's types
    mismatch_case(spec, rng, family)   IF_DATA parsed under a mutated in-file definition (meta 'mis:<family>')
    MISMATCH_FAMILIES
    check_c19(kind, case, answer)      oracle: None | description ('<CATEGORY>: text')
    experiments(seed, n)               the experiment of the report; `python3 checks/macrolib.py [seed] [n]`
    COMPILE_PROBES / compile_probes()  constructs the macro accepts syntactically but cannot expand to compiling code

A2ML type trees are nested tuples:
    ('scalar', name)  name in char int long int64 uchar uint ulong uint64 float double
    ('str', n)        char[n]
    ('arr', t, n)     t[n] (t is not char)
    ('enum', ((name, value|None), ...))
    ('struct', (t, ...))
    ('seq', t)        ( t )*   only as the item of a tagged member or of the IF_DATA block
    ('ts', (member, ...)) / ('tu', (member, ...))   member = (tag, item|None, is_block, repeat)
Instance trees mirror the type trees:
    ('int', v, hex) ('float', text) ('str', text_form, value) ('arr', [..]) ('enum', name) ('struct', [..]) ('seq', [..])
    ('ts'|'tu', [(member index, instance|None), ...])   in document order
"""
import json
import os
import random
import re
import shutil
import struct as _struct
import sys

VERIF = os.path.dirname(os.path.dirname(os.path.abspath(__file__)))
sys.path.insert(0, os.path.join(VERIF, 'tools'))
import framework as fw  # noqa: E402
import sx  # noqa: E402

CRATE = os.path.join(VERIF, 'harness', 'macroprobe')
TARGET = os.path.join(VERIF, 'build', 'cargo-target-macroprobe')
SCRATCH = os.path.join(VERIF, 'build', 'agentH')
EXE = os.path.join(TARGET, 'debug', 'macroprobe')


# ----------------------------------------------------------------------------------------------- build / run
def _sources():
    out = [os.path.join(CRATE, 'Cargo.toml')]
    for f in os.listdir(os.path.join(CRATE, 'src')):
        out.append(os.path.join(CRATE, 'src', f))
    for root in ('/repo/a2lmacros/src', '/repo/a2lfile/src'):
        for d, _, files in os.walk(root):
            out.extend(os.path.join(d, f) for f in files if f.endswith('.rs'))
    return out


def build_macroprobe(force=False):
    """offline cargo build into build/cargo-target-macroprobe; skipped when the binary is newer than all sources"""
    lock = os.path.join(CRATE, 'Cargo.lock')
    if not os.path.exists(lock):
        shutil.copy(os.path.join(fw.REPO, 'Cargo.lock'), lock)   # completed offline by cargo (adds the path crates)
    if not force and os.path.exists(EXE):
        t = os.path.getmtime(EXE)
        if all(os.path.getmtime(s) <= t for s in _sources()):
            return EXE
    rc, out = fw.sh('cargo build --offline', cwd=CRATE, timeout=1800, env={'CARGO_TARGET_DIR': TARGET})
    if rc != 0:
        raise fw.CheckFailure('macroprobe build failed:\n' + out[-6000:])
    return EXE


def macro_crate_in_use():
    """the a2lmacros entries of the dependency tree: the direct dependency must be the path crate /repo/a2lmacros"""
    rc, out = fw.sh('cargo tree --offline --depth 1', cwd=CRATE, timeout=300, env={'CARGO_TARGET_DIR': TARGET})
    lines = [l.strip() for l in out.split('\n') if 'a2lmacros' in l]
    direct = [l for l in lines if '(/repo/a2lmacros)' in l]
    if rc != 0 or not direct:
        raise fw.CheckFailure('the in-tree macro crate is not a direct dependency of macroprobe:\n' + out)
    return lines


def run(kind, cases, timeout=3000):
    """run cases (Python lists) of one kind; returns decoded answers (bytes -> str), 'DIED ...' strings for crashes"""
    exe = build_macroprobe()
    lines = [sx.enc(c) for c in cases]
    outs = fw.run_isolating([exe, kind], lines, timeout=timeout)
    res = []
    for o in outs:
        if o is None or o.startswith('DIED'):
            res.append(o or 'DIED')
        else:
            res.append(sx.pretty(sx.dec(o)))
    return res


# ----------------------------------------------------------------------------------------------- A2ML parser
INT_TYPES = {'char': (8, True), 'int': (16, True), 'long': (32, True), 'int64': (64, True),
             'uchar': (8, False), 'uint': (16, False), 'ulong': (32, False), 'uint64': (64, False)}
FLOAT_TYPES = ('float', 'double')
SCALAR_NAMES = tuple(INT_TYPES) + FLOAT_TYPES

_TOK = re.compile(r'\s+|///[^\n]*|//[^\n]*|/\*.*?\*/|"(?:[^"\\]|\\.)*"|0[xX][0-9a-fA-F]+|-?\d+|[A-Za-z_][A-Za-z0-9_]*|[{}\[\]();,=*]',
                  re.S)


def a2ml_tokens(text):
    pos, out = 0, []
    while pos < len(text):
        m = _TOK.match(text, pos)
        if not m:
            raise ValueError('A2ML: cannot tokenize at %r' % text[pos:pos + 20])
        t = m.group(0)
        pos = m.end()
        if t.isspace() or t.startswith('//') or t.startswith('/*'):
            continue
        out.append(t)
    return out


class _P:
    def __init__(self, toks):
        self.t = toks
        self.i = 0
        self.named = {'enum': {}, 'struct': {}, 'taggedstruct': {}, 'taggedunion': {}}

    def peek(self, k=0):
        return self.t[self.i + k] if self.i + k < len(self.t) else None

    def next(self):
        t = self.t[self.i]
        self.i += 1
        return t

    def expect(self, x):
        t = self.next()
        if t != x:
            raise ValueError('A2ML: expected %r, got %r at token %d' % (x, t, self.i))

    def is_ident(self, t):
        return t is not None and re.match(r'[A-Za-z_]', t) is not None

    def opt_name(self):
        if self.is_ident(self.peek()):
            return self.next()
        return None

    def const(self):
        t = self.next()
        return int(t, 16) if t[:2].lower() == '0x' else int(t)

    def type_(self):
        kw = self.next()
        if kw in SCALAR_NAMES:
            return ('scalar', kw)
        if kw not in self.named:
            raise ValueError('A2ML: unexpected %r in type position' % kw)
        name = self.opt_name()
        if self.peek() != '{':
            if name is None or name not in self.named[kw]:
                raise ValueError('A2ML: %s %s referenced but not defined' % (kw, name))
            return self.named[kw][name]
        self.expect('{')
        if kw == 'enum':
            items = []
            while self.peek() != '}':
                tag = self.next()[1:-1]
                val = None
                if self.peek() == '=':
                    self.next()
                    val = self.const()
                items.append((tag, val))
                if self.peek() == ',':
                    self.next()
            t = ('enum', tuple(items))
        elif kw == 'struct':
            members = []
            while self.peek() != '}':
                members.append(self.member())
                self.expect(';')
            t = ('struct', tuple(members))
        else:
            members = []
            while self.peek() != '}':
                members.append(self.tagged(kw == 'taggedstruct'))
                self.expect(';')
            t = ('ts' if kw == 'taggedstruct' else 'tu', tuple(members))
        self.expect('}')
        if name is not None:
            self.named[kw][name] = t
        return t

    def member(self):
        """type_name [varname] [dims] [varname]  (the names are the macro's extension and are dropped)"""
        t = self.type_()
        self.opt_name()
        while self.peek() == '[':
            self.next()
            n = self.const()
            self.expect(']')
            t = ('str', n) if t == ('scalar', 'char') else ('arr', t, n)
        self.opt_name()
        return t

    def tagged_def(self):
        if self.peek() == '(':
            self.next()
            t = self.member()
            self.expect(')')
            self.expect('*')
            return ('seq', t)
        return self.member()

    def tagged(self, allow_repeat):
        repeat = False
        if self.peek() == '(' and allow_repeat:
            self.next()
            repeat = True
        block = False
        if self.peek() == 'block':
            self.next()
            block = True
        tag = self.next()[1:-1]
        item = None
        if self.peek() not in (';', ')'):
            item = self.tagged_def()
        if repeat:
            self.expect(')')
            self.expect('*')
        return (tag, item, block, repeat)

    def spec(self):
        top = None
        if self.peek() == '<':      # not produced by the tokenizer; the macro header is stripped before
            raise ValueError('strip the <Name> header first')
        while self.peek() is not None:
            if self.peek() == 'block':
                self.next()
                tag = self.next()[1:-1]
                item = self.tagged_def()
                if tag == 'IF_DATA':
                    top = item
            else:
                self.type_()
            self.expect(';')
        if top is None:
            raise ValueError('A2ML: no IF_DATA block')
        return top


def parse_a2ml(text):
    """type tree of block "IF_DATA" of a plain or enhanced (named members) A2ML text; names are resolved and dropped"""
    text = re.sub(r'^\s*<\s*[A-Za-z_0-9]+\s*>', '', text)
    return _P(a2ml_tokens(text)).spec()


def render_type(t, ind=1):
    """plain A2ML text of a type tree (anonymous, fully inlined)"""
    pad = '  ' * ind
    k = t[0]
    if k == 'scalar':
        return t[1]
    if k == 'str':
        return 'char[%d]' % t[1]
    if k == 'arr':
        return '%s[%d]' % (render_type(t[1], ind), t[2])
    if k == 'enum':
        return 'enum {\n' + ',\n'.join('%s  "%s"%s' % (pad, n, '' if v is None else ' = %d' % v) for n, v in t[1]) + '\n' + pad + '}'
    if k == 'struct':
        return 'struct {\n' + ''.join('%s  %s;\n' % (pad, render_type(m, ind + 1)) for m in t[1]) + pad + '}'
    if k == 'seq':
        return '(%s)*' % render_type(t[1], ind)
    if k in ('ts', 'tu'):
        out = ('taggedstruct' if k == 'ts' else 'taggedunion') + ' {\n'
        for tag, item, block, repeat in t[1]:
            s = '%s"%s"' % ('block ' if block else '', tag)
            if item is not None:
                s += ' ' + render_type(item, ind + 1)
            if repeat:
                s = '(' + s + ')*'
            out += '%s  %s;\n' % (pad, s)
        return out + pad + '}'
    raise ValueError(t)


def render_a2ml(top):
    return '  block "IF_DATA" %s;' % render_type(top, 1)


# ----------------------------------------------------------------------------------------------- the fixed specifications
def _read_specs():
    """the invocation bodies of harness/macroprobe/src/specs.rs, in order"""
    text = open(os.path.join(CRATE, 'src', 'specs.rs'), encoding='utf-8').read()
    out = []
    for m in re.finditer(r'pub mod (\w+) \{\s*a2lmacros::a2ml_specification! \{', text):
        start = m.end()
        depth, i = 1, start
        while depth:
            c = text[i]
            depth += (c == '{') - (c == '}')
            i += 1
        body = text[start:i - 1]
        name = re.search(r'<\s*(\w+)\s*>', body).group(1)
        doc = text[:m.start()].rstrip().split('\n')
        comment = []
        while doc and doc[-1].startswith('///'):
            comment.insert(0, doc.pop()[3:].strip())
        out.append(dict(index=len(out), module=m.group(1), name=name, text=body, top=parse_a2ml(body),
                        covers=' '.join(comment)))
    return out


SPECS = _read_specs()


def typed_shape(top):
    """the generic shape that the generated typed code expects.  It differs from the specification where a struct is a
    direct member of a struct that is itself a member (fixup_struct in a2mlspec.rs inlines such members, one level)."""
    def g(x):                       # a member that stays one item
        if x[0] == 'struct':
            return f(x)
        if x[0] == 'arr':
            return ('arr', g(x[1]), x[2])
        if x[0] == 'seq':
            return ('seq', g(x[1]))
        if x[0] in ('ts', 'tu'):
            return (x[0], tuple((tag, None if item is None else b(item), blk, rep) for tag, item, blk, rep in x[1]))
        return x

    def f(s):                       # a struct that is a member of something: direct struct members are inlined
        out = []
        for m in s[1]:
            if m[0] == 'struct':
                out.extend(g(x) for x in m[1])
            else:
                out.append(g(m))
        return ('struct', tuple(out))

    def b(item):                    # the item of a block / tagged member: its struct is merged into the block, not inlined
        if item[0] == 'struct':
            return ('struct', tuple(g(m) for m in item[1]))
        return g(item)

    return b(top)


for _s in SPECS:
    _s['typed_top'] = typed_shape(_s['top'])


def ucname_to_typename(name):
    """a2lmacros/src/util.rs ucname_to_typename (names of enum variants and of the types of tagged members)"""
    if any('a' <= c <= 'z' for c in name):
        return name
    out, cap = [], True
    for c in name:
        if c == '_':
            cap = True
            continue
        out.append(c if cap else c.lower())
        cap = False
    return ''.join(out)


# ----------------------------------------------------------------------------------------------- instances
# (text form, value) of strings; all at most 7 bytes long in the file's encoding
STRINGS = [('""', ''), ('"a"', 'a'), ('"abcdefg"', 'abcdefg'), ('"a b"', 'a b'), ('" "', ' '), ('"x/y"', 'x/y'),
           (r'"a\"b"', 'a"b'), ('"a""b"', 'a"b'), (r'"a\\b"', 'a\\b'), ('"äö"', 'äö'), ('"/*c*/"', '/*c*/'),
           ('"//c"', '//c'), ('"/end"', '/end'), ("\"it's\"", "it's"), ('"0x10"', '0x10')]
FLOAT_TEXTS = ['0', '0.0', '1', '-1', '1.5', '-0.25', '2.5e10', '-2.5E-3', '1e5', '.5', '5.', '+1.5', '0.1', '123456.75',
               '3.4028234663852886e38', '-3.4028234663852886e38', '1e-30', '16777216', '0x10', '1.17549435e-38']
DOUBLE_ONLY_TEXTS = ['1e300', '-1e-300', '1.7976931348623157e308', '5e-324', '0.30000000000000004', '9007199254740993']


def f32(x):
    return _struct.unpack('f', _struct.pack('f', x))[0]


def float_value(text, kind):
    v = float(int(text, 16)) if text[:2].lower() == '0x' else float(text)
    return f32(v) if kind == 'float' else v


def gen_int(kind, rng):
    bits, signed = INT_TYPES[kind]
    lo, hi = (-(1 << (bits - 1)), (1 << (bits - 1)) - 1) if signed else (0, (1 << bits) - 1)
    r = rng.random()
    if r < 0.35:
        v = rng.choice([lo, hi, 0, 1, -1 if signed else hi - 1, lo + 1, hi // 2, hi // 2 + 1])
    elif r < 0.6:
        v = rng.randint(-9, 9) if signed else rng.randint(0, 19)
    else:
        v = rng.randint(lo, hi)
    return ('int', v, rng.random() < 0.4)


def int_text(kind, inst):
    _, v, hexa = inst
    if not hexa:
        return str(v)
    bits, _ = INT_TYPES[kind]
    return ('0x%X' if v % 2 else '0x%x') % (v & ((1 << bits) - 1))    # hex = bit pattern of the type


def gen_instance(t, rng, path=(), full=False):
    """random instance of type tree t.  `path` (child indices) names a node that must occur in the instance;
    `full` makes every tagged member present."""
    k = t[0]
    nxt = path[0] if path else None
    rest = path[1:]
    if k == 'scalar':
        if t[1] in INT_TYPES:
            return gen_int(t[1], rng)
        pool = FLOAT_TEXTS + (DOUBLE_ONLY_TEXTS if t[1] == 'double' else [])
        return ('float', rng.choice(pool))
    if k == 'str':
        cands = [s for s in STRINGS if len(s[1].encode('utf-8')) <= t[1]]
        if rng.random() < 0.15:
            filler = 'x' * t[1] if t[1] <= 300 else 'x' * 300        # exactly the maximum length
            return ('str', '"%s"' % filler, filler)
        return ('str',) + rng.choice(cands)
    if k == 'arr':
        return ('arr', [gen_instance(t[1], rng, rest if nxt == 0 else (), full) for _ in range(t[2])])
    if k == 'enum':
        return ('enum', rng.choice(t[1])[0])
    if k == 'struct':
        return ('struct', [gen_instance(m, rng, rest if nxt == i else (), full) for i, m in enumerate(t[1])])
    if k == 'seq':
        n = rng.randint(0, 3)
        if nxt == 0 or full:
            n = max(n, 1)
        return ('seq', [gen_instance(t[1], rng, rest if nxt == 0 and j == 0 else (), full) for j in range(n)])
    if k == 'ts':
        occ = []
        for i, (tag, item, block, repeat) in enumerate(t[1]):
            must = nxt == i or full
            if repeat:
                n = rng.randint(0, 3)
                n = max(n, 1) if must else n
            else:
                n = 1 if must or rng.random() < 0.5 else 0
            for j in range(n):
                occ.append((i, None if item is None else gen_instance(item, rng, rest if nxt == i and j == 0 else (), full)))
        if rng.random() < 0.5:
            rng.shuffle(occ)        # document order is free; repeated members keep no particular grouping
        return ('ts', occ)
    if k == 'tu':
        if not t[1]:
            return ('tu', [])
        if nxt is not None:
            i = nxt
        elif rng.random() < 0.08 and not full:
            return ('tu', [])       # a taggedunion may be empty in the file
        else:
            i = rng.randrange(len(t[1]))
        item = t[1][i][1]
        return ('tu', [(i, None if item is None else gen_instance(item, rng, rest if nxt == i else (), full))])
    raise ValueError(t)


def render_instance(t, inst, out):
    """append the tokens of the instance to out"""
    k = t[0]
    if k == 'scalar':
        out.append(int_text(t[1], inst) if inst[0] == 'int' else inst[1])
    elif k == 'str':
        out.append(inst[1])
    elif k == 'enum':
        out.append(inst[1])
    elif k in ('arr', 'seq'):
        for x in inst[1]:
            render_instance(t[1], x, out)
    elif k == 'struct':
        for m, x in zip(t[1], inst[1]):
            render_instance(m, x, out)
    elif k in ('ts', 'tu'):
        for i, x in inst[1]:
            tag, item, block, repeat = t[1][i]
            if block:
                out.extend(['/begin', tag])
            else:
                out.append(tag)
            if item is not None:
                render_instance(item, x, out)
            if block:
                out.extend(['/end', tag])
    else:
        raise ValueError(t)


def expected_leaves(t, inst, out):
    """the leaf values in the order of the typed value's Debug text: members in specification order (tagged members
    too, occurrences of one member in document order).  A single (non-repeat) member keeps only its first occurrence."""
    k = t[0]
    if k == 'scalar':
        if inst[0] == 'int':
            out.append(inst[1])
        else:
            v = float_value(inst[1], t[1])
            out.append(('f32', v) if t[1] == 'float' else v)
    elif k == 'str':
        out.append(inst[2])
    elif k == 'enum':
        out.append(('id', ucname_to_typename(inst[1])))
    elif k in ('arr', 'seq'):
        for x in inst[1]:
            expected_leaves(t[1], x, out)
    elif k == 'struct':
        for m, x in zip(t[1], inst[1]):
            expected_leaves(m, x, out)
    elif k in ('ts', 'tu'):
        for i, (tag, item, block, repeat) in enumerate(t[1]):
            occ = [x for j, x in inst[1] if j == i]
            if not repeat:
                occ = occ[:1]
            for x in occ:
                if item is None:
                    out.append(('id', ucname_to_typename(tag)))
                else:
                    expected_leaves(item, x, out)
    return out


def layout(tokens, rng):
    """IF_DATA block text: random line structure"""
    style = rng.randrange(3)
    out = '/begin IF_DATA'
    for tok in tokens:
        brk = {0: False, 1: rng.random() < 0.25, 2: tok in ('/begin',) or rng.random() < 0.1}[style]
        if tok == '/end':
            brk = style == 2
        out += ('\n      ' if brk else ' ') + tok
    return out + '\n    /end IF_DATA'


_DBG_TOK = re.compile(r'"(?:[^"\\]|\\.)*"|-?(?:inf|NaN)|-?\d[0-9.eE+-]*|@?[A-Za-z_][A-Za-z0-9_]*|[{}()\[\],:]|\s+')


def _rust_unescape(s):
    out, i = [], 0
    while i < len(s):
        c = s[i]
        if c != '\\':
            out.append(c)
            i += 1
            continue
        n = s[i + 1]
        if n == 'u':
            j = s.index('}', i)
            out.append(chr(int(s[i + 3:j], 16)))
            i = j + 1
            continue
        out.append({'n': '\n', 't': '\t', 'r': '\r', '0': '\0', '\\': '\\', '"': '"', "'": "'"}[n])
        i += 2
    return ''.join(out)


def debug_leaves(dbg):
    """leaf values of the Debug text of a generated typed value: numbers (int/float), strings, and identifiers that
    are enum variants or data-less tagged members"""
    dbg = dbg.replace('Some(None)', 'Some(@None)')       # the member type of a tag "NONE" is a struct called None
    toks = [m.group(0) for m in _DBG_TOK.finditer(dbg) if not m.group(0).isspace()]
    out = []
    for i, t in enumerate(toks):
        nxt = toks[i + 1] if i + 1 < len(toks) else ''
        if t[0] == '"':
            out.append(_rust_unescape(t[1:-1]))
        elif re.match(r'-?\d', t) or t in ('inf', '-inf', 'NaN'):
            out.append(int(t) if re.fullmatch(r'-?\d+', t) else float(t))
        elif re.match(r'@?[A-Za-z_]', t):
            if nxt in ('{', '(', ':') or t in ('None', 'Some'):
                continue
            out.append(('id', t.lstrip('@')))
    return out


def leaves_equal(exp, got):
    if len(exp) != len(got):
        return False
    for a, b in zip(exp, got):
        if isinstance(a, tuple) and a[0] == 'f32':
            if isinstance(b, (tuple, str)) or f32(float(b)) != a[1]:
                return False
        elif isinstance(a, float) or isinstance(b, float):
            if isinstance(a, (tuple, str)) or isinstance(b, (tuple, str)):
                return False
            if float(a) != float(b):
                return False
        elif a != b:
            return False
    return True


def _enc_leaves(leaves):
    return json.dumps([[x[0], x[1] if x[0] == 'id' else repr(x[1])] if isinstance(x, tuple)
                       else (['f', repr(x)] if isinstance(x, float) else x) for x in leaves])


def _dec_leaves(text):
    out = []
    for x in json.loads(text):
        if isinstance(x, list):
            out.append(('id', x[1]) if x[0] == 'id' else (('f32', float(x[1])) if x[0] == 'f32' else float(x[1])))
        else:
            out.append(x)
    return out


def conforming_case(spec, rng, own_text=None, typed=False):
    """RT case with a conforming instance.  The in-file definition is X_TEXT (empty string) or, for own_text=True,
    the anonymous inlined rendering of the same type tree.  typed=True: the definition is the shape the typed code
    expects (typed_shape; same token sequences, other grouping) instead of the specification."""
    s = SPECS[spec]
    top = s['typed_top'] if typed else s['top']
    inst = gen_instance(top, rng)
    toks = []
    render_instance(top, inst, toks)
    if own_text is None:
        own_text = rng.random() < 0.3
    own_text = own_text or typed
    a2ml = render_a2ml(top) if own_text else ''
    leaves = expected_leaves(top, inst, [])
    meta = 'conf:' + ('typedshape' if typed else 'inline' if own_text else 'xtext')
    return [spec, a2ml, layout(toks, rng), meta, _enc_leaves(leaves)]


def extreme_instance(t, inst, hi):
    """the same instance with every integer leaf at the lower (hi=False) / upper bound of ITS type and every enum leaf
    at the first / last item of ITS enum; structure, strings, floats and the hex flag of the integers are kept"""
    k = t[0]
    if k == 'scalar':
        if t[1] not in INT_TYPES:
            return inst
        bits, signed = INT_TYPES[t[1]]
        lo, up = (-(1 << (bits - 1)), (1 << (bits - 1)) - 1) if signed else (0, (1 << bits) - 1)
        return ('int', up if hi else lo, inst[2])
    if k == 'enum':
        return ('enum', t[1][-1 if hi else 0][0])
    if k in ('arr', 'seq'):
        return (inst[0], [extreme_instance(t[1], x, hi) for x in inst[1]])
    if k == 'struct':
        return ('struct', [extreme_instance(m, x, hi) for m, x in zip(t[1], inst[1])])
    if k in ('ts', 'tu'):
        return (inst[0], [(i, None if x is None else extreme_instance(t[1][i][1], x, hi)) for i, x in inst[1]])
    return inst


def directed_cases(spec, rng):
    """conforming RT cases for every tagged member of the specification (any depth, in walk order): the instance contains
    that member, once with all integers / enums at the lower bound / first item of their own types and once at the upper
    bound / last item (in-file definition X_TEXT), the latter also under the anonymous inlined rendering.  A tag that
    the specification uses below several parents is thereby exercised at every occurrence with values of the types of
    that occurrence (meta 'conf:directed:<path of the member>:<lo|hi>:<xtext|inline>')."""
    top = SPECS[spec]['top']
    out = []
    for p, i in _members(top):
        for hi, own_text in ((False, False), (True, False), (True, True)):
            inst = extreme_instance(top, gen_instance(top, rng, p + (i,)), hi)
            toks = []
            render_instance(top, inst, toks)
            meta = 'conf:directed:%s:%s:%s' % ('.'.join(map(str, p + (i,))), 'hi' if hi else 'lo', 'inline' if own_text else 'xtext')
            out.append([spec, render_a2ml(top) if own_text else '', layout(toks, rng), meta,
                        _enc_leaves(expected_leaves(top, inst, []))])
    return out


# ----------------------------------------------------------------------------------------------- mismatching definitions
def walk(t, path=()):
    """all (path, node) of a type tree; a tagged member contributes (path + (i,), ('member', ...)) and its item"""
    yield path, t
    k = t[0]
    if k in ('arr', 'seq'):
        yield from walk(t[1], path + (0,))
    elif k == 'struct':
        for i, m in enumerate(t[1]):
            yield from walk(m, path + (i,))
    elif k in ('ts', 'tu'):
        for i, (tag, item, block, repeat) in enumerate(t[1]):
            if item is not None:
                yield from walk(item, path + (i,))


def replace(t, path, new):
    if not path:
        return new
    i = path[0]
    k = t[0]
    if k == 'arr':
        return ('arr', replace(t[1], path[1:], new), t[2])
    if k == 'seq':
        return ('seq', replace(t[1], path[1:], new))
    if k == 'struct':
        return ('struct', tuple(replace(m, path[1:], new) if j == i else m for j, m in enumerate(t[1])))
    if k in ('ts', 'tu'):
        return (k, tuple((m[0], replace(m[1], path[1:], new), m[2], m[3]) if j == i else m for j, m in enumerate(t[1])))
    raise ValueError((t, path))


def _other_scalar(name, rng):
    return rng.choice([n for n in SCALAR_NAMES if n != name])


def _members(t):
    """(path of the ts/tu node, member index) of every tagged member"""
    return [(p, i) for p, n in walk(t) if n[0] in ('ts', 'tu') for i in range(len(n[1]))]


def _node(t, path):
    for i in path:
        k = t[0]
        if k in ('arr', 'seq'):
            t = t[1]
        elif k == 'struct':
            t = t[1][i]
        else:
            t = t[1][i][1]
    return t


def _set_member(t, path, idx, member):
    node = _node(t, path)
    new = (node[0], tuple(member if j == idx else m for j, m in enumerate(node[1])))
    return replace(t, path, new)


EXTRA_TAG = 'ZZ_EXTRA'


def mutate(top, rng, family):
    """-> (mutated type tree, path that the instance must contain) or None when the family does not apply"""
    nodes = list(walk(top))

    def pick(pred):
        c = [(p, n) for p, n in nodes if pred(p, n)]
        return rng.choice(c) if c else None

    if family in ('arr_shorter', 'arr_longer', 'arr_to_single'):
        c = pick(lambda p, n: n[0] == 'arr')
        if not c:
            return None
        p, n = c
        if family == 'arr_shorter':
            new = ('arr', n[1], rng.randint(1, n[2] - 1)) if n[2] > 1 else None
        elif family == 'arr_longer':
            new = ('arr', n[1], n[2] + rng.randint(1, 2))
        else:
            new = n[1]
        return (replace(top, p, new), p) if new else None
    if family == 'scalar_other':
        c = pick(lambda p, n: n[0] == 'scalar')
        if not c:
            return None
        p, n = c
        return replace(top, p, ('scalar', _other_scalar(n[1], rng))), p
    if family == 'scalar_to_str':
        c = pick(lambda p, n: n[0] == 'scalar' and not _in_arr(top, p))
        if not c:
            return None
        return replace(top, c[0], ('str', 8)), c[0]
    if family == 'str_to_scalar':
        c = pick(lambda p, n: n[0] == 'str')
        if not c:
            return None
        return replace(top, c[0], ('scalar', rng.choice(SCALAR_NAMES))), c[0]
    if family == 'enum_items':
        c = pick(lambda p, n: n[0] == 'enum')
        if not c:
            return None
        p, n = c
        return replace(top, p, ('enum', tuple((name + '_X', v) for name, v in n[1]))), p
    if family == 'enum_to_scalar':
        c = pick(lambda p, n: n[0] == 'enum')
        if not c:
            return None
        return replace(top, c[0], ('scalar', rng.choice(SCALAR_NAMES))), c[0]
    if family in ('struct_missing', 'struct_extra', 'struct_swap', 'struct_inline', 'struct_wrap'):
        c = pick(lambda p, n: n[0] == 'struct' and len(n[1]) >= 1)
        if not c:
            return None
        p, n = c
        ms = list(n[1])
        if family == 'struct_missing':
            del ms[rng.randrange(len(ms))]
            if not ms:
                return None
        elif family == 'struct_extra':
            ms.insert(rng.randint(0, len(ms)), ('scalar', rng.choice(SCALAR_NAMES)))
        elif family == 'struct_swap':
            pairs = [(i, j) for i in range(len(ms)) for j in range(i + 1, len(ms)) if _kind(ms[i]) != _kind(ms[j])
                     and not _tagged(ms[i]) and not _tagged(ms[j])]
            if not pairs:
                return None
            i, j = rng.choice(pairs)
            ms[i], ms[j] = ms[j], ms[i]
        elif family == 'struct_inline':
            idx = [i for i, m in enumerate(ms) if m[0] == 'struct']
            if not idx:
                return None
            i = rng.choice(idx)
            ms[i:i + 1] = list(ms[i][1])
        else:
            idx = [i for i, m in enumerate(ms) if not _tagged(m)]
            if not idx:
                return None
            i = rng.choice(idx)
            ms[i] = ('struct', (ms[i],))
        return replace(top, p, ('struct', tuple(ms))), p
    if family in ('tagged_content', 'tagged_block_flip', 'tagged_repeat_flip', 'tagged_seq_flip'):
        mem = _members(top)
        if not mem:
            return None
        rng.shuffle(mem)
        for p, i in mem:
            node = _node(top, p)
            tag, item, block, repeat = node[1][i]
            if family == 'tagged_content':
                if item is None:
                    new = (tag, ('scalar', 'uint'), block, repeat)
                elif item[0] == 'scalar':
                    new = (tag, rng.choice([None, ('struct', (item, item)), ('str', 8)]), block, repeat)
                else:
                    new = (tag, rng.choice([None, ('scalar', rng.choice(SCALAR_NAMES))]), block, repeat)
            elif family == 'tagged_block_flip':
                new = (tag, item, not block, repeat)
            elif family == 'tagged_repeat_flip':
                if node[0] == 'tu':
                    continue
                new = (tag, item, block, not repeat)
            else:
                if item is None:
                    continue
                if item[0] == 'seq':
                    new = (tag, item[1], block, repeat)
                elif item[0] in ('ts', 'tu'):
                    continue
                else:
                    new = (tag, ('seq', item), block, repeat)
            return _set_member(top, p, i, new), p + (i,)
        return None
    if family == 'tagged_extra':
        c = pick(lambda p, n: n[0] == 'ts')
        if not c:
            return None
        p, n = c
        new = ('ts', n[1] + ((EXTRA_TAG, ('scalar', 'uint'), False, False),))
        return replace(top, p, new), p + (len(n[1]),)
    if family == 'ts_tu_flip':
        c = pick(lambda p, n: n[0] in ('ts', 'tu'))
        if not c:
            return None
        p, n = c
        if n[0] == 'ts':
            new = ('tu', tuple((m[0], m[1], m[2], False) for m in n[1]))
        else:
            new = ('ts', n[1])
        return replace(top, p, new), p
    raise ValueError(family)


def _kind(t):
    return t[:2] if t[0] == 'scalar' else t[0]


def _tagged(t):
    return t[0] in ('ts', 'tu')


def _in_arr(top, path):
    t = top
    for i in path:
        if t[0] == 'arr':
            return True
        t = _node(t, (i,))
    return False


MISMATCH_FAMILIES = ['arr_shorter', 'arr_longer', 'arr_to_single', 'scalar_other', 'scalar_to_str', 'str_to_scalar',
                     'enum_items', 'enum_to_scalar', 'struct_missing', 'struct_extra', 'struct_swap', 'struct_inline',
                     'struct_wrap', 'tagged_content', 'tagged_block_flip', 'tagged_repeat_flip', 'tagged_seq_flip',
                     'tagged_extra', 'ts_tu_flip', 'dup_single', 'cross_spec', 'invalid_a2ml', 'no_ifdata_block_def']


def mismatch_case(spec, rng, family):
    """RT case: IF_DATA text that conforms to a definition which differs from the typed code's specification.
    -> case or None (family not applicable to this specification)"""
    s = SPECS[spec]
    top = s['top']
    if family == 'dup_single':
        # same definition, but a single (non-repeat) member of a taggedstruct occurs twice in the file
        cands = [(p, i) for p, n in walk(top) if n[0] == 'ts' for i, m in enumerate(n[1]) if not m[3]]
        if not cands:
            return None
        p, i = rng.choice(cands)
        inst = gen_instance(top, rng, p + (i,))
        inst = _duplicate(top, inst, p, i, rng)
        toks = []
        render_instance(top, inst, toks)
        return [spec, '', layout(toks, rng), 'mis:dup_single', '']
    if family == 'cross_spec':
        other = rng.choice([x for x in range(len(SPECS)) if x != spec])
        inst = gen_instance(SPECS[other]['top'], rng, full=True)
        toks = []
        render_instance(SPECS[other]['top'], inst, toks)
        return [spec, render_a2ml(SPECS[other]['top']), layout(toks, rng), 'mis:cross_spec:%d' % other, '']
    if family in ('invalid_a2ml', 'no_ifdata_block_def'):
        inst = gen_instance(top, rng)
        toks = []
        render_instance(top, inst, toks)
        a2ml = 'block "IF_DATA" struct { uint; ' if family == 'invalid_a2ml' else 'struct unused { uint; };'
        return [spec, a2ml, layout(toks, rng), 'mis:' + family, '']
    for _ in range(20):
        m = mutate(top, rng, family)
        if m is None:
            continue
        new, path = m
        if new == top:
            continue
        try:
            a2ml = render_a2ml(new)
            parse_a2ml(a2ml)
        except ValueError:
            continue
        inst = gen_instance(new, rng, path)
        toks = []
        render_instance(new, inst, toks)
        return [spec, a2ml, layout(toks, rng), 'mis:' + family, '']
    return None


def _duplicate(t, inst, path, idx, rng):
    """repeat member idx of the taggedstruct at `path` once more in the instance tree"""
    if not path:
        occ = list(inst[1])
        first = [x for x in occ if x[0] == idx]
        if not first:
            return inst
        item = t[1][idx][1]
        occ.append((idx, None if item is None else gen_instance(item, rng)))
        return (inst[0], occ)
    i = path[0]
    k = t[0]
    if k in ('arr', 'seq'):
        xs = list(inst[1])
        if xs:
            xs[0] = _duplicate(t[1], xs[0], path[1:], idx, rng)
        return (inst[0], xs)
    if k == 'struct':
        xs = list(inst[1])
        xs[i] = _duplicate(t[1][i], xs[i], path[1:], idx, rng)
        return (inst[0], xs)
    occ = list(inst[1])
    for j, (mi, x) in enumerate(occ):
        if mi == i and x is not None:
            occ[j] = (mi, _duplicate(t[1][i][1], x, path[1:], idx, rng))
            break
    return (inst[0], occ)


# ----------------------------------------------------------------------------------------------- oracle
def check_c19(kind, case, answer):
    """None when the answer satisfies the property statement, else '<CATEGORY>: description'.
    Categories: DIED PANIC XTEXT-REJECTED XTEXT-STRUCTURE NOVALUE INVALID LEAVES STORE GENERIC-NEQ TYPED-NEQ TEXT-NEQ
    EMPTY-INVALID (conforming data), PANIC / ACCEPTED-LOSSY / ACCEPTED-SAME (mismatching data: a value although the
    in-file definition differs; LOSSY = parts of the block are ignored and disappear when the value is stored),
    VALUE-NEQ VALUE-DEBUG (kind VALUE)."""
    if isinstance(answer, str):
        return 'DIED: ' + answer
    spec = case[0]
    if kind == 'TEXT':
        if answer[0] != 'OK':
            return 'DIED: ' + repr(answer)
        if answer[2][0] != 'OK':
            return 'XTEXT-REJECTED: the library does not parse %s_TEXT: %r' % (SPECS[spec]['name'].upper(), answer[2])
        try:
            top = parse_a2ml(answer[1])
        except ValueError as e:
            return 'XTEXT-STRUCTURE: %s' % e
        if top != SPECS[spec]['top']:
            return 'XTEXT-STRUCTURE: the constant describes another structure than the macro input'
        return None
    if kind == 'VALUE':
        if answer[0] == 'PANIC':
            return 'PANIC: ' + answer[1]
        if answer[0] != 'OK':
            return 'ERR: ' + repr(answer[1:])
        if answer[1] != 1:
            return 'VALUE-NEQ: stored and reloaded value differs: %s -> %s' % (answer[3], answer[4])
        if answer[3] != answer[4]:
            return 'VALUE-DEBUG: equal under == but different Debug text: %s -> %s' % (answer[3], answer[4])
        return None
    if kind != 'RT':
        raise ValueError(kind)
    meta = case[3] if len(case) > 3 else 'conf'
    if answer[0] == 'PANIC':
        return 'PANIC: ' + answer[1]
    conforming = meta.startswith('conf')
    if answer[0] != 'OK':
        return ('LOAD: the document does not load: %r' % answer[1:]) if conforming else None
    valid, decode, store = answer[1], answer[2], answer[3]
    if decode[0] == 'PANIC':
        return 'PANIC: load_from_ifdata: ' + decode[1].replace('\n', ' ')
    if store and store[0] == 'PANIC':
        return 'PANIC: store/reload/write: ' + store[1].replace('\n', ' ')
    if not conforming:
        if decode[0] == 'OK':
            lossy = not store or store[0] != 'OK' or store[3] != store[4]
            if lossy:
                return 'ACCEPTED-LOSSY: a value is decoded although the shape differs (%s); storing it changes the written content: %s' % (
                    meta, decode[1][:200])
            return 'ACCEPTED-SAME: a value is decoded under the other definition (%s); load + store + write reproduces the text: %s' % (
                meta, decode[1][:200])
        return None
    if valid != 1 and re.fullmatch(r'/begin IF_DATA\s*/end IF_DATA', case[2]):
        return 'EMPTY-INVALID: an IF_DATA block without content (empty sequence / taggedunion / taggedstruct) is never valid'
    if valid != 1:
        return 'INVALID: ifdata_valid = 0 for conforming data; log: %s' % answer[4][:300]
    if decode[0] != 'OK':
        return 'NOVALUE: conforming data is not decoded: %s' % decode[1]
    if len(case) > 4 and case[4]:
        exp = _dec_leaves(case[4])
        got = debug_leaves(decode[1])
        if not leaves_equal(exp, got):
            return 'LEAVES: decoded value %s does not carry the values of the text: expected %r' % (decode[1][:300], exp)
    if store[0] != 'OK':
        return 'STORE: %r' % store[1:]
    _, geq, teq, wstored, worig = store
    if teq != 1:
        return 'TYPED-NEQ: the value decoded from the stored block differs from the stored value'
    if wstored != worig:
        return 'TEXT-NEQ: written text after load+store differs:\n%s\n-- original --\n%s' % (wstored, worig)
    if geq != 1:
        return 'GENERIC-NEQ: ifdata_items after load+store is not == the parsed ifdata_items (written text is equal)'
    return None


_IFD_TOK = re.compile(r'"(?:[^"\\]|\\.|"")*"|\S+')


def compare_with_input(case, answer):
    """third clause, taken literally: is the text written after load + store the input text (white space aside)?
    None | 'WRITE-FLOAT: ..' (only float tokens differ, same f32/f64 value or not) | 'WRITE-OTHER: ..'"""
    if isinstance(answer, str) or answer[0] != 'OK' or not answer[3] or answer[3][0] != 'OK':
        return None
    a = _IFD_TOK.findall(case[2])
    b = _IFD_TOK.findall(answer[3][3])
    if len(a) != len(b):
        return 'WRITE-OTHER: %d tokens in, %d tokens out' % (len(a), len(b))
    fl = []
    for x, y in zip(a, b):
        if x == y:
            continue
        if x[0] == '"':
            if _a2l_unquote(x) == _a2l_unquote(y):
                continue
            return 'WRITE-OTHER: string %s -> %s' % (x, y)
        if re.fullmatch(r'0[xX][0-9a-fA-F]+', x) and re.fullmatch(r'0[xX][0-9a-fA-F]+', y):
            if int(x, 16) == int(y, 16) and len(x) == len(y):
                continue            # only the case of the hex digits
            return 'WRITE-OTHER: %s -> %s' % (x, y)
        try:
            fx = float(int(x, 16)) if x[:2].lower() == '0x' else float(x)
            fy = float(y)
        except ValueError:
            return 'WRITE-OTHER: %s -> %s' % (x, y)
        fl.append((x, y, fx == fy, f32(fx) == f32(fy)))
    if not fl:
        return None
    kinds = set('same value' if s64 else ('same f32 value' if s32 else 'OTHER VALUE') for _, _, s64, s32 in fl)
    return 'WRITE-FLOAT: %s: %s' % (', '.join(sorted(kinds)), ', '.join('%s -> %s' % (x, y) for x, y, _, _ in fl[:4]))


def _a2l_unquote(s):
    s = s[1:-1].replace('""', '"')
    return re.sub(r'\\(.)', lambda m: {'n': '\n', 't': '\t', 'r': '\r'}.get(m.group(1), m.group(1)), s)


def category(desc):
    return None if desc is None else desc.split(':', 1)[0]


# ----------------------------------------------------------------------------------------------- compile probes
# constructs that the macro's front end accepts (or documents) but that do not expand to compiling code
COMPILE_PROBES = {
    'baseline_ok': 'block "IF_DATA" struct { uint a; uint arr[2]; taggedstruct { "T" (struct P { int x; })*; }; };',
    'seq_of_int': 'block "IF_DATA" taggedstruct { "LIST" (uint)*; };',
    'seq_of_float': 'block "IF_DATA" taggedstruct { "LIST" (float)*; };',
    'seq_of_enum_ok': 'enum Kind { "KA", "KB" }; block "IF_DATA" taggedstruct { "LIST" (enum Kind)*; };',
    'arr_of_enum_ref': 'enum Kind { "KA", "KB" }; block "IF_DATA" struct { enum Kind ks[2]; };',
    'arr_of_enum_inline': 'block "IF_DATA" struct { enum Kind { "KA", "KB" } ks[2]; };',
    'arr_of_struct_ref': 'struct Pt { int x; int y; }; block "IF_DATA" struct { struct Pt pts[2]; };',
    'arr_of_struct_inline': 'block "IF_DATA" struct { struct Pt { int x; int y; } pts[2]; };',
    'arr_multidim': 'block "IF_DATA" struct { long m[2][3]; };',
    'arr_of_string': 'block "IF_DATA" struct { char names[2][8]; };',
    'ident_member': 'block "IF_DATA" struct { ident name; uint x; };',
    'enum_negative_value': 'block "IF_DATA" struct { enum Sg { "NEG" = -1, "POS" = 1 } sg; };',
    'same_tag_twice': 'block "IF_DATA" struct { taggedstruct { "T" uint; }; taggedunion { "T" long; "U" float; }; };',
    # the type of the block is named ucname_to_typename(name) = Xcp, the impl block is written for XCP
    'uppercase_spec_name': '<XCP> block "IF_DATA" struct { uint x; };',
}


def compile_probes(names=None):
    """expand each probe with the in-tree macro in a scratch crate (one binary per probe); -> {name: (ok, first error)}"""
    d = os.path.join(SCRATCH, 'cprobe')
    shutil.rmtree(d, ignore_errors=True)
    os.makedirs(os.path.join(d, 'src', 'bin'))
    os.makedirs(os.path.join(d, '.cargo'))
    toml = open(os.path.join(CRATE, 'Cargo.toml')).read().replace('name = "macroprobe"', 'name = "cprobe"')
    open(os.path.join(d, 'Cargo.toml'), 'w').write(toml)
    shutil.copy(os.path.join(CRATE, 'Cargo.lock'), os.path.join(d, 'Cargo.lock'))
    open(os.path.join(d, '.cargo', 'config.toml'), 'w').write('[net]\noffline = true\n')
    names = list(names or COMPILE_PROBES)
    for n in names:
        body = COMPILE_PROBES[n]
        if not body.startswith('<'):
            body = '<Px> ' + body
        open(os.path.join(d, 'src', 'bin', n + '.rs'), 'w').write(
            '#![allow(dead_code)]\nmod m {\n    a2lmacros::a2ml_specification! {\n        %s\n    }\n}\nfn main() {}\n' % body)
    lock = open(os.path.join(d, 'Cargo.lock')).read().replace('name = "macroprobe"', 'name = "cprobe"')
    open(os.path.join(d, 'Cargo.lock'), 'w').write(lock)
    res = {}
    for n in names:
        rc, out = fw.sh('cargo build --offline --bin %s' % n, cwd=d, timeout=1800, env={'CARGO_TARGET_DIR': TARGET})
        first = ''
        if rc != 0:
            m = re.search(r'^error(?:\[E\d+\])?: (.*)$', out, re.M)
            h = re.search(r'help: message: (.*)', out)
            first = (m.group(0) if m else 'error') + (' -- ' + h.group(1) if h else '')
        res[n] = (rc == 0, first)
    return res


# ----------------------------------------------------------------------------------------------- experiments
def value_text_roundtrip(spec):
    """every hand-built value: store -> write -> parse under X_TEXT -> load; compares the Debug texts"""
    n = run('NVALUES', [[spec]])[0][1]
    vals = run('VALUE', [[spec, v] for v in range(n)])
    cases, idx = [], []
    for v, a in enumerate(vals):
        if not isinstance(a, str) and a[0] == 'OK':
            cases.append([spec, '', a[2], 'conf:value', ''])
            idx.append(v)
    back = run('RT', cases)
    out = []
    for v, c, b in zip(idx, cases, back):
        a = vals[v]
        d = check_c19('RT', c, b)
        if d is None and b[2][1] != a[3]:
            d = 'VALUE-TEXT: the written text %r decodes to %s, the stored value was %s' % (a[2], b[2][1], a[3])
        out.append((v, a, b, d))
    return vals, out


def experiments(seed=1, n=300, verbose=True):
    """-> summary dict; the individual findings (first examples per category) are kept in summary['examples']"""
    build_macroprobe()
    summary = {'seed': seed, 'n_per_spec': n, 'macro_crate': macro_crate_in_use(), 'specs': {}, 'examples': {}}

    def note(key, case, answer, desc):
        ex = summary['examples'].setdefault(key, [])
        if len(ex) < 3:
            ex.append({'case': case[:4], 'answer': answer, 'finding': desc})

    texts = run('TEXT', [[i] for i in range(len(SPECS))])
    for s in SPECS:
        i = s['index']
        rng = random.Random('%s/C19/%d' % (seed, i))
        rec = {'name': s['name']}
        d = check_c19('TEXT', [i], texts[i])
        rec['text'] = d or 'ok'
        # conforming instances
        cases = [conforming_case(i, rng) for _ in range(n)]
        answers = run('RT', cases)
        cats = {}
        for c, a in zip(cases, answers):
            d = check_c19('RT', c, a)
            k = category(d) or 'ok'
            cats[k] = cats.get(k, 0) + 1
            if d:
                note('%s/conforming/%s' % (s['name'], k), c, a, d)
        rec['conforming'] = cats
        wr = {}
        for c, a in zip(cases, answers):
            d = compare_with_input(c, a)
            k = 'same' if d is None else d.split(':', 2)[0] + ':' + d.split(':', 2)[1]
            wr[k] = wr.get(k, 0) + 1
            if d:
                note('%s/input-vs-written/%s' % (s['name'], k), c, a, d)
        rec['written_vs_input'] = wr
        if s['typed_top'] != s['top']:
            cases = [conforming_case(i, rng, typed=True) for _ in range(n)]
            answers = run('RT', cases)
            cats = {}
            for c, a in zip(cases, answers):
                d = check_c19('RT', c, a)
                k = category(d) or 'ok'
                cats[k] = cats.get(k, 0) + 1
                if d:
                    note('%s/conforming-typedshape/%s' % (s['name'], k), c, a, d)
            rec['conforming_to_typed_shape'] = cats
        # hand-built values
        vals, back = value_text_roundtrip(i)
        vc = {}
        for v, a in enumerate(vals):
            d = check_c19('VALUE', [i, v], a)
            k = category(d) or 'ok'
            vc[k] = vc.get(k, 0) + 1
            if d:
                note('%s/value/%s' % (s['name'], k), [i, v], a, d)
        rec['values'] = vc
        bc = {}
        for v, a, b, d in back:
            k = category(d) or 'ok'
            bc[k] = bc.get(k, 0) + 1
            if d:
                note('%s/value-text/%s' % (s['name'], k), [i, v, a[2]], b, d)
        rec['values_through_text'] = bc
        # mismatching definitions
        mm = {}
        per_family = max(10, n // 10)
        for fam in MISMATCH_FAMILIES:
            cases = [c for c in (mismatch_case(i, rng, fam) for _ in range(per_family)) if c]
            if not cases:
                mm[fam] = 'n/a'
                continue
            answers = run('RT', cases)
            cats = {}
            for c, a in zip(cases, answers):
                d = check_c19('RT', c, a)
                if d is None:
                    k = 'no value' if (a[0] == 'OK') else 'load error'
                else:
                    k = category(d)
                    note('%s/%s/%s' % (s['name'], fam, k), c, a, d)
                cats[k] = cats.get(k, 0) + 1
            mm[fam] = cats
        rec['mismatch'] = mm
        summary['specs'][s['name']] = rec
        if verbose:
            print(json.dumps({s['name']: rec}, indent=1))
            sys.stdout.flush()
    return summary


if __name__ == '__main__':
    seed = int(sys.argv[1]) if len(sys.argv) > 1 else 1
    n = int(sys.argv[2]) if len(sys.argv) > 2 else 300
    os.makedirs(SCRATCH, exist_ok=True)
    res = experiments(seed, n)
    path = os.path.join(SCRATCH, 'c19_experiments_seed%d.json' % seed)
    with open(path, 'w') as f:
        json.dump(res, f, indent=1, default=str)
    print('written', path)
