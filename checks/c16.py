"""C16 /include is transparent for loading and preserved by writing.
   P  Props/C16.v on the include expansion of the tokenizer (Lex/Include.v): a file without directives is untouched, an
      unreadable or nameless directive is an error naming it, nested includes are attributed to a directive of the main file
   C  the extracted model (include expansion + parser + writer over several files, file system as an oracle table) against
      a2lfile::load + write_to_string on generated documents split into 1-3 levels of include files (sub- and parent
      directories, quoted / unquoted names, both separators) and on fault cases: model tree with the include attribution of
      every element, diagnostics, written text; errors with variant, line, file and directive
   W  the statement on the implementation (harness kind INCL): the loaded model equals the model of the flattened text; the
      file written next to the sources loads to an equal model; merge_includes() output contains no directive and loads to an
      equal model; a broken include is an error that names the directive, never a panic or a partial result"""
import collections

import framework as fw
import sx
from checks import inclib, loadlib

PROP = 'C16'
TARGETS = ['theories/Proofs/IncludeProofs.v', 'theories/Run/RunLoad.v', 'theories/Proofs/ProvenanceProofs.v', 'theories/Proofs/SpliceProofs.v']

# oracle tag (inclib.problems) -> known-finding key; tags that are not part of the statement are dropped
TAG_KEY = {
    'a2ml-text': 'a2ml-include-kept-in-a2ml-text',
    'died': 'self-include-unbounded-recursion',
    'no-error': 'a2ml-missing-include-is-a-warning',
    'a2ml-unparsed': 'a2ml-include-unmerged-when-a2ml-unparseable',
    'a2ml-trailing-blank': 'a2ml-include-at-block-end-trailing-whitespace',
}
IGNORED_TAGS = {'reload-text'}      # equal model, different text: the text fixpoint is the statement of C01 (checks/c01.py include_stage)


def resolve_table(files, main):
    """[(includer path, directive text, [resolved path] | [])] for every A2L-level directive reachable from main"""
    out, seen, todo = [], set(), [main]
    while todo:
        f = todo.pop()
        if f in seen or f not in files or files[f] is None:
            continue
        seen.add(f)
        text = files[f]
        if isinstance(text, bytes):
            text = text.decode('utf-8', 'replace')
        for inc in inclib.find_includes(text):
            if inc.a2ml or inc.name is None:
                continue
            target = inclib.resolve(f, inc.name)
            ok = target in files and not target.endswith('/') and files[target] is not None
            out.append([f, inc.name, [target] if ok else []])
            if ok:
                todo.append(target)
    return out


def loadinc_line(case, ftab=None):
    files = [[p, inclib._bytes(case['files'][p] or '')] for p in sorted(case['files']) if not p.endswith('/')]
    return files, case['main'], 1 if case.get('strict', True) else 0


def strip_dir(x, d):
    if isinstance(x, (bytes, bytearray)):
        return bytes(x).replace(d + b'/', b'')
    if isinstance(x, list):
        return [strip_dir(y, d) for y in x]
    return x


def compare_inc(impl_line, model_line):
    """None when model and implementation agree, else a description"""
    if impl_line is None or impl_line.startswith('DIED'):
        m = sx.dec(model_line) if model_line and not model_line.startswith('DIED') else None
        if m and m[0] in (b'FUEL', b'UNSUPPORTED'):
            return None                       # unbounded recursion on both sides (known finding) / A2ML include
        return 'implementation died, model %s' % (m and m[0])
    a = sx.dec(impl_line)
    if model_line is None or model_line.startswith('DIED'):
        return 'model died'
    m = sx.dec(model_line)
    st, ms = a[0].decode(), m[0].decode()
    if ms == 'UNSUPPORTED':
        return None
    d = a[-1] if isinstance(a[-1], (bytes, bytearray)) else b''
    a = strip_dir(a, bytes(d))
    if st != ms:
        return 'status: implementation %s %s, model %s %s' % (st, sx.pretty(a[1])[:4] if len(a) > 1 and st == 'ERR' else '', ms, sx.pretty(m[1])[:4] if len(m) > 1 and ms != 'OK' else '')
    if st == 'OK':
        if a[1] != m[1]:
            return 'model tree differs: ' + loadlib.first_diff(a[1], m[1])
        if a[2] != m[2]:
            return 'diagnostics differ: impl %s model %s' % (sx.pretty(a[2])[:2], sx.pretty(m[2])[:2])
        if a[3] != m[3]:
            x, y = a[3].decode('utf-8', 'replace').split('\n'), m[3].decode('utf-8', 'replace').split('\n')
            for i, (p, q) in enumerate(zip(x, y)):
                if p != q:
                    return 'written text differs at line %d: impl %r model %r' % (i + 1, p[:80], q[:80])
            return 'written text differs in length'
        return None
    if st == 'ERR':
        pa, pm = sx.pretty(a[1]), sx.pretty(m[1])
        if pa[0] == 'Tokenizer':
            ka = (pa[1], pa[2], pa[3], pa[4] if pa[1] == 'IncludeFileError' else '')
            km = (pm[1], pm[2], pm[3] if len(pm) > 3 else '', pm[4] if len(pm) > 4 and pm[1] == 'IncludeFileError' else '')
            if pa[1] not in ('IncludeFileError', 'IncompleteIncludeError'):
                ka, km = ka[:2], km[:2]
            return None if ka == km else 'tokenizer error differs: impl %s model %s' % (ka, km)
        if pa[0] == 'Other':
            return None if pa[:2] == pm[:2] else 'error differs: impl %s model %s' % (pa[:2], pm[:2])
        return None if list(pa) == list(pm) else 'error differs: impl %s model %s' % (pa, pm)
    return None


def check(tier, seed):
    v = fw.Verdict(PROP, tier, seed)
    rng = fw.rng_for(seed, PROP)
    known = fw.load_known_findings().get(PROP, {})
    ok_p, p_info = fw.proof_stage(v, PROP, TARGETS)
    impl = fw.build_harness(release=False)
    model_exe, model_err = None, None
    try:
        ok_m, log_m = fw.coq_make(TARGETS)
        if not ok_m:
            raise fw.CheckFailure('model does not compile:\n' + log_m[-2000:])
        model_exe = fw.build_model('LOADINC')
    except fw.CheckFailure as e:
        model_err = str(e)

    n = 70 if tier == 'quick' else 3000
    cases = inclib.gen_split_cases(rng, n)
    for c in list(cases)[::4]:
        cases += inclib.fault_cases(rng, c['files'], c['main'], strict=c['strict'], label=c['label'])
    cases += inclib.special_cases(strict=True) + inclib.special_cases(strict=False)
    # ---- stage W
    answers = inclib.run_incl(cases, binary=impl)
    failures = []
    tally = collections.Counter()
    for i, (c, a) in enumerate(zip(cases, answers)):
        tally['kind:' + c['kind']] += 1
        for tag, detail in inclib.problems(c, a):
            tally[tag] += 1
            if tag in IGNORED_TAGS:
                continue
            if c['kind'] == 'cycle' and tag in ('error-name',):
                continue              # a cycle through ../ ends in a path-length error: an error, which is all the property asks
            key = TAG_KEY.get(tag)
            if tag == 'reload-model' and 'twice in one block' in (c.get('label') or ''):
                key = 'same-include-twice-in-one-block'
            if tag == 'load-err' and 'starting with "end"' in (c.get('label') or ''):
                key = 'a2ml-include-path-containing-end'
            failures.append((i, key or tag, '%s: %s' % (tag, detail)))
    # ---- stage C
    lines = []
    for c in cases:
        files, main, strict = loadinc_line(c)
        lines.append((files, main, strict, resolve_table(c['files'], c['main'])))
    impl_out = fw.run_isolating([impl, 'LOADINC'], [sx.enc([f, m, s]) for f, m, s, r in lines], single_timeout=60)
    inclib.cleanup_tmp()
    mism = []
    if model_exe:
        mlines = []
        for (f, m, s, r), il in zip(lines, impl_out):
            ftab = []
            if il and not il.startswith('DIED'):
                a = sx.dec(il)
                # the float table is the third element from the end ( .. floattable a2mltable casedir )
                ftab = a[-3] if len(a) >= 4 and isinstance(a[-3], list) else []
            # loader::load hands the tokenizer the decoded text without a byte order mark
            fm = [[pth, t[3:] if bytes(t[:3]) == b'\xef\xbb\xbf' else t] for pth, t in f]
            mlines.append(sx.enc([fm, m, s, ftab, r]))
        mout = fw.run_sharded([model_exe], mlines)
        for i, (il, ml) in enumerate(zip(impl_out, mout)):
            d = compare_inc(il, ml)
            if d and cases[i]['kind'] in ('cycle', 'self') and ml and ml.startswith('( s4655454c'):
                # the model runs out of fuel (unbounded recursion); the library dies of stack overflow or, for cycles through
                # "../", stops when the path outgrows the limit of the operating system: no normal termination on either side
                d = None
            if d:
                mism.append((i, d))

    v.coverage.update({
        'evaluations': len(cases), 'distinct_nontrivial': len(set(inclib.case_line(c) for c in cases if c['kind'] == 'split')),
        'rule': ('grammar-generated documents split at element boundaries into include files (1-3 levels, runs of children of MODULE '
                 'and of nested blocks, whole MODULEs, IF_DATA content, sub- and parent directories, quoted/unquoted names, / and \\\\ '
                 'separators, name reuse, files without trailing newline, CRLF), their fault variants (missing file, empty file, '
                 'self include, cycle, directory, missing directory) and %d hand-written file sets in both strictness modes; '
                 'non-trivial = distinct split' % len(inclib.special_cases())),
        'oracle_tally': dict(tally),
        'correspondence_mismatches': len(mism), 'traces_validated_against_impl': len(cases) - len(mism) if model_exe else 0,
        'oracle_failures': len(failures), 'oracle_failure_classes': dict(collections.Counter(f[1] for f in failures)),
        'samples': [dict((p, (t or '')[:200]) for p, t in list(cases[0]['files'].items())[:3])] if cases else [],
        'trusted_base': ['Coq kernel; extraction (ExtrOcamlBasic, ExtrOcamlString) and OCaml for the model run',
                         'the file system is an oracle table (includer, directive text) -> file, computed by checks/inclib.py with the rules of '
                         'loader::make_include_filename (relative to the including file, both separators); path normalisation, permissions, '
                         'symlinks and the fall-back to the working directory are outside the model',
                         'A2ML blocks with /include inside are compared on the implementation only',
                         'checks/inclib.py (splitter, flattener, oracle) and the harness kinds INCL / LOADINC'],
    })
    v.assumptions = ['equality is the library\'s == (layout and comments are not compared); the text of the save cycle over include files '
                     'is checked under C01 (include save cycle)']
    reported, seen = 0, set()
    for i, key, why in failures:
        if key in known:
            v.known(key, known[key])
            continue
        if key in seen or reported >= 3:
            continue
        seen.add(key)
        c = cases[i]
        v.violation('input', {'kind': 'INCL', 'files': {p: (t if isinstance(t, str) else (t or b'').decode('utf-8', 'replace')) for p, t in c['files'].items()},
                              'main': c['main'], 'strict': c['strict'], 'flat': c.get('flat'), 'label': c.get('label'), 'case_kind': c['kind'],
                              'a2ml': bool(c.get('a2ml')), 'expect': c.get('expect', 'equal'), 'names': list(c.get('names', ())),
                              'why': why, 'class': key, 'stage': 'W (oracle on the implementation)'})
        reported += 1
    if reported == 0:
        if not ok_p:
            v.violation('proof', {'stage': 'P', 'broken_obligation': p_info.get('failing'), 'problems': p_info.get('problems'),
                                  'forbidden_constructs': p_info.get('forbidden'), 'log_tail': p_info.get('log', '')}, no_input=True)
        if model_err:
            v.violation('model', {'stage': 'C', 'broken': 'model build', 'detail': model_err}, no_input=True)
        elif mism:
            i, d = mism[0]
            c = cases[i]
            v.violation('correspondence', {'stage': 'C', 'broken': 'include/parser/writer model against load + write (%d of %d cases differ)' % (len(mism), len(cases)),
                                           'first_difference': d, 'kind': 'INCL', 'label': c.get('label'),
                                           'files': {p: (t if isinstance(t, str) else (t or b'').decode('utf-8', 'replace')) for p, t in c['files'].items()},
                                           'main': c['main'], 'strict': c['strict'], 'flat': c.get('flat'), 'case_kind': c['kind']}, no_input=True)
    return v.finish('proof')


def replay(r):
    impl = fw.build_harness(release=False)
    if not r.get('files'):
        print('replay: no concrete input recorded; broken:', r.get('broken_obligation') or r.get('broken'))
        return 1
    case = dict(files=r['files'], main=r['main'], strict=r['strict'], flat=r.get('flat'), kind=r.get('case_kind', 'split'),
                expect=r.get('expect', 'equal'), label=r.get('label'), a2ml=bool(r.get('a2ml')), names=r.get('names', []))
    for p, t in sorted(r['files'].items()):
        print('--- %s\n%s' % (p, (t or '')[:1500]))
    a = inclib.run_incl([case], binary=impl)[0]
    probs = inclib.problems(case, a)
    for tag, detail in probs:
        print('VIOLATED [%s] %s' % (tag, detail))
    if r.get('first_difference'):
        print('model/implementation difference recorded:', r['first_difference'])
    return 1 if probs or r.get('first_difference') else 0
