#!/usr/bin/env python3
"""gen_sites.py -- writes /verif/ref/sites.json from the table below.

The table is the result of READING /repo/a2lfile/src/{checker,merge,cleanup*,module}.rs; the
experiment driver (/verif/ref/experiments.py) confirms every flag on the real
implementation and prints the disagreements.  Re-run this script after editing the table.
"""
import json
import sys

SPEC = '/verif/build/gen/spec_shipped.json'
OUT = '/verif/ref/sites.json'

NAMESPACES = {
    "OBJ": ["AxisPts", "Blob", "Characteristic", "Instance", "Measurement"],
    "CT": ["CompuTab", "CompuVtab", "CompuVtabRange"],
    "TD": ["TypedefAxis", "TypedefBlob", "TypedefCharacteristic", "TypedefMeasurement", "TypedefStructure"],
    "CM": ["CompuMethod"],
    "UNIT": ["Unit"],
    "RL": ["RecordLayout"],
    "FUNCTION": ["Function"],
    "GROUP": ["Group"],
    "FRAME": ["Frame"],
    "TR": ["Transformer"],
    "MS": ["MemorySegment"],
    "VC": ["VarCriterion"],
    "UR": ["UserRights"],
    "MODULE": ["Module"],
    "PROJECT": ["Project"],
    "SC": ["StructureComponent"],
    "VCVAL": ["VarCriterion.value_list"],
}
NAMESPACE_INFO = {
    "OBJ": {"scope": "module", "container": ["Module"], "merge": "rename",
            "doc": "Module::objects(): one shared namespace for AXIS_PTS, BLOB, CHARACTERISTIC, INSTANCE, MEASUREMENT"},
    "CT": {"scope": "module", "container": ["Module"], "merge": "rename",
           "doc": "Module::compu_tabs(): COMPU_TAB, COMPU_VTAB, COMPU_VTAB_RANGE share one namespace"},
    "TD": {"scope": "module", "container": ["Module"], "merge": "rename",
           "doc": "Module::typedefs(): the five TYPEDEF_* share one namespace"},
    "CM": {"scope": "module", "container": ["Module"], "merge": "rename", "doc": "COMPU_METHOD"},
    "UNIT": {"scope": "module", "container": ["Module"], "merge": "rename", "doc": "UNIT"},
    "RL": {"scope": "module", "container": ["Module"], "merge": "rename", "doc": "RECORD_LAYOUT"},
    "FUNCTION": {"scope": "module", "container": ["Module"], "merge": "by-name",
                 "doc": "FUNCTION; merge never renames: same-name functions are united (sub-function and measurement lists)"},
    "GROUP": {"scope": "module", "container": ["Module"], "merge": "by-name",
              "doc": "GROUP; merge never renames: same-name groups are united"},
    "FRAME": {"scope": "module", "container": ["Module"], "merge": "rename",
              "doc": "FRAME; renamed on conflict, nothing refers to a FRAME"},
    "TR": {"scope": "module", "container": ["Module"], "merge": "rename", "doc": "TRANSFORMER"},
    "MS": {"scope": "module", "container": ["Module", "ModPar"], "merge": "rename",
           "doc": "MEMORY_SEGMENT inside MOD_PAR; renamed only when both files have a MOD_PAR (otherwise B's MOD_PAR is moved as a whole)"},
    "VC": {"scope": "module", "container": ["Module", "VariantCoding"], "merge": "all-or-nothing",
           "doc": "VAR_CRITERION inside VARIANT_CODING; B's VARIANT_CODING is taken only if A has none, never renamed"},
    "UR": {"scope": "module", "container": ["Module"], "merge": "first-wins",
           "doc": "USER_RIGHTS user_level_id; B's block is dropped when A has the same id"},
    "MODULE": {"scope": "project", "container": ["Project"], "merge": "none", "doc": "MODULE name"},
    "PROJECT": {"scope": "file", "container": ["A2lFile"], "merge": "none", "doc": "PROJECT name"},
    "SC": {"scope": "local", "container": ["TypedefStructure"], "merge": "none",
           "doc": "STRUCTURE_COMPONENT names, local to their TYPEDEF_STRUCTURE; target of THIS.<name>"},
    "VCVAL": {"scope": "local", "container": ["VarCriterion"], "merge": "none",
              "doc": "the values enumerated by a VAR_CRITERION, local to that criterion"},
}
SPECIAL_NAMES = {
    "NO_COMPU_METHOD": "CM references; never looked up by check(); cleanup writes it into dangling conversion fields",
    "NO_INPUT_QUANTITY": "input_quantity fields (OBJ references); never looked up by check()",
    "NO_INVERSE_TRANSFORMER": "TRANSFORMER.inverse_transformer; never looked up by check()",
}

T, F, NA = True, False, None
CMS = ["NO_COMPU_METHOD"]
IQS = ["NO_INPUT_QUANTITY"]


def d(ns, notes=""):
    return dict(cls="def", ns=ns, notes=notes)


def free(notes):
    return dict(cls="free", notes=notes)


def r(ns, check, merge, cleanup, notes="", special=(), this=False, cst=None, ctt=None, by_parent=None):
    return dict(cls="ref", ns=ns, check=check, merge=merge, cleanup=cleanup, notes=notes,
                special=list(special), this=this, cst=cst, ctt=ctt, by_parent=by_parent or {})


USE, DROP, BOTH = "use", "drop-dangling", "use+drop-dangling"

TABLE = {
    ("ArPrototypeOf", "name"): r("FUNCTION", F, NA, USE,
        "AR_PROTOTYPE_OF names a FUNCTION.  Not looked at by check or merge.  cleanup: a use as long as the naming FUNCTION stays "
        "(since fix 65316af; before, the FUNCTION was deleted and the reference left dangling)."),
    ("AxisDescr", "input_quantity"): r("OBJ", T, T, None, special=IQS,
        cst="AXIS_DESCR[<idx>] of CHARACTERISTIC", ctt="MEASUREMENT",
        notes="source_type says CHARACTERISTIC also below a TYPEDEF_CHARACTERISTIC.  check() does not apply the THIS. convention here."),
    ("AxisDescr", "conversion"): r("CM", T, T, BOTH, special=CMS,
        cst="AXIS_DESCR[<idx>] of CHARACTERISTIC", ctt="COMPU_METHOD",
        by_parent={"TypedefCharacteristic": {"notes": "cleanup visits these AXIS_DESCRs since fix 54f2c07"}},
        notes="cleanup: a dangling name is replaced by NO_COMPU_METHOD"),
    ("AxisPts", "name"): d("OBJ"),
    ("AxisPts", "input_quantity"): r("OBJ", T, T, None, special=IQS, cst="AXIS_PTS", ctt="MEASUREMENT"),
    ("AxisPts", "deposit_record"): r("RL", T, T, USE, cst="AXIS_PTS", ctt="RECORD_LAYOUT"),
    ("AxisPts", "conversion"): r("CM", T, T, BOTH, special=CMS, cst="AXIS_PTS", ctt="COMPU_METHOD"),
    ("AxisPtsRef", "axis_points"): r("OBJ", T, T, None, this=True,
        cst="AXIS_DESCR[<idx>] of CHARACTERISTIC", ctt="AXIS_PTS",
        notes="THIS.: only when the AXIS_DESCR belongs to a TYPEDEF_CHARACTERISTIC that no INSTANCE names as type_ref AND that is the "
              "component_type of at least one STRUCTURE_COMPONENT; then the rest of the name must be a STRUCTURE_COMPONENT name of EVERY "
              "such TYPEDEF_STRUCTURE (target_type STRUCTURE_COMPONENT, target_name without the prefix).  In every other situation the "
              "whole text, prefix included, is looked up in Module::objects()."),
    ("Blob", "name"): d("OBJ"),
    ("Characteristic", "name"): d("OBJ"),
    ("Characteristic", "deposit"): r("RL", T, T, USE, cst="CHARACTERISTIC", ctt="RECORD_LAYOUT"),
    ("Characteristic", "conversion"): r("CM", T, T, BOTH, special=CMS, cst="CHARACTERISTIC", ctt="COMPU_METHOD"),
    ("CombinationStruct", "criterion_name"): r("VC", F, NA, None,
        "VAR_FORBIDDEN_COMB pairs (criterion, value); not looked at by any operation"),
    ("CombinationStruct", "criterion_value"): r("VCVAL", F, NA, None,
        "must be one of the value_list entries of the VAR_CRITERION named in the same pair; not looked at by any operation"),
    ("ComparisonQuantity", "name"): r("OBJ", T, T, None, cst="CHARACTERISTIC", ctt="MEASUREMENT",
        notes="merge: renamed since fix 6a4a709"),
    ("CompuMethod", "name"): d("CM"),
    ("CompuTab", "name"): d("CT"),
    ("CompuTabRef", "conversion_table"): r("CT", T, T, BOTH, cst="COMPU_METHOD", ctt="COMPU_TAB",
        notes="cleanup: a dangling COMPU_TAB_REF element is removed from its COMPU_METHOD"),
    ("CompuVtab", "name"): d("CT"),
    ("CompuVtabRange", "name"): d("CT"),
    ("Conversion", "name"): r("CM", F, T, USE,
        "OVERWRITE/CONVERSION of an INSTANCE.  Not checked; merge: renamed since fix e91c327; cleanup: a use since fix 214b95b.  "
        "NO_COMPU_METHOD would be legal by the standard but no code looks at the field."),
    ("CurveAxisRef", "curve_axis"): r("OBJ", T, T, None, this=True,
        cst="AXIS_DESCR[<idx>] of CHARACTERISTIC", ctt="CHARACTERISTIC", notes="THIS.: as AxisPtsRef.axis_points"),
    ("DefCharacteristic", "identifier_list"): r("OBJ", T, T, DROP, cst="DEF_CHARACTERISTIC", ctt="CHARACTERISTIC",
        notes="check: source_name is the missing identifier itself (check_reference_list)"),
    ("DependentCharacteristic", "characteristic_list"): r("OBJ", T, T, None, cst="DEPENDENT_CHARACTERISTIC", ctt="CHARACTERISTIC"),
    ("DisplayIdentifier", "display_name"): free("alternative display name, no namespace"),
    ("Frame", "name"): d("FRAME"),
    ("FrameMeasurement", "identifier_list"): r("OBJ", F, T, None, "not checked by check()"),
    ("Function", "name"): d("FUNCTION"),
    ("FunctionList", "name_list"): r("FUNCTION", T, NA, BOTH, cst="FUNCTION_LIST", ctt="FUNCTION",
        notes="cleanup: entries naming no FUNCTION are removed (the FUNCTION_LIST element stays, possibly empty); a FUNCTION named "
              "here is never deleted.  Order in cleanup: groups first, so a FUNCTION used only by the FUNCTION_LIST of a GROUP that "
              "is deleted as empty loses that use."),
    ("Group", "name"): d("GROUP"),
    ("InMeasurement", "identifier_list"): r("OBJ", T, T, DROP, cst="IN_MEASUREMENT", ctt="MEASUREMENT"),
    ("InputQuantity", "name"): r("OBJ", F, T, None,
        "OVERWRITE/INPUT_QUANTITY of an INSTANCE.  Not checked; merge: renamed since fix 6a4a709."),
    ("Instance", "name"): d("OBJ"),
    ("Instance", "type_ref"): r("TD", T, T, None, cst="INSTANCE", ctt="TYPEDEF_<x>",
        notes="merge: renamed since fix a11830e"),
    ("LocMeasurement", "identifier_list"): r("OBJ", T, T, DROP, cst="LOC_MEASUREMENT", ctt="MEASUREMENT"),
    ("MapList", "name_list"): r("OBJ", T, T, None, cst="MAP_LIST", ctt="CHARACTERISTIC",
        notes="merge: renamed since fix 6a4a709"),
    ("Measurement", "name"): d("OBJ"),
    ("Measurement", "conversion"): r("CM", T, T, BOTH, special=CMS, cst="MEASUREMENT", ctt="COMPU_METHOD"),
    ("MemorySegment", "name"): d("MS"),
    ("Module", "name"): d("MODULE"),
    ("OutMeasurement", "identifier_list"): r("OBJ", T, T, DROP, cst="OUT_MEASUREMENT", ctt="MEASUREMENT"),
    ("Overwrite", "name"): free("key of INSTANCE.overwrite; names an element of the instantiated type (axis / component), no module-level "
                                "namespace; no operation looks at it"),
    ("Project", "name"): d("PROJECT"),
    ("ProjectNo", "project_number"): free("project number written as an identifier"),
    ("RecordLayout", "name"): d("RL"),
    ("RefCharacteristic", "identifier_list"): r("OBJ", T, T, DROP, cst="REF_CHARACTERISTIC", ctt="CHARACTERISTIC",
        by_parent={"Group": {"notes": "DEFECT (cleanup): groups.rs build_refname_set omits AXIS_PTS, so an entry that names an existing "
                                      "AXIS_PTS is removed (check() accepts it: it uses Module::objects()); the GROUP may become empty and "
                                      "be deleted.  An empty list removes the REF_CHARACTERISTIC element."},
                   "Function": {"notes": "cleanup drops entries not in Module::objects(); the emptied element stays"}}),
    ("RefGroup", "identifier_list"): r("GROUP", F, NA, USE,
        "USER_RIGHTS/REF_GROUP: not checked; a GROUP named here is never deleted by cleanup; dangling entries are kept"),
    ("RefMeasurement", "identifier_list"): r("OBJ", T, T, DROP, cst="REF_MEASUREMENT", ctt="MEASUREMENT",
        notes="cleanup keeps names of CHARACTERISTIC, MEASUREMENT, BLOB, INSTANCE (not AXIS_PTS); an emptied element is removed"),
    ("RefMemorySegment", "name"): r("MS", T, T, None, cst="REF_MEMORY_SEGMENT", ctt="MEMORY_SEGMENT",
        notes="check: source_name is the segment name, not the owner.  merge: renamed only when both modules have MOD_PAR"),
    ("RefUnit", "unit"): r("UNIT", T, T, BOTH, cst="COMPU_METHOD", ctt="UNIT",
        by_parent={"Unit": {"check": F, "cleanup": USE,
                            "notes": "UNIT/REF_UNIT: not checked; merge: renamed since fix 425415f; cleanup: a use when the referring UNIT "
                                     "is itself in use (followed from the COMPU_METHODs, fix c51b7f6)"}},
        notes="cleanup: a dangling REF_UNIT element of a COMPU_METHOD is removed"),
    ("SRecLayout", "name"): r("RL", F, T, USE, "MOD_COMMON/S_REC_LAYOUT (deprecated after 1.60); not checked"),
    ("StatusStringRef", "conversion_table"): r("CT", T, T, USE, cst="COMPU_METHOD", ctt="COMPU_VTAB",
        notes="cleanup: a use since fix f5c00e2; a dangling STATUS_STRING_REF is kept"),
    ("StructureComponent", "name"): d("SC"),
    ("StructureComponent", "component_type"): r("TD", T, T, None,
        cst="STRUCTURE_COMPONENT <component> of TYPEDEF_STRUCTURE", ctt="TYPEDEF_<x>"),
    ("SubFunction", "identifier_list"): r("FUNCTION", T, NA, DROP, cst="SUB_FUNCTION", ctt="FUNCTION",
        notes="cleanup: not a use (an empty FUNCTION referenced only as sub-function is deleted and the entry removed)"),
    ("SubGroup", "identifier_list"): r("GROUP", T, NA, None, cst="SUB_GROUP", ctt="GROUP",
        notes="check reports a missing sub-group twice (check_group: SUB_GROUP/GROUP, check_group_structure: GROUP <parent>/GROUP).  "
              "cleanup: not a use (an empty GROUP referenced only as sub-group is deleted and the entry removed); entries naming no "
              "GROUP at all are kept"),
    ("Transformer", "name"): d("TR"),
    ("Transformer", "inverse_transformer"): r("TR", T, T, None, special=["NO_INVERSE_TRANSFORMER"],
        cst="TRANSFORMER", ctt="inverse TRANSFORMER"),
    ("TransformerInObjects", "identifier_list"): r("OBJ", T, T, None, cst="TRANSFORMER_IN_OBJECTS", ctt="CHARACTERISTIC"),
    ("TransformerOutObjects", "identifier_list"): r("OBJ", T, T, None, cst="TRANSFORMER_OUT_OBJECTS", ctt="CHARACTERISTIC"),
    ("TypedefAxis", "name"): d("TD"),
    ("TypedefAxis", "input_quantity"): r("OBJ", T, T, None, special=IQS, cst="TYPEDEF_AXIS", ctt="MEASUREMENT",
        notes="merge: renamed since fix 6a4a709"),
    ("TypedefAxis", "record_layout"): r("RL", T, T, USE, cst="TYPEDEF_AXIS", ctt="RECORD_LAYOUT"),
    ("TypedefAxis", "conversion"): r("CM", T, T, BOTH, special=CMS, cst="TYPEDEF_AXIS", ctt="COMPU_METHOD"),
    ("TypedefBlob", "name"): d("TD"),
    ("TypedefCharacteristic", "name"): d("TD"),
    ("TypedefCharacteristic", "record_layout"): r("RL", T, T, USE, cst="TYPEDEF_CHARACTERISTIC", ctt="RECORD_LAYOUT"),
    ("TypedefCharacteristic", "conversion"): r("CM", T, T, BOTH, special=CMS, cst="TYPEDEF_CHARACTERISTIC", ctt="COMPU_METHOD"),
    ("TypedefMeasurement", "name"): d("TD"),
    ("TypedefMeasurement", "conversion"): r("CM", T, T, BOTH, special=CMS, cst="TYPEDEF_MEASUREMENT", ctt="COMPU_METHOD"),
    ("TypedefStructure", "name"): d("TD"),
    ("Unit", "name"): d("UNIT"),
    ("UserRights", "user_level_id"): d("UR", "merge drops B's USER_RIGHTS when A has a block with the same id"),
    ("VarCharacteristic", "name"): r("OBJ", F, T, None,
        "names the CHARACTERISTIC / AXIS_PTS that has variants; at the same time the key of VARIANT_CODING.var_characteristic.  "
        "Not checked; merge: renamed since fix 5b75195"),
    ("VarCharacteristic", "criterion_name_list"): r("VC", F, NA, None,
        "names VAR_CRITERIONs.  Not checked.  merge: left alone since fix 5b75195 (before, the list was rewritten with the OBJECT rename table)"),
    ("VarCriterion", "name"): d("VC"),
    ("VarCriterion", "value_list"): d("VCVAL", "enumerates the values of the criterion"),
    ("VarMeasurement", "name"): r("OBJ", F, T, None, "not checked"),
    ("VarSelectionCharacteristic", "name"): r("OBJ", F, T, None, "not checked"),
    ("Virtual", "measuring_channel_list"): r("OBJ", F, T, None,
        "MEASUREMENT/VIRTUAL.  Not checked; merge: renamed since fix 6a4a709"),
    ("VirtualCharacteristic", "characteristic_list"): r("OBJ", T, T, None, cst="VIRTUAL_CHARACTERISTIC", ctt="CHARACTERISTIC",
        notes="merge: renamed since fix 6a4a709"),
}


# number of CrossReferenceErrors check() emits for ONE dangling reference at the site
CHECK_REPORTS = {("SubGroup", "identifier_list"): 2}


def parents(types):
    p = {}
    for n, t in types.items():
        for it in t['items']:
            if 'tagged' in it:
                for x in it['items']:
                    p.setdefault(x['type'], set()).add(n)
            else:
                ty = it['ty']
                if ty['k'] == 'struct':
                    p.setdefault(ty['name'], set()).add(n)
                elif ty['k'] in ('seq', 'array') and ty['item']['k'] == 'struct':
                    p.setdefault(ty['item']['name'], set()).add(n)
    return p


def main():
    types = json.load(open(SPEC))['types']
    par = parents(types)
    sites = []
    seen = set()
    for n in sorted(types):
        for it in types[n]['items']:
            if 'ty' not in it:
                continue
            ty = it['ty']
            lst = ty['k'] in ('seq', 'array') and ty['item']['k'] == 'ident'
            if not (ty['k'] == 'ident' or lst):
                continue
            key = (n, it['name'])
            if key not in TABLE:
                sys.exit('unclassified: %s.%s' % key)
            seen.add(key)
            e = TABLE[key]
            ent = {"holder": n, "field": it['name'], "list": lst, "class": e['cls'],
                   "holders_under": sorted(par.get(n, [])), "notes": e.get('notes', '')}
            if e['cls'] in ('def', 'ref'):
                ent["ns"] = e['ns']
            if e['cls'] == 'ref':
                ent["special"] = e['special']
                ent["this_prefix"] = e['this']
                ent["check"] = e['check']
                if e['cst']:
                    ent["check_source_type"] = e['cst']
                    ent["check_target_type"] = e['ctt']
                ent["check_reports"] = CHECK_REPORTS.get(key, 1 if e['check'] else 0)
                ent["merge"] = e['merge']
                ent["cleanup"] = e['cleanup']
                if e['by_parent']:
                    ent["by_parent"] = e['by_parent']
            sites.append(ent)
    # outcomes of the experiment driver (experiments.py), when available
    try:
        summary = json.load(open('/verif/build/ref_experiments.json'))['v']['summary']
    except Exception:
        summary = {}
    for ent in sites:
        if ent['class'] != 'ref':
            continue
        exp = {}
        for par_t in ent['holders_under']:
            sm = summary.get('%s.%s@%s' % (ent['holder'], ent['field'], par_t))
            if sm:
                exp[par_t] = sm
        if exp:
            ent['experiment'] = exp
    extra = set(TABLE) - seen
    if extra:
        sys.exit('surplus table entries: %r' % sorted(extra))
    doc = {
        "legend": {
            "class": "def = the field is the name under which its holder is known in namespace ns; ref = the field (each entry of a list) "
                     "names a definition of namespace ns in the same MODULE; free = neither",
            "check": "true: check() reports CrossReferenceError{target_name = the missing name} when the target does not exist",
            "merge": "true: rewritten when merge_modules renames the target (X -> X.MERGE) in the merged-in module; false: left alone, i.e. "
                     "silently retargeted to the element of the same name of the destination; \"surplus\": rewritten with the rename table of "
                     "a different namespace; null: the target namespace is never renamed by merge (see namespace_info.merge)",
            "cleanup": "\"use\": a definition named here is kept by cleanup(); \"drop-dangling\": an entry / element naming no definition is "
                       "removed (or replaced by NO_COMPU_METHOD); \"use+drop-dangling\": both; null: cleanup does not look at the site",
            "by_parent": "overrides of the flags for the holder below that parent type",
            "this_prefix": "see the notes of AxisPtsRef.axis_points",
            "experiment": "per parent type, what /verif/ref/experiments.py observed on the real implementation: check = share "
                          "of single corrupted references that check() named; cleanup_dangling = share of those that cleanup() removed; "
                          "merge = outcome counts for a referrer of B whose target has a different twin in A (renamed / retargeted / "
                          "same-name(no rename in ns) / referrer-missing); cleanup_only_use = fate of a content-free helper referenced "
                          "only through this site (kept / DELETED / deleted-with-owner)",
        },
        "namespaces": NAMESPACES,
        "namespace_info": NAMESPACE_INFO,
        "special_names": SPECIAL_NAMES,
        "sites": sites,
    }
    with open(OUT, 'w') as f:
        json.dump(doc, f, indent=1, sort_keys=False)
        f.write('\n')
    print('%d sites (%d def, %d ref, %d free)' % (
        len(sites), sum(s['class'] == 'def' for s in sites), sum(s['class'] == 'ref' for s in sites),
        sum(s['class'] == 'free' for s in sites)))


if __name__ == '__main__':
    main()
