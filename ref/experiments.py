#!/usr/bin/env python3
"""experiments.py -- Task 3: confirm the flags of /verif/ref/sites.json on the real implementation.

    python3 experiments.py [a] [b] [c] [d] [h]      (default: all)   results -> results.json, tables on stdout
"""
import copy
import json
import random
import sys

sys.path.insert(0, '/verif')
sys.path.insert(0, '/verif/tools')
import docgen                                   # noqa: E402
from checks import docs, loadlib                # noqa: E402
from checks import reflib as R                  # noqa: E402

SITES = R.load_sites()
SPEC = docs.spec()
INST = R.ref_site_instances(SITES)              # (sid, holder, field, parent)
RESULTS = {}


def inst_key(sid, parent):
    return '%s@%s' % (sid, parent)


def render(node, rng):
    return docgen.render(node, rng, docgen.Layout(), SPEC)[0]


def inst_of(ref):
    return inst_key(ref.site, ref.parent_type)


def plain(ref):
    """a reference to a real definition (no special name, no THIS.)"""
    return ref.target not in ref.entry.get('special', []) and not ref.target.startswith('THIS.')


def gen_docs(seed, per_instance, single_module, sizes=('small', 'small', 'medium'), **kw):
    rng = random.Random(seed)
    out = []
    for rep in range(per_instance):
        for sid, holder, field, parent in INST:
            node, text, refs = R.gen_consistent_doc(rng, sizes[rep % len(sizes)], SITES, focus=(holder, parent),
                                                    single_module=single_module, **kw)
            out.append((node, text, refs, inst_key(sid, parent)))
    return out


# ------------------------------------------------------------------------------------------------ (a)
def exp_a():
    print('== (a) consistent documents: CHECK reports no CrossReferenceError')
    docs_ = gen_docs(101, 4, False)
    rng = random.Random(102)
    for i in range(60):                           # plus documents with a random focus and mixed sizes
        node, text, refs = R.gen_consistent_doc(rng, rng.choice(['tiny', 'small', 'medium', 'large']), SITES)
        docs_.append((node, text, refs, None))
    bad_py = sum(1 for d in docs_ if R.dangling(d[0], SITES))
    res = R.run_cases('CHECK', [R.check_case(d[1]) for d in docs_])
    nok = nxref = 0
    other = {}
    samples = []
    cover = {}
    for (node, text, refs, focus), r in zip(docs_, res):
        for ref in refs:
            cover[inst_of(ref)] = cover.get(inst_of(ref), 0) + 1
        if r is None or r[0] != b'OK':
            samples.append(('not OK', R.sx.pretty(r)[:2] if r else None))
            continue
        nok += 1
        x = R.xref_errors(r[1])
        if x:
            nxref += 1
            samples.append((focus, x[:3]))
        for rep in r[1]:
            v = rep[0].decode()
            other[v] = other.get(v, 0) + 1
    missing = [inst_key(s, p) for s, h, f, p in INST if inst_key(s, p) not in cover]
    print('documents %d, loaded+checked %d, python oracle dangling in %d, documents with CrossReferenceError %d' % (
        len(docs_), nok, bad_py, nxref))
    print('report variants over all documents:', other)
    print('ref site instances never populated:', missing)
    for s in samples[:10]:
        print('  sample:', s)
    nmod = sum(len(R.tree_definitions(d[0], SITES)) for d in docs_)
    print('modules in total: %d, references in total: %d' % (nmod, sum(len(d[2]) for d in docs_)))
    RESULTS['a'] = {'documents': len(docs_), 'ok': nok, 'with_xref': nxref, 'python_dangling': bad_py,
                    'variants': other, 'unpopulated': missing, 'coverage': cover}
    return docs_


# ------------------------------------------------------------------------------------------------ (b)
def exp_b(docs_):
    print('== (b) one corrupted reference per document: does CHECK name the missing target?')
    rng = random.Random(201)
    cases = []
    per = {}
    for node, text, refs, focus in docs_:
        todo = {}
        for ref in refs:
            if plain(ref):
                todo.setdefault(inst_of(ref), []).append(ref)
        for k in sorted(todo):
            if per.get(k, 0) >= 4:
                continue
            ref = rng.choice(todo[k])
            bogus = 'zz_missing_%d' % len(cases)
            R.corrupt(node, ref, bogus)
            t = render(node, rng)
            R.restore(node, ref)
            cases.append((k, bogus, t, ref.path(), ref.index))
            per[k] = per.get(k, 0) + 1
    res = R.run_cases('CHECK', [R.check_case(c[2]) for c in cases])
    cres = R.run_cases('CLEANUP', [R.check_case(c[2]) for c in cases])
    table = {}
    for (k, bogus, t, path, index), r, c in zip(cases, res, cres):
        row = table.setdefault(k, {'n': 0, 'detected': 0, 'types': set(), 'other_errors': 0, 'cleanup_dropped': 0,
                                   'cleanup_n': 0, 'reports': 0})
        row['n'] += 1
        x = R.xref_errors(r[1]) if r and r[0] == b'OK' else []
        hit = [e for e in x if e[3] == bogus]
        if hit:
            row['detected'] += 1
            row['reports'] += len(hit)
            for e in hit:
                st = e[0]
                import re
                st = re.sub(r'\[\d+\]', '[<idx>]', st)
                if st.startswith('STRUCTURE_COMPONENT '):
                    st = 'STRUCTURE_COMPONENT <component> of TYPEDEF_STRUCTURE'
                row['types'].add((st, e[2]))
        row['other_errors'] += len(x) - len(hit)
        if c and c[0] == b'OK':
            row['cleanup_n'] += 1
            still = [d for d in R.references_in_dump(c[1], SITES) if d[2] == bogus]
            paths = set(x[0] for x in R.nodes_in_dump(c[1], SITES))
            if not still:
                if path in paths or path.rsplit('/', 1)[0] in paths:
                    row['cleanup_dropped'] += 1
                else:
                    row['holder_gone'] = row.get('holder_gone', 0) + 1
    print('%-46s %5s %8s %8s %6s  %s' % ('site@parent', 'n', 'detected', 'cl.drop', 'o.gone', 'source_type -> target_type'))
    out = {}
    for sid, h, f, p in INST:
        k = inst_key(sid, p)
        row = table.get(k)
        if not row:
            print('%-46s   no case' % k)
            continue
        types = sorted(row['types'])
        print('%-46s %5d %8d %8d %6d  %s%s' % (k, row['n'], row['detected'], row['cleanup_dropped'], row.get('holder_gone', 0),
                                         '; '.join('%s -> %s' % t for t in types),
                                         '  (x%d reports)' % row['reports'] if row['reports'] > row['detected'] else ''))
        out[k] = {'n': row['n'], 'detected': row['detected'], 'types': types, 'cleanup_dropped': row['cleanup_dropped'],
                  'cleanup_n': row['cleanup_n'], 'holder_gone': row.get('holder_gone', 0), 'collateral_errors': row['other_errors'], 'reports': row['reports']}
    RESULTS['b'] = out


# ------------------------------------------------------------------------------------------------ (c)
def find_def(node, ns, name):
    for nm, t, el in R.tree_definitions(node, SITES)[0].get(ns, []):
        if nm == name:
            return el
    return None


def build_a(rng, node_b, ns, name):
    """destination file that holds only a same-name / different-content twin of B's definition"""
    el = find_def(node_b, ns, name)
    if el is None:
        return None
    a = R.minimal_doc(rng, node_b.version() or (1, 71))
    ix = R._index(SITES)
    cont = R._container(a, rng, R._modules(a)[0], ix, ns, True)
    if cont is None:
        return None
    twin = copy.deepcopy(el)
    try:
        how = R.mutate_content(a, rng, twin)
    except ValueError:
        return None
    R.insert_kid(a, rng, cont, twin)
    return a


def exp_c():
    print('== (c) merge: B refers to X, A has a different X -> referrer from B afterwards names ...')
    docs_ = gen_docs(301, 3, True, p_special=0.0, p_this=0.0)
    rng = random.Random(302)
    cases = []
    per = {}
    for node, text, refs, focus in docs_:
        todo = {}
        for ref in refs:
            own = ref.owner()
            if plain(ref) and not (own and own[1] == ref.target) and ref.entry['ns'] not in ('VCVAL',):
                todo.setdefault(inst_of(ref), []).append(ref)
        for k in sorted(todo):
            if per.get(k, 0) >= 3:
                continue
            ref = rng.choice(todo[k])
            a = build_a(rng, node, ref.entry['ns'], ref.target)
            if a is None:
                continue
            cases.append((k, ref.entry['ns'], ref.target, R.path_in_module(ref.path()), ref.index, render(a, rng), text))
            per[k] = per.get(k, 0) + 1
    res = R.run_cases('MERGE', [R.merge_case(c[5], c[6]) for c in cases])
    table = {}
    for (k, ns, target, pim, index, ta, tb), r in zip(cases, res):
        row = table.setdefault(k, {})
        if r is None or r[0] != b'OK':
            row['fail'] = row.get('fail', 0) + 1
            continue
        defs = R.definitions_in_dump(r[1], SITES).get(0, {}).get(ns, {})
        renamed_exists = (target + '.MERGE') in defs
        found = [d for d in R.references_in_dump(r[1], SITES, detail=True)
                 if d[0] == k.split('@')[0] and R.path_in_module(d[1]) == pim and d[4] == index]
        if not found:
            out = 'referrer-missing'
        elif found[0][2] == target + '.MERGE':
            out = 'renamed'
        elif found[0][2] == target:
            out = 'retargeted' if renamed_exists else 'same-name(no rename in ns)'
        else:
            out = 'other:' + found[0][2]
        row[out] = row.get(out, 0) + 1
        xe = [e for e in R.xref_errors(r[2])]
        if xe:
            row['xref_after'] = row.get('xref_after', 0) + 1
    print('%-46s %s' % ('site@parent', 'outcome counts'))
    for sid, h, f, p in INST:
        k = inst_key(sid, p)
        print('%-46s %s' % (k, json.dumps(table.get(k, {}), sort_keys=True)))
    RESULTS['c'] = table


# ------------------------------------------------------------------------------------------------ (d)
PRUNED = ('GROUP', 'FUNCTION', 'CM', 'CT', 'UNIT', 'RL')


def exp_d(docs_a):
    print('== (d) cleanup')
    rng = random.Random(401)
    ix = R._index(SITES)
    docs_ = gen_docs(402, 3, False, p_special=0.0, p_this=0.0)
    cases = []
    per = {}
    for node, text, refs, focus in docs_:
        todo = {}
        for ref in refs:
            if plain(ref) and ref.entry['ns'] in PRUNED:
                todo.setdefault(inst_of(ref), []).append(ref)
        for k in sorted(todo):
            if per.get(k, 0) >= 3:
                continue
            ref = rng.choice(todo[k])
            ns = ref.entry['ns']
            old = find_in_module(ref.module, ns, ref.target, ix)
            if old is None:
                continue
            work = copy.deepcopy((node, ref))          # keep the pool document intact
            wnode, wref = work
            helper_name = 'only_here_%d' % len(cases)
            cont = R._container(wnode, rng, wref.module, ix, ns, True)
            helper = R.new_element(wnode, rng, old.type, cont.type, name=helper_name)
            if helper is None:
                continue
            R.insert_kid(wnode, rng, cont, helper)
            # SUB_GROUP / SUB_FUNCTION: keep the forest / DAG shape irrelevant here, only existence matters
            R.corrupt(wnode, wref, helper_name)
            if R.dangling(wnode, SITES):
                continue
            own = wref.owner()
            cases.append((k, ns, helper_name, wref.module_index, render(wnode, rng),
                          (ix.def_field[own[0]][0], own[1]) if own else None))
            per[k] = per.get(k, 0) + 1
    res = R.run_cases('CLEANUP', [R.check_case(c[4]) for c in cases])
    table = {}
    for (k, ns, helper, mi, text, own), r in zip(cases, res):
        row = table.setdefault(k, {})
        if r is None or r[0] != b'OK':
            row['fail'] = row.get('fail', 0) + 1
            continue
        alld = R.definitions_in_dump(r[1], SITES).get(mi, {})
        defs = alld.get(ns, {})
        owner_alive = own is None or own[1] in alld.get(own[0], {})
        out = 'kept' if helper in defs else ('DELETED' if owner_alive else 'deleted-with-owner')
        row[out] = row.get(out, 0) + 1
        before, after = set(R.xref_errors(r[2])), set(R.xref_errors(r[3]))
        if after - before:
            row['new_xref'] = row.get('new_xref', 0) + 1
        if not r[4]:
            row['not_idempotent'] = row.get('not_idempotent', 0) + 1
    print('helper referenced ONLY through the site (helper has no content of its own):')
    for sid, h, f, p in INST:
        k = inst_key(sid, p)
        e = R.site_flags(SITES, h, f, p)
        if e['ns'] in PRUNED:
            print('%-46s %-6s %s' % (k, e['ns'], json.dumps(table.get(k, {}), sort_keys=True)))
    RESULTS['d_sites'] = table

    # global properties on the consistent documents of (a) and of this section
    pool = [(d[0], d[1]) for d in docs_a] + [(d[0], d[1]) for d in docs_]
    loads = R.run_cases('LOAD', [R.load_case(t) for _n, t in pool])
    cleans = R.run_cases('CLEANUP', [R.check_case(t) for _n, t in pool])
    stats = {'docs': 0, 'not_idempotent': 0, 'objtd_removed': 0, 'objtd_changed': 0, 'new_xref_docs': 0, 'fail': 0}
    samples = {'not_idempotent': [], 'new_xref': [], 'changed': []}
    for (node, text), l, c in zip(pool, loads, cleans):
        if not l or not c or l[0] != b'OK' or c[0] != b'OK':
            stats['fail'] += 1
            continue
        stats['docs'] += 1
        if not c[4]:
            stats['not_idempotent'] += 1
            samples['not_idempotent'].append(text)
        before, after = set(R.xref_errors(c[2])), set(R.xref_errors(c[3]))
        if after - before:
            stats['new_xref_docs'] += 1
            samples['new_xref'].append((sorted(after - before)[:3], text))
        d0 = R.definitions_in_dump(l[1], SITES, with_nodes=True)
        d1 = R.definitions_in_dump(c[1], SITES, with_nodes=True)
        for mi in d0:
            for ns in ('OBJ', 'TD'):
                for name, (t, n0) in d0[mi].get(ns, {}).items():
                    got = d1.get(mi, {}).get(ns, {}).get(name)
                    if got is None:
                        stats['objtd_removed'] += 1
                    else:
                        diff = loadlib.veq(n0, got[1])
                        if diff:
                            stats['objtd_changed'] += 1
                            samples['changed'].append((name, diff))
    kinds = {}
    for errs, _t in samples['new_xref']:
        pass
    for (node, text), l, c in zip(pool, loads, cleans):
        if c and c[0] == b'OK':
            for e in set(R.xref_errors(c[3])) - set(R.xref_errors(c[2])):
                import re
                kk = '%s -> %s' % (re.sub(r'\[\d+\]', '[<idx>]', e[0]), e[2])
                if e[0].startswith('AXIS_DESCR'):
                    tds = set()
                    for m in R.definitions_in_dump(c[1], SITES).values():
                        tds.update(m.get('TD', {}))
                    kk += ' (owner is a TYPEDEF_CHARACTERISTIC)' if e[1] in tds else ' (owner is a CHARACTERISTIC)'
                kinds[kk] = kinds.get(kk, 0) + 1
    print('new CrossReferenceErrors after cleanup by kind:', kinds)
    stats['new_xref_kinds'] = kinds
    # non-idempotence: is UNIT/REF_UNIT the only cause?  remove those elements and try again
    redo = []
    for (node, text), c in zip(pool, cleans):
        if c and c[0] == b'OK' and not c[4]:
            n2 = copy.deepcopy(node)
            for u, _p in n2.walk():
                if u.type == 'Unit':
                    u.kids = [k for k in u.kids if k.type != 'RefUnit']
            redo.append(render(n2, rng))
    r2 = R.run_cases('CLEANUP', [R.check_case(t) for t in redo])
    still = [t for t, r in zip(redo, r2) if r and r[0] == b'OK' and not r[4]]
    print('non-idempotent documents: %d; still non-idempotent without UNIT/REF_UNIT: %d' % (len(redo), len(still)))
    stats['not_idempotent_without_unit_refunit'] = len(still)
    for t in still[:2]:
        print('  STILL NON-IDEMPOTENT:', t[:3000])
    print('global: ', stats)
    for k, v in samples.items():
        for s in v[:2]:
            print('  sample %s: %s' % (k, (s if not isinstance(s, str) else s[:300])))
    RESULTS['d_global'] = stats
    RESULTS['d_samples'] = {k: [list(x) if isinstance(x, tuple) else x for x in v[:3]] for k, v in samples.items()}


def find_in_module(module, ns, name, ix):
    for el in R._module_defs(ix, module).get(ns, []):
        if el.fields[0].text == name:
            return el
    return None


# ------------------------------------------------------------------------------------------------ (h)
HEAD = 'ASAP2_VERSION 1 71\n/begin PROJECT p "" /begin MODULE m ""\n'
TAIL = '/end MODULE /end PROJECT\n'
RL = '/begin RECORD_LAYOUT rl FNC_VALUES 1 FLOAT32_IEEE ROW_DIR DIRECT AXIS_PTS_X 2 FLOAT32_IEEE INDEX_INCR DIRECT /end RECORD_LAYOUT\n'

HAND = {
    'cleanup_cm_only_via_typedef_axis_descr': ('CLEANUP', HEAD + RL +
        '/begin TYPEDEF_CHARACTERISTIC tc "" CURVE rl 0 NO_COMPU_METHOD 0 1\n'
        '  /begin AXIS_DESCR STD_AXIS NO_INPUT_QUANTITY cm 1 0 100 /end AXIS_DESCR\n'
        '/end TYPEDEF_CHARACTERISTIC\n'
        '/begin COMPU_METHOD cm "" IDENTICAL "%4.2" "" /end COMPU_METHOD\n' + TAIL),
    'cleanup_vtab_only_via_status_string_ref': ('CLEANUP', HEAD +
        '/begin MEASUREMENT me "" FLOAT32_IEEE cm 1 1.0 0 100 /end MEASUREMENT\n'
        '/begin COMPU_METHOD cm "" IDENTICAL "%4.2" "" STATUS_STRING_REF vt /end COMPU_METHOD\n'
        '/begin COMPU_VTAB vt "" TAB_VERB 1 1 "one" /end COMPU_VTAB\n' + TAIL),
    'cleanup_group_ref_characteristic_axis_pts': ('CLEANUP', HEAD + RL +
        '/begin AXIS_PTS ap "" 0x10 NO_INPUT_QUANTITY rl 0 NO_COMPU_METHOD 3 0.0 10.0 /end AXIS_PTS\n'
        '/begin GROUP g "" ROOT /begin REF_CHARACTERISTIC ap /end REF_CHARACTERISTIC /end GROUP\n' + TAIL),
    'cleanup_unit_chain_not_idempotent': ('CLEANUP', HEAD +
        '/begin UNIT u1 "" "" DERIVED REF_UNIT u2 /end UNIT\n'
        '/begin UNIT u2 "" "" DERIVED /end UNIT\n' + TAIL),
    'cleanup_unit_dangling_ref_unit_kept': ('CLEANUP', HEAD +
        '/begin MEASUREMENT me "" FLOAT32_IEEE cm 1 1.0 0 100 /end MEASUREMENT\n'
        '/begin COMPU_METHOD cm "" IDENTICAL "%4.2" "" REF_UNIT u1 /end COMPU_METHOD\n'
        '/begin UNIT u1 "" "" DERIVED REF_UNIT nounit /end UNIT\n' + TAIL),
    'cleanup_cm_only_via_overwrite_conversion': ('CLEANUP', HEAD +
        '/begin TYPEDEF_MEASUREMENT tm "" UBYTE NO_COMPU_METHOD 1 1 0 100 /end TYPEDEF_MEASUREMENT\n'
        '/begin INSTANCE i "" tm 0x10 /begin OVERWRITE THIS 0 CONVERSION cm /end OVERWRITE /end INSTANCE\n'
        '/begin COMPU_METHOD cm "" IDENTICAL "%4.2" "" /end COMPU_METHOD\n' + TAIL),
    'cleanup_function_only_via_ar_prototype_of': ('CLEANUP', HEAD +
        '/begin MEASUREMENT me "" FLOAT32_IEEE NO_COMPU_METHOD 1 1.0 0 100 /begin FUNCTION_LIST f1 /end FUNCTION_LIST /end MEASUREMENT\n'
        '/begin FUNCTION f1 "" /begin AR_COMPONENT "x" AR_PROTOTYPE_OF f2 /end AR_COMPONENT /end FUNCTION\n'
        '/begin FUNCTION f2 "" /end FUNCTION\n' + TAIL),
    'check_subgroup_missing_reported_twice': ('CHECK', HEAD +
        '/begin GROUP g "" ROOT /begin SUB_GROUP nogroup /end SUB_GROUP /end GROUP\n' + TAIL),
    'check_unit_ref_unit_not_checked': ('CHECK', HEAD +
        '/begin UNIT u1 "" "" DERIVED REF_UNIT nounit /end UNIT\n' + TAIL),
    'check_this_valid': ('CHECK', HEAD + RL +
        '/begin TYPEDEF_CHARACTERISTIC tc "" CURVE rl 0 NO_COMPU_METHOD 0 1\n'
        '  /begin AXIS_DESCR COM_AXIS NO_INPUT_QUANTITY NO_COMPU_METHOD 1 0 100 AXIS_PTS_REF THIS.ax /end AXIS_DESCR\n'
        '/end TYPEDEF_CHARACTERISTIC\n'
        '/begin TYPEDEF_AXIS ta "" NO_INPUT_QUANTITY rl 0 NO_COMPU_METHOD 3 0 10 /end TYPEDEF_AXIS\n'
        '/begin TYPEDEF_STRUCTURE ts "" 8\n'
        '  /begin STRUCTURE_COMPONENT ax ta 0 /end STRUCTURE_COMPONENT\n'
        '  /begin STRUCTURE_COMPONENT cu tc 4 /end STRUCTURE_COMPONENT\n'
        '/end TYPEDEF_STRUCTURE\n' + TAIL),
    'check_this_invalid_component': ('CHECK', HEAD + RL +
        '/begin TYPEDEF_CHARACTERISTIC tc "" CURVE rl 0 NO_COMPU_METHOD 0 1\n'
        '  /begin AXIS_DESCR COM_AXIS NO_INPUT_QUANTITY NO_COMPU_METHOD 1 0 100 AXIS_PTS_REF THIS.nocomp /end AXIS_DESCR\n'
        '/end TYPEDEF_CHARACTERISTIC\n'
        '/begin TYPEDEF_AXIS ta "" NO_INPUT_QUANTITY rl 0 NO_COMPU_METHOD 3 0 10 /end TYPEDEF_AXIS\n'
        '/begin TYPEDEF_STRUCTURE ts "" 8\n'
        '  /begin STRUCTURE_COMPONENT ax ta 0 /end STRUCTURE_COMPONENT\n'
        '  /begin STRUCTURE_COMPONENT cu tc 4 /end STRUCTURE_COMPONENT\n'
        '/end TYPEDEF_STRUCTURE\n' + TAIL),
    'check_this_typedef_also_directly_instantiated': ('CHECK', HEAD + RL +
        '/begin TYPEDEF_CHARACTERISTIC tc "" CURVE rl 0 NO_COMPU_METHOD 0 1\n'
        '  /begin AXIS_DESCR COM_AXIS NO_INPUT_QUANTITY NO_COMPU_METHOD 1 0 100 AXIS_PTS_REF THIS.ax /end AXIS_DESCR\n'
        '/end TYPEDEF_CHARACTERISTIC\n'
        '/begin TYPEDEF_AXIS ta "" NO_INPUT_QUANTITY rl 0 NO_COMPU_METHOD 3 0 10 /end TYPEDEF_AXIS\n'
        '/begin TYPEDEF_STRUCTURE ts "" 8\n'
        '  /begin STRUCTURE_COMPONENT ax ta 0 /end STRUCTURE_COMPONENT\n'
        '  /begin STRUCTURE_COMPONENT cu tc 4 /end STRUCTURE_COMPONENT\n'
        '/end TYPEDEF_STRUCTURE\n'
        '/begin INSTANCE i1 "" ts 0x100 /end INSTANCE\n'
        '/begin INSTANCE i2 "" tc 0x200 /end INSTANCE\n' + TAIL),
    'check_this_in_characteristic': ('CHECK', HEAD + RL +
        '/begin CHARACTERISTIC c "" CURVE 0x10 rl 0 NO_COMPU_METHOD 0 1\n'
        '  /begin AXIS_DESCR COM_AXIS NO_INPUT_QUANTITY NO_COMPU_METHOD 1 0 100 AXIS_PTS_REF THIS.ax /end AXIS_DESCR\n'
        '/end CHARACTERISTIC\n' + TAIL),
}

MERGE_HAND = {
    'merge_surplus_criterion_name_list': (
        HEAD + '/begin MEASUREMENT x "A" UBYTE NO_COMPU_METHOD 1 1 0 100 /end MEASUREMENT\n' + TAIL,
        HEAD + '/begin MEASUREMENT x "B" UBYTE NO_COMPU_METHOD 1 1 0 100 /end MEASUREMENT\n' + RL +
        '/begin CHARACTERISTIC c "" VALUE 0x10 rl 0 NO_COMPU_METHOD 0 1 /end CHARACTERISTIC\n'
        '/begin VARIANT_CODING\n'
        '  /begin VAR_CRITERION x "" v1 v2 /end VAR_CRITERION\n'
        '  /begin VAR_CHARACTERISTIC c x /end VAR_CHARACTERISTIC\n'
        '/end VARIANT_CODING\n' + TAIL),
    'merge_instance_type_ref_not_renamed': (
        HEAD + '/begin TYPEDEF_MEASUREMENT tm "A" UBYTE NO_COMPU_METHOD 1 1 0 100 /end TYPEDEF_MEASUREMENT\n' + TAIL,
        HEAD + '/begin TYPEDEF_MEASUREMENT tm "B" UWORD NO_COMPU_METHOD 1 1 0 100 /end TYPEDEF_MEASUREMENT\n'
        '/begin INSTANCE i "" tm 0x10 /end INSTANCE\n' + TAIL),
    'merge_unit_ref_unit_not_renamed': (
        HEAD + '/begin UNIT u "A" "" DERIVED /end UNIT\n' + TAIL,
        HEAD + '/begin UNIT u "B" "" DERIVED /end UNIT\n/begin UNIT w "" "" DERIVED REF_UNIT u /end UNIT\n' + TAIL),
}


def exp_h():
    print('== (h) hand-written reproductions')
    out = {}
    for name in sorted(HAND):
        kind, text = HAND[name]
        r = R.run_cases(kind, [R.check_case(text)])[0]
        if r is None or r[0] != b'OK':
            print(name, 'FAILED', R.sx.pretty(r) if r else None)
            continue
        if kind == 'CHECK':
            rep = [tuple(R.sx.pretty(x)[:5]) for x in r[1]]
            print('%s: %d reports %s' % (name, len(rep), rep))
            out[name] = [list(x) for x in rep]
        else:
            defs = R.definitions_in_dump(r[1], SITES).get(0, {})
            refs = [(d[0], d[2]) for d in R.references_in_dump(r[1], SITES)]
            before, after = R.xref_errors(r[2]), R.xref_errors(r[3])
            print('%s:\n    definitions after: %s\n    references after: %s\n    xref before %s\n    xref after %s\n    idempotent %s' % (
                name, {k: sorted(v) for k, v in defs.items()}, refs, before, after, bool(r[4])))
            out[name] = {'defs': {k: sorted(v) for k, v in defs.items()}, 'refs': refs, 'xref_before': before,
                         'xref_after': after, 'idempotent': bool(r[4])}
    for name in sorted(MERGE_HAND):
        a, b = MERGE_HAND[name]
        r = R.run_cases('MERGE', [R.merge_case(a, b)])[0]
        if r is None or r[0] != b'OK':
            print(name, 'FAILED', R.sx.pretty(r) if r else None)
            continue
        defs = R.definitions_in_dump(r[1], SITES).get(0, {})
        refs = [(d[0], R.path_in_module(d[1]), d[2]) for d in R.references_in_dump(r[1], SITES)]
        print('%s:\n    definitions after: %s\n    references after: %s\n    xref after: %s' % (
            name, {k: sorted(v) for k, v in defs.items()}, refs, R.xref_errors(r[2])))
        out[name] = {'defs': {k: sorted(v) for k, v in defs.items()}, 'refs': refs, 'xref_after': R.xref_errors(r[2])}
    RESULTS['h'] = out


def exp_v():
    """compare the flags of sites.json with the outcomes of (b), (c), (d)"""
    print('== (v) flags of sites.json versus experiment')
    dis = []
    summary = {}
    for sid, h, f, p in INST:
        k = inst_key(sid, p)
        e = R.site_flags(SITES, h, f, p)
        b = RESULTS.get('b', {}).get(k)
        c = RESULTS.get('c', {}).get(k)
        d = RESULTS.get('d_sites', {}).get(k)
        summ = {}
        if b:
            summ['check'] = '%d/%d corrupted references reported' % (b['detected'], b['n'])
            exp = True if b['detected'] == b['n'] else False if b['detected'] == 0 else 'partial'
            if exp != e['check']:
                dis.append((k, 'check', e['check'], exp))
            if e['check'] and e.get('check_source_type'):
                want = (e['check_source_type'], e['check_target_type'])
                if want not in [tuple(t) for t in b['types']]:
                    dis.append((k, 'check types', want, b['types']))
            valid = b['cleanup_n'] - b.get('holder_gone', 0)
            summ['cleanup_dangling'] = '%d/%d dangling references removed (owner deleted in %d more)' % (
                b['cleanup_dropped'], valid, b.get('holder_gone', 0))
            if valid:
                exp = b['cleanup_dropped'] == valid
                flag = 'drop-dangling' in (e['cleanup'] or '')
                if exp != flag or (0 < b['cleanup_dropped'] < valid):
                    dis.append((k, 'cleanup drop-dangling', flag, '%d/%d' % (b['cleanup_dropped'], valid)))
        if c is not None:
            summ['merge'] = dict(c)
            cc = {x: n for x, n in c.items() if x != 'xref_after'}
            if set(cc) == {'renamed'}:
                exp = True
            elif set(cc) == {'retargeted'}:
                exp = False
            elif set(cc) <= {'same-name(no rename in ns)', 'referrer-missing'}:
                exp = None
            else:
                exp = 'mixed'
            flag = None if e['merge'] == 'surplus' else e['merge']
            if cc and exp != flag:
                dis.append((k, 'merge', e['merge'], cc))
        if d is not None and e['ns'] in PRUNED:
            summ['cleanup_only_use'] = dict(d)
            kept, deleted = d.get('kept', 0), d.get('DELETED', 0)
            flag = 'use' in (e['cleanup'] or '')
            if kept + deleted:
                exp = kept > 0 and deleted == 0
                if exp != flag or (kept and deleted):
                    dis.append((k, 'cleanup use', flag, d))
        summary[k] = summ
    print('disagreements between sites.json and experiment: %d' % len(dis))
    for x in dis:
        print('  ', x)
    RESULTS['v'] = {'disagreements': dis, 'summary': summary}


def main():
    which = sys.argv[1:] or ['a', 'b', 'c', 'd', 'h', 'v']
    docs_a = None
    if set(which) & set('abd'):
        docs_a = exp_a()
    if 'b' in which:
        exp_b(docs_a)
    if 'c' in which:
        exp_c()
    if 'd' in which:
        exp_d(docs_a)
    if 'h' in which:
        exp_h()
    if 'v' in which:
        exp_v()

    def enc(o):
        if isinstance(o, (set, tuple)):
            return list(o)
        if isinstance(o, bytes):
            return o.decode('utf-8', 'replace')
        return str(o)
    with open('/verif/build/ref_experiments.json', 'w') as f:
        json.dump(RESULTS, f, indent=1, sort_keys=True, default=enc)


if __name__ == '__main__':
    main()
