//! s-expression text format shared with the model driver (see tools/sx.py)
#[derive(Debug, Clone, PartialEq)]
pub enum Sx {
    I(i128),
    S(Vec<u8>),
    L(Vec<Sx>),
}

impl Sx {
    pub fn s(text: &str) -> Sx {
        Sx::S(text.as_bytes().to_vec())
    }
    pub fn b(v: bool) -> Sx {
        Sx::I(if v { 1 } else { 0 })
    }
    pub fn n(v: usize) -> Sx {
        Sx::I(v as i128)
    }
    pub fn opt(v: Option<Sx>) -> Sx {
        match v {
            None => Sx::L(vec![]),
            Some(x) => Sx::L(vec![x]),
        }
    }
    pub fn as_list(&self) -> &[Sx] {
        match self {
            Sx::L(l) => l,
            _ => panic!("case format: list expected, got {self:?}"),
        }
    }
    pub fn as_str(&self) -> String {
        match self {
            Sx::S(b) => String::from_utf8_lossy(b).into_owned(),
            _ => panic!("case format: string expected, got {self:?}"),
        }
    }
    pub fn as_bytes(&self) -> &[u8] {
        match self {
            Sx::S(b) => b,
            _ => panic!("case format: string expected, got {self:?}"),
        }
    }
    pub fn as_int(&self) -> i128 {
        match self {
            Sx::I(v) => *v,
            _ => panic!("case format: int expected, got {self:?}"),
        }
    }
    pub fn as_usize(&self) -> usize {
        self.as_int() as usize
    }

    pub fn parse(line: &str) -> Sx {
        let toks: Vec<&str> = line.split_whitespace().collect();
        let mut pos = 0;
        let v = Self::value(&toks, &mut pos);
        v
    }
    fn value(toks: &[&str], pos: &mut usize) -> Sx {
        let t = toks[*pos];
        *pos += 1;
        if t == "(" {
            let mut out = vec![];
            while toks[*pos] != ")" {
                out.push(Self::value(toks, pos));
            }
            *pos += 1;
            Sx::L(out)
        } else if let Some(h) = t.strip_prefix('i') {
            if let Some(hn) = h.strip_prefix('-') {
                Sx::I(-(i128::from_str_radix(hn, 16).unwrap()))
            } else {
                Sx::I(i128::from_str_radix(h, 16).unwrap())
            }
        } else if let Some(h) = t.strip_prefix('s') {
            let bytes = (0..h.len() / 2)
                .map(|i| u8::from_str_radix(&h[2 * i..2 * i + 2], 16).unwrap())
                .collect();
            Sx::S(bytes)
        } else {
            panic!("bad token {t}");
        }
    }
    pub fn print(&self, out: &mut String) {
        match self {
            Sx::I(v) => {
                if *v < 0 {
                    out.push_str(&format!("i-{:x}", -*v));
                } else {
                    out.push_str(&format!("i{:x}", *v));
                }
            }
            Sx::S(b) => {
                out.push('s');
                for x in b {
                    out.push_str(&format!("{x:02x}"));
                }
            }
            Sx::L(l) => {
                out.push('(');
                for x in l {
                    out.push(' ');
                    x.print(out);
                }
                out.push_str(" )");
            }
        }
    }
}
