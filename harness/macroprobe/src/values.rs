//! Deterministic families of hand-built typed values (kind VALUE): variant index -> value, None past the end.
//! Field k of variant v takes entry (v + k) of its boundary pool (cyclically), so after max(pool length) variants
//! every boundary value of every pool has been used in every field.
use crate::specs::*;

const I8: &[i8] = &[0, i8::MIN, i8::MAX, -1, 1, 100];
const I16: &[i16] = &[0, i16::MIN, i16::MAX, -1, 1, 255, -256];
const I32: &[i32] = &[0, i32::MIN, i32::MAX, -1, 1, 65536, -65537];
const I64: &[i64] = &[0, i64::MIN, i64::MAX, -1, 1, 1 << 32, -(1 << 53) - 1, (1 << 53) + 1];
const U8: &[u8] = &[0, u8::MAX, 1, 127, 128];
const U16: &[u16] = &[0, u16::MAX, 1, 32767, 32768, 256];
const U32: &[u32] = &[0, u32::MAX, 1, 0x7fff_ffff, 0x8000_0000, 65536];
const U64: &[u64] = &[0, u64::MAX, 1, 0x7fff_ffff_ffff_ffff, 0x8000_0000_0000_0000, (1 << 53) + 1, 1 << 32];
const F32: &[f32] = &[
    0.0, -0.0, 1.0, -1.5, f32::MAX, f32::MIN, f32::MIN_POSITIVE, 1e-45, 3.4e-38, 0.1, 16777217.0, 1e10, -2.5e-7,
    123456.79,
];
const F64: &[f64] = &[
    0.0, -0.0, 1.0, -1.5, f64::MAX, f64::MIN, f64::MIN_POSITIVE, 5e-324, 1e300, -1e-300, 0.1, 9007199254740993.0,
    1e22, 1e23, 123456789.123456789, 2.5e-7,
];
// strings for char[n] members, all at most 7 bytes (the shortest char[n] of the specifications is char[8])
const STR: &[&str] = &["", "a", "abcdefg", "a b", " ", "x/y", "a\"b", "a\\b", "a\\\"b", "\u{e4}\u{f6}", "/*c*/", "//c", "a\tb", "a\nb", "''"];
// long strings for the wide char[n] members (char[16] and larger): exactly 15 and 16 bytes
const LONGSTR: &[&str] = &["123456789012345", "1234567890123456", "/begin IF_DATA", "/end IF_DATA x"];

fn p<T: Copy>(pool: &[T], v: usize, k: usize) -> T {
    pool[(v + k) % pool.len()]
}
fn s(v: usize, k: usize) -> String {
    p(STR, v, k).to_string()
}
/// strings for members of at least 16 characters: the short pool followed by the long pool
fn ls(v: usize, k: usize) -> String {
    let n = STR.len() + LONGSTR.len();
    let idx = (v + k) % n;
    if idx < STR.len() {
        STR[idx].to_string()
    } else {
        LONGSTR[idx - STR.len()].to_string()
    }
}

pub const N_BASE: usize = 20;

// ---------------------------------------------------------------------------------------------- 0: Scal
pub fn scal(v: usize) -> Option<scal::Scal> {
    use scal::*;
    if v >= N_BASE {
        return None;
    }
    let color = [Color::Red, Color::Green, Color::Blue][v % 3];
    let mode = [Mode::ModeA, Mode::ModeB, Mode::ModeC][(v / 3) % 3];
    Some(Scal::new(
        p(I8, v, 0),
        p(I16, v, 0),
        p(I32, v, 0),
        p(I64, v, 0),
        p(U8, v, 0),
        p(U16, v, 0),
        p(U32, v, 0),
        p(U64, v, 0),
        p(F32, v, 0),
        p(F64, v, 0),
        ls(v, 0),
        [p(U16, v, 1), p(U16, v, 2), p(U16, v, 3)],
        [p(F32, v, 1), p(F32, v, 2)],
        color,
        mode,
        Point::new(p(I16, v, 1), p(I16, v, 2)),
        [p(I64, v, 1), p(I64, v, 2)],
        Point::new(p(I16, v, 3), p(I16, v, 4)),
    ))
}

// ---------------------------------------------------------------------------------------------- 1: Nest
pub fn nest(v: usize) -> Option<nest::Nest> {
    use nest::*;
    if v >= N_BASE {
        return None;
    }
    // the macro flattens a struct that is a member of a named struct into its parent (see the report)
    let inner = Inner::new(p(U8, v, 0), p(I16, v, 0), p(I16, v, 1), s(v, 0));
    // Outer { a, Mid { b, Leaf, e } flattened, z }: only the direct struct member is flattened, Leaf stays a struct
    let outer = Outer::new(
        p(U32, v, 0),
        p(I32, v, 0),
        Leaf::new(p(F32, v, 0), p(U8, v, 1)),
        p(F64, v, 0),
        p(U16, v, 0),
    );
    Some(Nest::new(p(U16, v, 1), inner, outer))
}

// ---------------------------------------------------------------------------------------------- 2: Tags
pub fn tags(v: usize) -> Option<tags::Tags> {
    use tags::*;
    // variants 0..N_BASE: member presence is taken from the bits of v, repetition counts from v % 4
    if v >= 2 * N_BASE {
        return None;
    }
    let mut t = Tags::new(p(U16, v, 0));
    if v == 0 {
        return Some(t); // everything absent
    }
    let all = v >= N_BASE; // second half: everything present
    let bit = |n: usize| all || (v >> n) & 1 == 1;
    let count = |k: usize| (v + k) % 4;
    if bit(0) {
        t.flag = Some(Flag::new());
    }
    if bit(1) {
        t.level = Some(Level::new(p(U16, v, 1)));
    }
    for k in 0..count(0) {
        t.addr.push(Addr::new(p(U32, v, k)));
    }
    if bit(2) {
        t.pair = Some(Pair::new(p(I16, v, 0), p(I16, v, 1)));
    }
    if bit(3) {
        t.seg = Some(Seg::new(ls(v, 1), p(U32, v, 3)));
    }
    for k in 0..count(1) {
        let mut c = Chan::new(p(U16, v, k));
        if (v + k) % 2 == 0 {
            c.rate = Some(Rate::new(p(F32, v, k)));
        }
        for j in 0..(v + k) % 3 {
            c.pid.push(Pid::new(p(U16, v, j + k)));
        }
        if (v + k) % 3 == 1 {
            c.sub = Some(Sub::new(p(U8, v, k)));
        }
        t.chan.push(c);
    }
    if bit(4) {
        let mut pts = Pts::new();
        for k in 0..count(2) {
            pts.pt.push(Pt::new(p(I16, v, k), p(I16, v, k + 1)));
        }
        t.pts = Some(pts); // count 0: present with an empty sequence
    }
    if bit(0) && bit(2) || all {
        let mut names = Names::new();
        for k in 0..count(3) {
            names.item.push(ls(v, k));
        }
        t.names = Some(names);
    }
    if bit(1) && bit(3) || all {
        let mut kinds = Kinds::new();
        for k in 0..count(0) {
            kinds.kind.push([Kind::Ka, Kind::Kb, Kind::Kc][(v + k) % 3]);
        }
        t.kinds = Some(kinds);
    }
    Some(t)
}

// ---------------------------------------------------------------------------------------------- 3: Proto
pub fn proto(v: usize) -> Option<proto::Proto> {
    use proto::*;
    if v >= 3 * N_BASE {
        return Option::None; // `None` is a generated struct in this module
    }
    let mut t = Proto::new();
    let w = v / 6; // value selector within one member
    match v % 6 {
        0 => {
            if v != 0 {
                t.none = Some(None::new());
            } // v == 0: nothing at all (empty taggedunion)
        }
        1 => t.can = Some(Can::new(p(U32, w, 0), [AnonEnum::Std, AnonEnum::Ext][w % 2])),
        2 => t.eth = Some(Eth::new(ls(w, 0), p(U16, w, 0))),
        3 => t.raw = Some(Raw::new([p(U8, w, 0), p(U8, w, 1), p(U8, w, 2), p(U8, w, 3)])),
        _ => {
            let mut x = Xcp::new(p(U16, w, 0));
            match w % 5 {
                0 => {}
                1 => x.a = Some(A::new(p(U16, w, 1))),
                2 => x.b = Some(B::new(p(I32, w, 1))),
                3 => x.c = Some(C::new(p(U8, w, 1))),
                _ => x.n = Some(N::new()),
            }
            if v % 6 == 5 {
                x.t1 = Some(T1::new(p(I16, w, 2)));
                for k in 0..w % 4 {
                    x.t2.push(T2::new(s(w, k)));
                }
            }
            t.xcp = Some(x);
        }
    }
    Some(t)
}

// ---------------------------------------------------------------------------------------------- 4: Rows
pub fn rows(v: usize) -> Option<rows::Rows> {
    use rows::*;
    if v >= N_BASE {
        return None;
    }
    let mut t = Rows::new();
    // v = 0: empty sequence; then 1, 2, 3, 1, 2, 3 ... records
    let n = if v == 0 { 0 } else { (v - 1) % 3 + 1 };
    for k in 0..n {
        t.rec.push(Rec::new(p(U16, v, k), p(F64, v, k), s(v, k), [SwO::SwOn, SwO::SwOff][(v + k) % 2]));
    }
    Some(t)
}

// ---------------------------------------------------------------------------------------------- 5: A2mlTest
pub fn upstream(v: usize) -> Option<upstream::A2mlTest> {
    use upstream::*;
    if v >= 16 * 4 {
        return Option::None; // `None` is a generated struct in this module
    }
    let mut t = A2mlTest::new();
    let w = v / 16;
    match v % 16 {
        0 => t.char = Some(Char::new(p(I8, w, 0))),
        1 => t.int = Some(Int::new(p(I16, w, 0))),
        2 => t.long = Some(Long::new(p(I32, w, 0))),
        3 => t.int64 = Some(Int64::new(p(I64, w, 0))),
        4 => t.uchar = Some(Uchar::new(p(U8, w, 0))),
        5 => t.uint = Some(Uint::new(p(U64, w, 1))),
        6 => t.ulong = Some(Ulong::new(p(U32, w, 0))),
        7 => t.uint64 = Some(Uint64::new(p(U64, w, 0))),
        8 => t.double = Some(Double::new(p(F64, w, 4))),
        9 => t.float = Some(Float::new(p(F32, w, 4))),
        10 => t.var_struct = Some(Struct::new(ls(w, 0), p(I16, w, 1))),
        11 => {
            let mut b = Block::new();
            if w % 2 == 1 {
                b.tag1 = Some(Tag1::new(p(I16, w, 2)));
            }
            t.block = Some(b);
        }
        12 => t.var_enum = Some(Enum::new([EnumTest::Enumval1, EnumTest::Enumval2][w % 2])),
        13 => t.array = Some(Array::new([p(U16, w, 0), p(U16, w, 1), p(U16, w, 2)])),
        14 => {
            let mut q = Sequence::new();
            for k in 0..w {
                q.item.push(ls(w, k));
            }
            t.sequence = Some(q);
        }
        _ => t.none = Some(None::new()),
    }
    Some(t)
}

// ---------------------------------------------------------------------------------------------- 6: Reuse
pub fn reuse(v: usize) -> Option<reuse::Reuse> {
    use reuse::*;
    if v >= 4 * N_BASE {
        return None;
    }
    let mut t = Reuse::new();
    if v == 0 {
        return Some(t); // nothing at all (empty taggedunion)
    }
    // odd: "CAN", even: "ETH"; presence of the two reused members: none, TIMING, LIMITS, both; k selects the values
    let (timing, limits) = [(false, false), (true, false), (false, true), (true, true)][(v / 2) % 4];
    let k = v / 8;
    if v % 2 == 1 {
        // the first occurrences of the tags: types Timing (CanMode), Mask (u32) and Limits (Range16)
        let mut c = Can::new(p(U16, k, 0));
        if timing {
            let mut tm = Timing::new([CanMode::Classic, CanMode::Fd][(k / 2) % 2]);
            if k % 5 != 4 {
                tm.mask = Some(Mask::new(p(U32, k, 0)));
            }
            c.timing = Some(tm);
        }
        if limits {
            c.limits = Some(Limits::new(Range16::new(p(I16, k, 0), p(I16, k, 1))));
        }
        t.can = Some(c);
    } else {
        // the second occurrences: the macro names their types Timing2 (EthMode), Mask2 (u64) and Limits2 (Range32)
        let mut e = Eth::new(p(U16, k, 1));
        if timing {
            let mut tm = Timing2::new([EthMode::Udp, EthMode::Tcp][(k / 2) % 2]);
            if k % 5 != 4 {
                tm.mask = Some(Mask2::new(p(U64, k, 0)));
            }
            e.timing = Some(tm);
        }
        if limits {
            e.limits = Some(Limits2::new(Range32::new(p(I32, k, 0), p(I32, k, 1))));
        }
        t.eth = Some(e);
    }
    Some(t)
}
