//! The FIXED set of a2ml_specification! invocations of property C19.
//! Every invocation lives in its own module (the macro emits `use` items and free type names).
//! The same texts (enhanced A2ML, with member names) are mirrored in /verif/checks/macrolib.py (SPECS).
//!
//! Constructs that the in-tree macro accepts syntactically but cannot expand into compiling code are NOT used
//! here (they would break the build); they are kept as compile probes in macrolib.COMPILE_PROBES:
//!   sequences of integer/float scalars, arrays of enums/structs, multi-dimensional arrays, arrays of char[n],
//!   `ident`, an all-upper-case specification name, negative enum constants, equal tags in two tagged members.
#![allow(dead_code)]

/// spec 0: all 10 scalar types, char[n], arrays of integer and float scalars, named enum with values (type
/// reference), anonymous enum without values, named struct references (one level below the block)
pub mod scal {
    a2lmacros::a2ml_specification! {
        <Scal>

        enum Color {
            "RED" = 1,
            "GREEN" = 2,
            "BLUE" = 0x10
        };

        struct Point {
            int x;
            int y;
        };

        block "IF_DATA" struct {
            char c;
            int i;
            long l;
            int64 ll;
            uchar uc;
            uint ui;
            ulong ul;
            uint64 ull;
            float f;
            double d;
            char name[16];
            uint arr[3];
            float farr[2];
            enum Color color;
            enum {
                "MODE_A",
                "MODE_B",
                "MODE_C"
            } mode;
            struct Point origin;
            int64 wide[2];
            struct Point last;
        };
    }
}

/// spec 1: nested structs (a struct inside a named struct, two and three levels below the block)
pub mod nest {
    a2lmacros::a2ml_specification! {
        <Nest>

        struct Point {
            int x;
            int y;
        };

        struct Inner {
            uchar kind;
            struct Point p;
            char label[8];
        };

        block "IF_DATA" struct {
            uint version;
            struct Inner inner;
            struct Outer {
                ulong a;
                struct Mid {
                    long b;
                    struct Leaf {
                        float g;
                        uchar h;
                    } leaf;
                    double e;
                } mid;
                uint z;
            } outer;
        };
    }
}

/// spec 2: taggedstruct (named type reference) with single / repeated / block / repeated block members,
/// members without data, sequences of structs, of strings and of enums, nested taggedstruct in a block
pub mod tags {
    a2lmacros::a2ml_specification! {
        <Tags>

        enum Kind {
            "KA",
            "KB",
            "KC"
        };

        taggedstruct Opts {
            "FLAG";
            "LEVEL" uint level;
            ("ADDR" ulong addr)*;
            "PAIR" struct {
                int a;
                int b;
            };
            block "SEG" struct {
                char name[32];
                ulong size;
            };
            (block "CHAN" struct {
                uint id;
                taggedstruct {
                    "RATE" float rate;
                    ("PID" uint pid)*;
                    block "SUB" struct {
                        uchar s;
                    };
                };
            })*;
            "PTS" (struct Pt {
                int x;
                int y;
            })*;
            block "NAMES" (char[20] name)*;
            "KINDS" (enum Kind)*;
        };

        block "IF_DATA" struct {
            uint version;
            taggedstruct Opts;
        };
    }
}

/// spec 3: taggedunion (named type reference) directly below the block, nested taggedunion and taggedstruct in a
/// block member, array member, member without data, anonymous enum without usable prefix
pub mod proto {
    a2lmacros::a2ml_specification! {
        <Proto>

        taggedunion Link {
            "CAN" struct {
                ulong baud;
                enum {
                    "STD",
                    "EXT"
                } frame;
            };
            "ETH" struct {
                char host[64];
                uint port;
            };
            block "XCP" struct {
                uint ver;
                taggedunion {
                    "A" uint a;
                    "B" long b;
                    block "C" struct {
                        uchar x;
                    };
                    "N";
                };
                taggedstruct {
                    "T1" int t;
                    ("T2" char[8] s)*;
                };
            };
            "RAW" uchar bytes[4];
            "NONE";
        };

        block "IF_DATA" taggedunion Link;
    }
}

/// spec 4: a sequence of structs directly below the block; enum with values in the struct
pub mod rows {
    a2lmacros::a2ml_specification! {
        <Rows>

        block "IF_DATA" (struct Rec {
            uint key;
            double val;
            char txt[8];
            enum {
                "SW_ON" = 1,
                "SW_OFF" = 0
            } sw;
        })*;
    }
}

/// spec 5: the specification of /repo/a2lfile/tests/test.rs (ifdata_test), verbatim
pub mod upstream {
    a2lmacros::a2ml_specification! {
        <A2mlTest>

        block "IF_DATA" taggedunion if_data {
            "CHAR" char a;
            "INT" int b;
            "LONG" long c;
            "INT64" int64 d;
            "UCHAR" uchar e;
            "UINT" uint64 f;
            "ULONG" ulong g;
            "UINT64" uint64 h;
            "DOUBLE" double i;
            "FLOAT" float j;
            "STRUCT" struct structname {
                char[256];
                int;
            };
            block "BLOCK" taggedstruct tagged_struct {
                "TAG1" int intval;
            };
            "ENUM" enum EnumTest {
                "ENUMVAL1" = 1,
                "ENUMVAL2"
            } named_enum;
            "ARRAY" uint arr[3];
            block "SEQUENCE" (char[256] name)*;
            "NONE";
        };
    }
}

/// spec 6: tag reuse - the tags "TIMING", "MASK" and "LIMITS" occur below two different parents ("CAN", "ETH") with
/// the same layout and the same member names.  The occurrences of "TIMING" and "LIMITS" differ one reference level down
/// only: the referenced enum (CanMode / EthMode), the type of the tagged member "MASK" (whose integer is ulong / uint64,
/// a difference at the first level), the referenced struct (Range16 of int / Range32 of long)
pub mod reuse {
    a2lmacros::a2ml_specification! {
        <Reuse>

        enum CanMode {
            "CLASSIC" = 0, /// classic frames, 8 data bytes
            "FD" = 1 /// flexible data rate
        };

        enum EthMode {
            "UDP" = 0, /// datagrams
            "TCP" = 1
        };

        struct Range16 {
            int lo; /// lower bound
            int hi; /// upper bound
        };

        struct Range32 {
            long lo;
            long hi;
        };

        block "IF_DATA" taggedunion {
            block "CAN" struct {
                uint node;
                taggedstruct {
                    block "TIMING" struct {
                        enum CanMode mode;
                        taggedstruct {
                            "MASK" ulong mask; /// acceptance mask
                        };
                    };
                    block "LIMITS" struct {
                        struct Range16 r;
                    };
                };
            };
            block "ETH" struct {
                uint node;
                taggedstruct {
                    block "TIMING" struct {
                        enum EthMode mode;
                        taggedstruct {
                            "MASK" uint64 mask;
                        };
                    };
                    block "LIMITS" struct {
                        struct Range32 r;
                    };
                };
            };
        };
    }
}
