//! Case kinds LOAD and TOKENS: the whole load / write pipeline on the real implementation.
//!
//! LOAD   case ::= ( s<a2l text> i<strict> <optstr a2ml_spec> i<cycles> )
//!        answer ::= ( sPANIC <floattable> ) | ( sERR <diag> <floattable> )
//!                 | ( sOK <node A2lFile> ( <diag>* ) s<text1> ( <cycle>* ) <floattable> )
//!        cycle  ::= ( sOK|sERR|sPANIC i<model equal to previous model> s<written text> )
//!        (a panic after a successful first load, i.e. in the dump or in the writer, is reported as
//!         ( sPANIC s<stage> ) with stage "dump" or "write")
//! TOKENS case ::= ( s<text> )
//!        answer ::= ( sOK ( ( i<kind> i<start> i<end> i<fileid> i<line> )* ) ) | ( sERR <diag> ) | ( sPANIC )
//! diag ::= ( s<kind> s<Variant> i<line or -1> s<filename> s<key text> )
use crate::dump_gen::{dump_a2lfile, f64_bits};
use crate::sx::Sx;
use a2lfile::{A2lError, A2lFile, ParserError, TokenizerError};
use std::panic::{catch_unwind, AssertUnwindSafe};

fn diag(kind: &str, variant: &str, line: i128, filename: &str, key: &str) -> Sx {
    Sx::L(vec![
        Sx::s(kind),
        Sx::s(variant),
        Sx::I(line),
        Sx::s(filename),
        Sx::s(key),
    ])
}

fn diag_parser(e: &ParserError) -> Sx {
    use ParserError::*;
    let (variant, line, filename, key): (&str, i128, &str, String) = match e {
        UnexpectedTokenType {
            filename,
            error_line,
            actual_text,
            ..
        } => (
            "UnexpectedTokenType",
            *error_line as i128,
            filename,
            actual_text.clone(),
        ),
        MalformedNumber {
            filename,
            error_line,
            numstr,
        } => (
            "MalformedNumber",
            *error_line as i128,
            filename,
            numstr.clone(),
        ),
        InvalidEnumValue {
            filename,
            error_line,
            enumtxt,
            ..
        } => (
            "InvalidEnumValue",
            *error_line as i128,
            filename,
            enumtxt.clone(),
        ),
        InvalidMultiplicityTooMany {
            filename,
            error_line,
            tag,
            ..
        } => (
            "InvalidMultiplicityTooMany",
            *error_line as i128,
            filename,
            tag.clone(),
        ),
        InvalidMultiplicityNotPresent {
            filename,
            error_line,
            tag,
            ..
        } => (
            "InvalidMultiplicityNotPresent",
            *error_line as i128,
            filename,
            tag.clone(),
        ),
        IncorrectBlockError {
            filename,
            error_line,
            tag,
            ..
        } => (
            "IncorrectBlockError",
            *error_line as i128,
            filename,
            tag.clone(),
        ),
        IncorrectKeywordError {
            filename,
            error_line,
            tag,
            ..
        } => (
            "IncorrectKeywordError",
            *error_line as i128,
            filename,
            tag.clone(),
        ),
        IncorrectEndTag {
            filename,
            error_line,
            tag,
            ..
        } => (
            "IncorrectEndTag",
            *error_line as i128,
            filename,
            tag.clone(),
        ),
        UnknownSubBlock {
            filename,
            error_line,
            tag,
            ..
        } => (
            "UnknownSubBlock",
            *error_line as i128,
            filename,
            tag.clone(),
        ),
        // no tag / text field: the enclosing block is the only text there is
        UnexpectedEOF {
            filename,
            error_line,
            block,
            ..
        } => (
            "UnexpectedEOF",
            *error_line as i128,
            filename,
            block.clone(),
        ),
        StringTooLong {
            filename,
            error_line,
            text,
            ..
        } => (
            "StringTooLong",
            *error_line as i128,
            filename,
            text.clone(),
        ),
        BlockRefDeprecated {
            filename,
            error_line,
            tag,
            ..
        } => (
            "BlockRefDeprecated",
            *error_line as i128,
            filename,
            tag.clone(),
        ),
        BlockRefTooNew {
            filename,
            error_line,
            tag,
            ..
        } => (
            "BlockRefTooNew",
            *error_line as i128,
            filename,
            tag.clone(),
        ),
        EnumRefDeprecated {
            filename,
            error_line,
            tag,
            ..
        } => (
            "EnumRefDeprecated",
            *error_line as i128,
            filename,
            tag.clone(),
        ),
        EnumRefTooNew {
            filename,
            error_line,
            tag,
            ..
        } => (
            "EnumRefTooNew",
            *error_line as i128,
            filename,
            tag.clone(),
        ),
        // no tag / text field: the enclosing block is the only text there is
        InvalidBegin {
            filename,
            error_line,
            block,
        } => (
            "InvalidBegin",
            *error_line as i128,
            filename,
            block.clone(),
        ),
        InvalidIdentifier {
            filename,
            error_line,
            ident,
            ..
        } => (
            "InvalidIdentifier",
            *error_line as i128,
            filename,
            ident.clone(),
        ),
        A2mlError {
            filename,
            error_line,
            errmsg,
        } => (
            "A2mlError",
            *error_line as i128,
            filename,
            errmsg.clone(),
        ),
        AdditionalTokensError {
            filename,
            error_line,
            text,
        } => (
            "AdditionalTokensError",
            *error_line as i128,
            filename,
            text.clone(),
        ),
        MissingVersionInfo => ("MissingVersionInfo", -1, "", String::new()),
        InvalidVersion { major, minor } => ("InvalidVersion", -1, "", format!("{major} {minor}")),
        _ => ("Unknown", -1, "", e.to_string()),
    };
    diag("Parser", variant, line, filename, &key)
}

fn diag_tokenizer(e: &TokenizerError) -> Sx {
    use TokenizerError::*;
    let (variant, line, filename, key): (&str, i128, &str, String) = match e {
        IncludeFileError {
            filename,
            line,
            incname,
        } => (
            "IncludeFileError",
            *line as i128,
            filename,
            incname.clone(),
        ),
        IncompleteIncludeError { filename, line } => (
            "IncompleteIncludeError",
            *line as i128,
            filename,
            String::new(),
        ),
        InvalidA2lToken {
            filename,
            line,
            tokentext,
        } => (
            "InvalidA2lToken",
            *line as i128,
            filename,
            tokentext.clone(),
        ),
        InvalidNumericalConstant {
            filename,
            line,
            tokentext,
        } => (
            "InvalidNumericalConstant",
            *line as i128,
            filename,
            tokentext.clone(),
        ),
        UnclosedComment { filename, line } => {
            ("UnclosedComment", *line as i128, filename, String::new())
        }
        UnclosedString { filename, line } => {
            ("UnclosedString", *line as i128, filename, String::new())
        }
        MissingWhitespace { filename, line } => {
            ("MissingWhitespace", *line as i128, filename, String::new())
        }
        _ => ("Unknown", -1, "", e.to_string()),
    };
    diag("Tokenizer", variant, line, filename, &key)
}

pub(crate) fn diag_a2l(e: &A2lError) -> Sx {
    let variant = match e {
        A2lError::ParserError { parser_error } => return diag_parser(parser_error),
        A2lError::TokenizerError { tokenizer_error } => return diag_tokenizer(tokenizer_error),
        A2lError::FileOpenError { .. } => "FileOpenError",
        A2lError::FileReadError { .. } => "FileReadError",
        A2lError::EmptyFileError { .. } => "EmptyFileError",
        A2lError::InvalidBuiltinA2mlSpec { .. } => "InvalidBuiltinA2mlSpec",
        A2lError::FileWriteError { .. } => "FileWriteError",
        A2lError::NameCollisionError { .. } => "NameCollisionError",
        A2lError::NameCollisionError2 { .. } => "NameCollisionError2",
        A2lError::CrossReferenceError { .. } => "CrossReferenceError",
        A2lError::LimitCheckError { .. } => "LimitCheckError",
        A2lError::GroupStructureError { .. } => "GroupStructureError",
        A2lError::ContentError { .. } => "ContentError",
        _ => "Unknown",
    };
    diag("Other", variant, -1, "", &e.to_string())
}

/// Rust's float parsing / printing on every distinct Number token of the input (file 0 only)
fn floatentry(tt: &str) -> Sx {
    // parser.rs get_double / get_float: hex notation is read as u64 and converted
    let hex = tt.starts_with("0x") || tt.starts_with("0X");
    let v64: Option<f64> = if hex {
        tt.get(2..).and_then(|d| u64::from_str_radix(d, 16).ok()).map(|n| n as f64)
    } else {
        tt.parse::<f64>().ok()
    };
    let v32: Option<f32> = if hex {
        tt.get(2..).and_then(|d| u64::from_str_radix(d, 16).ok()).map(|n| n as f32)
    } else {
        tt.parse::<f32>().ok()
    };
    let (ok, bits, plain, exp) = match v64 {
        Some(v) => (true, f64_bits(v), format!("{}", v), format!("{:e}", v)),
        None => (false, Sx::I(0), String::new(), String::new()),
    };
    // an f32 value is written through add_float(value.into()), i.e. widened to f64 first
    let (ok32, bits32, plain32, exp32) = match v32 {
        Some(v) => (true, f64_bits(v as f64), format!("{}", v as f64), format!("{:e}", v as f64)),
        None => (false, Sx::I(0), String::new(), String::new()),
    };
    Sx::L(vec![
        Sx::s(tt),
        Sx::b(ok),
        bits,
        Sx::s(&plain),
        Sx::s(&exp),
        Sx::b(ok32),
        bits32,
        Sx::s(&plain32),
        Sx::s(&exp32),
    ])
}

pub(crate) fn floattable(text: &str) -> Sx {
    let Ok(Ok((tokens, filedata))) =
        catch_unwind(AssertUnwindSafe(|| a2lfile::verif_hooks::tokenize("", text)))
    else {
        return Sx::L(vec![]);
    };
    let Some(data) = filedata.first() else {
        return Sx::L(vec![]);
    };
    let mut seen = std::collections::HashSet::<&str>::new();
    let mut out = vec![];
    for (kind, start, end, fileid, _line) in &tokens {
        if *kind != 5 || *fileid != 0 {
            continue;
        }
        let Some(tt) = data.get(*start..*end) else {
            continue;
        };
        if !seen.insert(tt) {
            continue;
        }
        out.push(floatentry(tt));
    }
    Sx::L(out)
}

/// the same table for text that cannot be tokenised on its own (files with /include): every blank-separated word that
/// starts like a number - a superset of the number tokens
pub(crate) fn floattable_words(text: &str) -> Sx {
    let mut seen = std::collections::HashSet::<&str>::new();
    let mut out = vec![];
    let numberlike = |w: &str| {
        w.bytes()
            .next()
            .map(|c| c.is_ascii_digit() || c == b'+' || c == b'-' || c == b'.')
            .unwrap_or(false)
    };
    for w in text.split_ascii_whitespace() {
        if numberlike(w) && seen.insert(w) {
            out.push(floatentry(w));
        }
        // a number token may end in front of, or start behind, a comment or a string that is not set off by a blank
        for piece in w.split(|ch: char| !(ch.is_ascii_alphanumeric() || ch == '.' || ch == '+' || ch == '-' || ch == '_')) {
            if numberlike(piece) && seen.insert(piece) {
                out.push(floatentry(piece));
            }
        }
    }
    Sx::L(out)
}

type LoadResult = Result<(A2lFile, Vec<A2lError>), A2lError>;

fn load(text: &str, spec: &Option<String>, strict: bool) -> std::thread::Result<LoadResult> {
    catch_unwind(AssertUnwindSafe(|| {
        a2lfile::load_from_string(text, spec.clone(), strict)
    }))
}

fn typespec_sx(t: &a2lfile::verif_hooks::TypeSpecDump) -> Sx {
    use a2lfile::verif_hooks::TypeSpecDump as T;
    match t {
        T::Leaf(name) => Sx::s(name),
        T::Array(item, dim) => Sx::L(vec![Sx::s("A"), typespec_sx(item), Sx::n(*dim)]),
        T::Enum(items) => {
            let mut v = vec![Sx::s("E")];
            for (name, val) in items {
                let mut e = vec![Sx::s(name)];
                if let Some(x) = val {
                    e.push(Sx::I(*x as i128));
                }
                v.push(Sx::L(e));
            }
            Sx::L(v)
        }
        T::Struct(items) => {
            let mut v = vec![Sx::s("S")];
            v.extend(items.iter().map(typespec_sx));
            Sx::L(v)
        }
        T::Sequence(item) => Sx::L(vec![Sx::s("Q"), typespec_sx(item)]),
        T::Tagged(is_union, items) => {
            let mut v = vec![Sx::s(if *is_union { "U" } else { "T" })];
            for (tag, is_block, repeat, item) in items {
                v.push(Sx::L(vec![Sx::s(tag), Sx::b(*is_block), Sx::b(*repeat), typespec_sx(item)]));
            }
            Sx::L(v)
        }
    }
}

fn parsed_a2ml(text: &str) -> Sx {
    match catch_unwind(AssertUnwindSafe(|| a2lfile::verif_hooks::parse_a2ml("", text))) {
        Ok(Ok((spec, _merged))) => Sx::L(vec![Sx::s("OK"), typespec_sx(&spec)]),
        Ok(Err(msg)) => Sx::L(vec![Sx::s("ERR"), Sx::s(&msg)]),
        Err(_) => Sx::L(vec![Sx::s("ERR"), Sx::s("<panic in parse_a2ml>")]),
    }
}

/// ( ( ( s<text of an A2ML block, \r\n -> \n> <parsed> )* ) ( <parsed builtin spec>? ) ): what a2ml::parse_a2ml makes of the
/// A2ML texts of the file and of the a2ml_spec argument - the oracle the parser model takes as input
pub(crate) fn a2mltable(text: &str, spec: &Option<String>) -> Sx {
    let mut entries: Vec<Sx> = vec![];
    let mut seen: Vec<String> = vec![];
    if let Ok(Ok((tokens, files))) = catch_unwind(AssertUnwindSafe(|| a2lfile::verif_hooks::tokenize("", text))) {
        for w in tokens.windows(3) {
            // /begin A2ML <string token>
            let (k0, ..) = w[0];
            let (k1, s1, e1, f1, _) = w[1];
            let (k2, s2, e2, f2, _) = w[2];
            if k0 == 1 && k1 == 0 && k2 == 4 && files.get(f1).and_then(|d| d.get(s1..e1)) == Some("A2ML") {
                if let Some(t) = files.get(f2).and_then(|d| d.get(s2..e2)) {
                    let t = t.replace("\r\n", "\n");
                    if !seen.contains(&t) {
                        entries.push(Sx::L(vec![Sx::s(&t), parsed_a2ml(&t)]));
                        seen.push(t);
                    }
                }
            }
        }
    }
    let builtin = match spec {
        Some(s) => vec![parsed_a2ml(s)],
        None => vec![],
    };
    Sx::L(vec![Sx::L(entries), Sx::L(builtin)])
}

pub fn run_load(case: &Sx) -> Sx {
    let c = case.as_list();
    let text = c[0].as_str();
    let strict = c[1].as_int() != 0;
    let spec: Option<String> = c[2].as_list().first().map(|s| s.as_str());
    let cycles = c[3].as_usize();

    let (file, log) = match load(&text, &spec, strict) {
        Err(_) => return Sx::L(vec![Sx::s("PANIC"), floattable(&text), a2mltable(&text, &spec)]),
        Ok(Err(e)) => return Sx::L(vec![Sx::s("ERR"), diag_a2l(&e), floattable(&text), a2mltable(&text, &spec)]),
        Ok(Ok(v)) => v,
    };
    let Ok(dump) = catch_unwind(AssertUnwindSafe(|| dump_a2lfile(&file))) else {
        return Sx::L(vec![Sx::s("PANIC"), Sx::s("dump"), floattable(&text), a2mltable(&text, &spec)]);
    };
    let Ok(text1) = catch_unwind(AssertUnwindSafe(|| file.write_to_string())) else {
        return Sx::L(vec![Sx::s("PANIC"), Sx::s("write"), floattable(&text), a2mltable(&text, &spec)]);
    };

    let mut cyc = vec![];
    let mut prev_file = file;
    let mut prev_text = text1.clone();
    for _ in 0..cycles {
        let fail = |what: &str| Sx::L(vec![Sx::s(what), Sx::I(0), Sx::s("")]);
        let next = match load(&prev_text, &spec, strict) {
            Err(_) => {
                cyc.push(fail("PANIC"));
                break;
            }
            Ok(Err(_)) => {
                cyc.push(fail("ERR"));
                break;
            }
            Ok(Ok((f, _))) => f,
        };
        let Ok((equal, written)) = catch_unwind(AssertUnwindSafe(|| {
            (next == prev_file, next.write_to_string())
        })) else {
            cyc.push(fail("PANIC"));
            break;
        };
        cyc.push(Sx::L(vec![Sx::s("OK"), Sx::b(equal), Sx::s(&written)]));
        prev_file = next;
        prev_text = written;
    }

    Sx::L(vec![
        Sx::s("OK"),
        dump,
        Sx::L(log.iter().map(diag_a2l).collect()),
        Sx::s(&text1),
        Sx::L(cyc),
        floattable(&text),
        a2mltable(&text, &spec),
    ])
}

/// LOADCLEAN: case as LOAD; the text written after A2lFile::ifdata_cleanup()
///   ( sOK s<text> <floattable> <a2mltable> ) | ( sERR <diag> <floattable> <a2mltable> ) | ( sPANIC [stage] <floattable> <a2mltable> )
pub fn run_loadclean(case: &Sx) -> Sx {
    let c = case.as_list();
    let text = c[0].as_str();
    let strict = c[1].as_int() != 0;
    let spec: Option<String> = c[2].as_list().first().map(|s| s.as_str());
    let (mut file, _log) = match load(&text, &spec, strict) {
        Err(_) => return Sx::L(vec![Sx::s("PANIC"), floattable(&text), a2mltable(&text, &spec)]),
        Ok(Err(e)) => return Sx::L(vec![Sx::s("ERR"), diag_a2l(&e), floattable(&text), a2mltable(&text, &spec)]),
        Ok(Ok(v)) => v,
    };
    let Ok(written) = catch_unwind(AssertUnwindSafe(|| {
        file.ifdata_cleanup();
        file.write_to_string()
    })) else {
        return Sx::L(vec![Sx::s("PANIC"), Sx::s("cleanup"), floattable(&text), a2mltable(&text, &spec)]);
    };
    Sx::L(vec![Sx::s("OK"), Sx::s(&written), floattable(&text), a2mltable(&text, &spec)])
}

/// BANNER case ( s<text> i<strict> s<banner> | () ): the file-based save cycle of A2lFile::write with an optional banner.
/// answer ( sOK i<model after 1st reload == loaded> i<model after 2nd reload == loaded> i<2nd text == 3rd text> i<1st text == 2nd text> )
///      | ( sERR s<stage> s<message> ) | ( sPANIC s<stage> ) | ( sNOLOAD )
pub fn run_banner(case: &Sx) -> Sx {
    static COUNTER: std::sync::atomic::AtomicUsize = std::sync::atomic::AtomicUsize::new(0);
    let c = case.as_list();
    let text = c[0].as_str();
    let strict = c[1].as_int() != 0;
    let banner: Option<String> = match &c[2] {
        Sx::L(_) => None,
        other => Some(other.as_str()),
    };
    let (file, _log) = match load(&text, &None, strict) {
        Ok(Ok(v)) => v,
        _ => return Sx::L(vec![Sx::s("NOLOAD")]),
    };
    let dir = std::path::Path::new("/verif/build/tmp");
    let _ = std::fs::create_dir_all(dir);
    let n = COUNTER.fetch_add(1, std::sync::atomic::Ordering::SeqCst);
    let path = dir.join(format!("banner-{}-{}.a2l", std::process::id(), n));
    let mut texts: Vec<Vec<u8>> = vec![];
    let mut models_eq = vec![];
    let mut cur = file.clone();
    for round in 0..3 {
        let w = catch_unwind(AssertUnwindSafe(|| cur.write(&path, banner.as_deref())));
        match w {
            Err(_) => { let _ = std::fs::remove_file(&path); return Sx::L(vec![Sx::s("PANIC"), Sx::s(&format!("write {round}"))]) }
            Ok(Err(e)) => { let _ = std::fs::remove_file(&path); return Sx::L(vec![Sx::s("ERR"), Sx::s(&format!("write {round}")), Sx::s(&format!("{e}"))]) }
            Ok(Ok(())) => {}
        }
        texts.push(std::fs::read(&path).unwrap_or_default());
        if round == 2 {
            break;
        }
        let l = catch_unwind(AssertUnwindSafe(|| a2lfile::load(&path, None, strict)));
        match l {
            Err(_) => { let _ = std::fs::remove_file(&path); return Sx::L(vec![Sx::s("PANIC"), Sx::s(&format!("load {round}"))]) }
            Ok(Err(e)) => { let _ = std::fs::remove_file(&path); return Sx::L(vec![Sx::s("ERR"), Sx::s(&format!("load {round}")), Sx::s(&format!("{e}"))]) }
            Ok(Ok((f, _))) => {
                models_eq.push(f == file);
                cur = f;
            }
        }
    }
    let _ = std::fs::remove_file(&path);
    Sx::L(vec![
        Sx::s("OK"),
        Sx::b(models_eq[0]),
        Sx::b(models_eq[1]),
        Sx::b(texts[1] == texts[2]),
        Sx::b(texts[0] == texts[1]),
    ])
}

/// SORTDOC case ( s<text> ): load (non-strict), sort(), write.
/// answer ( sOK ( ( s<module name> ( ( s<tag> s<name> )* ) )* ) i<written text loads> i<reloaded == sorted model>
///              i<a second sort() changes nothing: model and text> ( s<module name in memory>* ) ) | ( sNOLOAD ) | ( sPANIC s<stage> )
/// the tokens of A2L text outside strings and comments (strings are returned as one token, comments are dropped)
fn plain_tokens(text: &str) -> Vec<&str> {
    let b = text.as_bytes();
    let mut out = vec![];
    let mut i = 0;
    while i < b.len() {
        let c = b[i];
        if c.is_ascii_whitespace() {
            i += 1;
        } else if c == b'"' {
            let start = i;
            i += 1;
            while i < b.len() {
                if b[i] == b'\\' {
                    i += 2;
                } else if b[i] == b'"' {
                    if i + 1 < b.len() && b[i + 1] == b'"' {
                        i += 2;
                    } else {
                        i += 1;
                        break;
                    }
                } else {
                    i += 1;
                }
            }
            let end = i.min(b.len());
            out.push(&text[start..end]);
        } else if c == b'/' && i + 1 < b.len() && b[i + 1] == b'*' {
            i += 2;
            while i + 1 < b.len() && !(b[i] == b'*' && b[i + 1] == b'/') {
                i += 1;
            }
            i = (i + 2).min(b.len());
        } else if c == b'/' && i + 1 < b.len() && b[i + 1] == b'/' {
            while i < b.len() && b[i] != b'\n' {
                i += 1;
            }
        } else {
            let start = i;
            while i < b.len() && !b[i].is_ascii_whitespace() {
                // a comment may follow a token without a blank
                if b[i] == b'/' && i + 1 < b.len() && (b[i + 1] == b'*' || b[i + 1] == b'/') && i > start {
                    break;
                }
                i += 1;
            }
            out.push(&text[start..i]);
        }
    }
    out
}

pub fn run_sortdoc(case: &Sx) -> Sx {
    let text = case.as_list()[0].as_str();
    let (mut file, _log) = match load(&text, &None, false) {
        Ok(Ok(v)) => v,
        _ => return Sx::L(vec![Sx::s("NOLOAD")]),
    };
    if catch_unwind(AssertUnwindSafe(|| file.sort())).is_err() {
        return Sx::L(vec![Sx::s("PANIC"), Sx::s("sort")]);
    }
    let Ok(written) = catch_unwind(AssertUnwindSafe(|| file.write_to_string())) else {
        return Sx::L(vec![Sx::s("PANIC"), Sx::s("write")]);
    };
    // the elements of every MODULE in the order of the written text: tag and first token behind it
    let toks: Vec<&str> = plain_tokens(&written);
    let mut depth = 0usize;
    let mut modules: Vec<(String, Vec<Sx>)> = vec![];
    let mut i = 0;
    while i < toks.len() {
        if toks[i] == "/begin" && i + 1 < toks.len() {
            depth += 1;
            if depth == 2 && toks[i + 1] == "MODULE" {
                modules.push((toks.get(i + 2).unwrap_or(&"").to_string(), vec![]));
            } else if depth == 3 {
                if let Some(m) = modules.last_mut() {
                    m.1.push(Sx::L(vec![Sx::s(toks[i + 1]), Sx::s(toks.get(i + 2).unwrap_or(&""))]));
                }
            }
            i += 2;
            continue;
        }
        if toks[i] == "/end" {
            depth = depth.saturating_sub(1);
            i += 2;
            continue;
        }
        i += 1;
    }
    let reloaded = catch_unwind(AssertUnwindSafe(|| a2lfile::load_from_string(&written, None, false)));
    let (loads, eq) = match &reloaded {
        Ok(Ok((r, _))) => (true, *r == file),
        _ => (false, false),
    };
    let mut again = file.clone();
    let idem = catch_unwind(AssertUnwindSafe(|| {
        again.sort();
        again == file && again.write_to_string() == written
    }))
    .unwrap_or(false);
    Sx::L(vec![
        Sx::s("OK"),
        Sx::L(modules.into_iter().map(|(n, els)| Sx::L(vec![Sx::s(&n), Sx::L(els)])).collect()),
        Sx::b(loads),
        Sx::b(eq),
        Sx::b(idem),
        Sx::L(file.project.module.iter().map(|m| Sx::s(a2lfile::A2lObjectName::get_name(m))).collect()),
    ])
}

pub fn run_tokens(case: &Sx) -> Sx {
    let text = case.as_list()[0].as_str();
    match catch_unwind(AssertUnwindSafe(|| a2lfile::verif_hooks::tokenize("", &text))) {
        Err(_) => Sx::L(vec![Sx::s("PANIC")]),
        Ok(Err(e)) => Sx::L(vec![Sx::s("ERR"), diag_tokenizer(&e)]),
        Ok(Ok((tokens, _))) => Sx::L(vec![
            Sx::s("OK"),
            Sx::L(tokens
                .iter()
                .map(|(kind, start, end, fileid, line)| {
                    Sx::L(vec![
                        Sx::I(*kind as i128),
                        Sx::n(*start),
                        Sx::n(*end),
                        Sx::n(*fileid),
                        Sx::I(*line as i128),
                    ])
                })
                .collect()),
        ]),
    }
}
