//! C14 / C15: histories over {push, sort_new_items, sort} on one MODULE built through the public API,
//! observing every list (name, uid, offsets) and the order of the module's children in the written text.
use crate::sx::Sx;
use a2lfile::*;
use std::panic::{catch_unwind, AssertUnwindSafe};

const TAGS: [&str; 20] = [
    "AXIS_PTS", "BLOB", "CHARACTERISTIC", "COMPU_METHOD", "COMPU_TAB", "COMPU_VTAB", "COMPU_VTAB_RANGE",
    "FRAME", "FUNCTION", "GROUP", "INSTANCE", "MEASUREMENT", "RECORD_LAYOUT", "TRANSFORMER", "TYPEDEF_AXIS",
    "TYPEDEF_BLOB", "TYPEDEF_CHARACTERISTIC", "TYPEDEF_MEASUREMENT", "TYPEDEF_STRUCTURE", "UNIT",
];

struct El {
    name: String,
    uid: u32,
    line: u32,
    so: u32,
    eo: u32,
}

fn dec_el(x: &Sx) -> El {
    let l = x.as_list();
    El {
        name: l[1].as_str(),
        uid: l[3].as_int() as u32,
        line: l[4].as_int() as u32,
        so: l[5].as_int() as u32,
        eo: l[6].as_int() as u32,
    }
}

fn enc(tag: &str, name: &str, uid: u32, line: u32, so: u32, eo: u32) -> Sx {
    Sx::L(vec![
        Sx::s(tag),
        Sx::s(name),
        Sx::I(0),
        Sx::I(uid as i128),
        Sx::I(line as i128),
        Sx::I(so as i128),
        Sx::I(eo as i128),
    ])
}

macro_rules! set_layout {
    ($obj:expr, $e:expr) => {{
        let lay = $obj.get_layout_mut();
        lay.uid = $e.uid;
        lay.line = $e.line;
        lay.start_offset = $e.so;
        lay.end_offset = $e.eo;
    }};
}

macro_rules! push_into {
    ($list:expr, $item:expr, $e:expr) => {{
        let mut it = $item;
        set_layout!(it, $e);
        $list.push(it);
    }};
}

fn s(x: &str) -> String {
    x.to_string()
}

fn push_el(m: &mut Module, k: usize, e: &El) {
    let n = e.name.clone();
    match k {
        0 => push_into!(m.axis_pts, AxisPts::new(n, s(""), 0, s("NO_INPUT_QUANTITY"), s("rl"), 0.0, s("NO_COMPU_METHOD"), 1, 0.0, 1.0), e),
        1 => push_into!(m.blob, Blob::new(n, s(""), 0, 1), e),
        2 => push_into!(m.characteristic, Characteristic::new(n, s(""), CharacteristicType::Value, 0, s("rl"), 0.0, s("NO_COMPU_METHOD"), 0.0, 1.0), e),
        3 => push_into!(m.compu_method, CompuMethod::new(n, s(""), ConversionType::Identical, s("%4.2"), s("")), e),
        4 => push_into!(m.compu_tab, CompuTab::new(n, s(""), ConversionType::TabIntp, 0), e),
        5 => push_into!(m.compu_vtab, CompuVtab::new(n, s(""), ConversionType::TabVerb, 0), e),
        6 => push_into!(m.compu_vtab_range, CompuVtabRange::new(n, s(""), 0), e),
        7 => push_into!(m.frame, Frame::new(n, s(""), 1, 1), e),
        8 => push_into!(m.function, Function::new(n, s("")), e),
        9 => push_into!(m.group, Group::new(n, s("")), e),
        10 => push_into!(m.instance, Instance::new(n, s(""), s("td"), 0), e),
        11 => push_into!(m.measurement, Measurement::new(n, s(""), DataType::Ubyte, s("NO_COMPU_METHOD"), 0, 0.0, 0.0, 255.0), e),
        12 => push_into!(m.record_layout, RecordLayout::new(n), e),
        13 => push_into!(m.transformer, Transformer::new(n, s("1"), s(""), s(""), 1, TransformerTrigger::OnChange, s("NO_INVERSE_TRANSFORMER")), e),
        14 => push_into!(m.typedef_axis, TypedefAxis::new(n, s(""), s("NO_INPUT_QUANTITY"), s("rl"), 0.0, s("NO_COMPU_METHOD"), 1, 0.0, 1.0), e),
        15 => push_into!(m.typedef_blob, TypedefBlob::new(n, s(""), 1), e),
        16 => push_into!(m.typedef_characteristic, TypedefCharacteristic::new(n, s(""), CharacteristicType::Value, s("rl"), 0.0, s("NO_COMPU_METHOD"), 0.0, 1.0), e),
        17 => push_into!(m.typedef_measurement, TypedefMeasurement::new(n, s(""), DataType::Ubyte, s("NO_COMPU_METHOD"), 0, 0.0, 0.0, 255.0), e),
        18 => push_into!(m.typedef_structure, TypedefStructure::new(n, s(""), 1), e),
        19 => push_into!(m.unit, Unit::new(n, s(""), s(""), UnitType::Derived), e),
        _ => panic!("case format: list index"),
    }
}

macro_rules! dump_list {
    ($list:expr, $tag:expr) => {
        Sx::L($list
            .iter()
            .map(|it| {
                let lay = it.get_layout();
                enc($tag, it.get_name(), lay.uid, lay.line, lay.start_offset, lay.end_offset)
            })
            .collect())
    };
}

macro_rules! dump_opt {
    ($o:expr, $tag:expr) => {
        Sx::opt($o.as_ref().map(|it| {
            let lay = it.get_layout();
            enc($tag, "", lay.uid, lay.line, lay.start_offset, lay.end_offset)
        }))
    };
}

fn written_order(a2l: &A2lFile) -> Sx {
    let text = a2l.write_to_string();
    let toks: Vec<&str> = text.split_whitespace().collect();
    let mut depth = 0;
    let mut out = vec![];
    let mut i = 0;
    while i < toks.len() {
        if toks[i] == "/begin" {
            depth += 1;
            if depth == 3 && i + 1 < toks.len() {
                let tag = toks[i + 1];
                let named = TAGS.contains(&tag) || tag == "USER_RIGHTS";
                let name = if named && i + 2 < toks.len() { toks[i + 2] } else { "" };
                out.push(Sx::L(vec![Sx::s(tag), Sx::s(name)]));
            }
            i += 2;
            continue;
        }
        if toks[i] == "/end" {
            depth -= 1;
            i += 2;
            continue;
        }
        i += 1;
    }
    Sx::L(out)
}

fn observe(a2l: &A2lFile) -> Sx {
    let m = &a2l.project.module[0];
    let lists = vec![
        dump_list!(m.axis_pts, TAGS[0]),
        dump_list!(m.blob, TAGS[1]),
        dump_list!(m.characteristic, TAGS[2]),
        dump_list!(m.compu_method, TAGS[3]),
        dump_list!(m.compu_tab, TAGS[4]),
        dump_list!(m.compu_vtab, TAGS[5]),
        dump_list!(m.compu_vtab_range, TAGS[6]),
        dump_list!(m.frame, TAGS[7]),
        dump_list!(m.function, TAGS[8]),
        dump_list!(m.group, TAGS[9]),
        dump_list!(m.instance, TAGS[10]),
        dump_list!(m.measurement, TAGS[11]),
        dump_list!(m.record_layout, TAGS[12]),
        dump_list!(m.transformer, TAGS[13]),
        dump_list!(m.typedef_axis, TAGS[14]),
        dump_list!(m.typedef_blob, TAGS[15]),
        dump_list!(m.typedef_characteristic, TAGS[16]),
        dump_list!(m.typedef_measurement, TAGS[17]),
        dump_list!(m.typedef_structure, TAGS[18]),
        dump_list!(m.unit, TAGS[19]),
    ];
    let ifd = Sx::L(m
        .if_data
        .iter()
        .map(|it| {
            let lay = it.get_layout();
            enc("IF_DATA", "", lay.uid, lay.line, lay.start_offset, lay.end_offset)
        })
        .collect());
    let ur = Sx::L(m
        .user_rights
        .iter()
        .map(|it| {
            let lay = it.get_layout();
            enc("USER_RIGHTS", &it.user_level_id, lay.uid, lay.line, lay.start_offset, lay.end_offset)
        })
        .collect());
    let state = Sx::L(vec![
        dump_opt!(m.a2ml, "A2ML"),
        dump_opt!(m.mod_common, "MOD_COMMON"),
        dump_opt!(m.mod_par, "MOD_PAR"),
        dump_opt!(m.variant_coding, "VARIANT_CODING"),
        ifd,
        ur,
        Sx::L(vec![]),
        Sx::L(lists),
    ]);
    Sx::L(vec![state, written_order(a2l)])
}

pub fn run(case: &Sx) -> Sx {
    let c = case.as_list();
    let mut a2l = a2lfile::new();
    {
        let m = &mut a2l.project.module[0];
        let st = c[1].as_list();
        if let Some(e) = st[0].as_list().first() {
            let e = dec_el(e);
            let mut x = A2ml::new(s("block \"IF_DATA\" long;"));
            set_layout!(x, e);
            m.a2ml = Some(x);
        }
        if let Some(e) = st[1].as_list().first() {
            let e = dec_el(e);
            let mut x = ModCommon::new(s(""));
            set_layout!(x, e);
            m.mod_common = Some(x);
        }
        if let Some(e) = st[2].as_list().first() {
            let e = dec_el(e);
            let mut x = ModPar::new(s(""));
            set_layout!(x, e);
            m.mod_par = Some(x);
        }
        if let Some(e) = st[3].as_list().first() {
            let e = dec_el(e);
            let mut x = VariantCoding::new();
            set_layout!(x, e);
            m.variant_coding = Some(x);
        }
        for e in st[4].as_list() {
            let e = dec_el(e);
            let mut x = IfData::new();
            set_layout!(x, e);
            m.if_data.push(x);
        }
        for e in st[5].as_list() {
            let e = dec_el(e);
            let mut x = UserRights::new(e.name.clone());
            set_layout!(x, e);
            m.user_rights.push(x);
        }
        for (k, l) in st[7].as_list().iter().enumerate() {
            for e in l.as_list() {
                push_el(m, k, &dec_el(e));
            }
        }
    }
    let mut out = vec![];
    match catch_unwind(AssertUnwindSafe(|| observe(&a2l))) {
        Ok(o) => out.push(o),
        Err(_) => return Sx::L(vec![Sx::L(vec![Sx::s("PANIC")])]),
    }
    for op in c[2].as_list() {
        let o = op.as_list();
        let tag = o[0].as_str();
        let r = catch_unwind(AssertUnwindSafe(|| {
            match tag.as_str() {
                "sni" => a2l.sort_new_items(),
                "sort" => a2l.sort(),
                "rt" | "wt" => {}
                "push" => {
                    let e = dec_el(&o[2]);
                    push_el(&mut a2l.project.module[0], o[1].as_usize(), &e)
                }
                _ => panic!("case format"),
            }
            let mut obs = observe(&a2l);
            if tag == "sort" {
                // C14: the written file reloads to an equal model in the same order, and a second sort is a no-op
                let text = a2l.write_to_string();
                let reloaded = a2lfile::load_from_string(&text, None, true);
                let (eq, same_text) = match &reloaded {
                    Ok((r, _log)) => (*r == a2l, r.write_to_string() == text),
                    Err(_) => (false, false),
                };
                let mut again = a2l.clone();
                again.sort();
                let idem = again.write_to_string() == text && again == a2l;
                if let Sx::L(v) = &mut obs {
                    v.push(Sx::L(vec![Sx::b(reloaded.is_ok()), Sx::b(eq), Sx::b(same_text), Sx::b(idem)]));
                }
            }
            if tag == "wt" {
                // the complete text written from the model as it stands (C20: API-built elements in both builds)
                let text = a2l.write_to_string();
                if let Sx::L(v) = &mut obs {
                    v.push(Sx::s(&text));
                }
            }
            if tag == "rt" {
                // C01: write, load again, compare the model and the text written from the reloaded model
                let text = a2l.write_to_string();
                let reloaded = a2lfile::load_from_string(&text, None, true);
                let (eq, same_text) = match &reloaded {
                    Ok((r, _log)) => (*r == a2l, r.write_to_string() == text),
                    Err(_) => (false, false),
                };
                if let Sx::L(v) = &mut obs {
                    v.push(Sx::L(vec![Sx::b(reloaded.is_ok()), Sx::b(eq), Sx::b(same_text)]));
                }
            }
            obs
        }));
        match r {
            Ok(o) => out.push(o),
            Err(_) => {
                out.push(Sx::L(vec![Sx::s("PANIC")]));
                break;
            }
        }
    }
    Sx::L(out)
}
