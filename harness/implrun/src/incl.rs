//! Case kind INCL (property C16): loading through /include, writing next to the sources, merge_includes.
//!
//! case   ::= ( ( <file>* ) s<main relative path> i<strict 0|1> s<flattened text or empty> [ ( <op>* ) ] )
//! file   ::= ( s<relative path> s<file bytes> )          a path that ends in '/' creates a directory
//! answer ::= ( sOK <node A2lFile> ( s<diagnostic>* ) s<write_to_string()> <reload> <merged> <flat> )
//!          | ( sERR s<A2lError variant> s<display text> s<inner variant> <flat alone> )     a2lfile::load failed
//!              flat alone ::= ( ) | ( sOK ( s<diagnostic>* ) ) | ( sERR s<message> s<variant> s<inner variant> ) | ( sPANIC s<stage> )
//!              (variant "Harness": the case could not be set up, e.g. a path leaves the case directory)
//!          | ( sPANIC s<stage> )
//! reload ::= ( sOK i<model equal> i<text equal> s<bytes of the written file> s<text written from the reloaded model> )
//!          | ( sERR s<message> s<variant> s<inner variant> s<bytes of the written file> ) | ( sPANIC s<stage> )
//!            the model is written with A2lFile::write to "<dir of main>/__written.a2l" and that file is loaded
//! merged ::= ( sOK s<text> i<text contains "/include"> i<load_from_string(text) == loaded model>
//!                  i<load_from_string(text) == merged clone> i<an /include token outside A2ML is left> )
//!          | ( sERR s<message> s<variant> s<inner variant> s<text> ) | ( sPANIC s<stage> )
//!            clone, merge_includes(), write_to_string()
//! flat   ::= ( ) when the flattened text is empty
//!          | ( sOK i<load_from_string(flat) == loaded model> i<.. == merged clone> ( s<diagnostic>* ) <node of flat>? )
//!            (the node is present only when the first comparison fails)
//!          | ( sERR s<message> s<variant> s<inner variant> ) | ( sPANIC s<stage> )
//! The case directory /verif/build/tmp/incl-<pid>-<counter>/ is removed afterwards.
use crate::dump_gen::dump_a2lfile;
use crate::sx::Sx;
use a2lfile::{A2lError, A2lFile, A2lObject};
use std::panic::{catch_unwind, AssertUnwindSafe};
use std::path::{Component, Path, PathBuf};
use std::sync::atomic::{AtomicUsize, Ordering};

static COUNTER: AtomicUsize = AtomicUsize::new(0);
const TMP_ROOT: &str = "/verif/build/tmp";

fn first_word(dbg: &str) -> String {
    dbg.split(|c: char| !c.is_alphanumeric() && c != '_')
        .next()
        .unwrap_or("")
        .to_string()
}

/// (outer variant, inner variant or "")
fn variants(e: &A2lError) -> (String, String) {
    let outer = first_word(&format!("{e:?}"));
    let inner = match e {
        A2lError::TokenizerError { tokenizer_error } => first_word(&format!("{tokenizer_error:?}")),
        A2lError::ParserError { parser_error } => first_word(&format!("{parser_error:?}")),
        _ => String::new(),
    };
    (outer, inner)
}

fn err_items(e: &A2lError) -> Vec<Sx> {
    let (outer, inner) = variants(e);
    vec![Sx::s("ERR"), Sx::s(&e.to_string()), Sx::s(&outer), Sx::s(&inner)]
}

fn harness_err(msg: &str) -> Sx {
    Sx::L(vec![Sx::s("ERR"), Sx::s("Harness"), Sx::s(msg), Sx::s("")])
}

fn panic_at(stage: &str) -> Sx {
    Sx::L(vec![Sx::s("PANIC"), Sx::s(stage)])
}

fn diags(log: &[A2lError]) -> Sx {
    Sx::L(log.iter().map(|e| Sx::s(&e.to_string())).collect())
}

/// relative path made of normal components only (".." may not leave the case directory)
fn safe_join(root: &Path, rel: &str) -> Result<PathBuf, String> {
    if rel.is_empty() || rel.contains('\0') {
        return Err(format!("bad path {rel:?}"));
    }
    let mut depth: i64 = 0;
    let mut out = root.to_path_buf();
    for comp in Path::new(rel).components() {
        match comp {
            Component::Normal(c) => {
                depth += 1;
                out.push(c);
            }
            Component::CurDir => {}
            Component::ParentDir => {
                depth -= 1;
                if depth < 0 {
                    return Err(format!("path {rel:?} leaves the case directory"));
                }
                out.pop();
            }
            _ => return Err(format!("path {rel:?} is not relative")),
        }
    }
    if depth <= 0 {
        return Err(format!("path {rel:?} names the case directory itself"));
    }
    Ok(out)
}

struct CaseDir(PathBuf);

fn decoy_dir(root: &Path) -> PathBuf {
    let mut name = root.file_name().map(|n| n.to_os_string()).unwrap_or_default();
    name.push("-cwd");
    root.with_file_name(name)
}

impl Drop for CaseDir {
    fn drop(&mut self) {
        let _ = std::env::set_current_dir(TMP_ROOT);
        let _ = std::fs::remove_dir_all(&self.0);
        let _ = std::fs::remove_dir_all(decoy_dir(&self.0));
    }
}

fn setup(files: &[Sx], main_rel: &str, decoys: &[Sx]) -> Result<(CaseDir, PathBuf), String> {
    let n = COUNTER.fetch_add(1, Ordering::SeqCst);
    let root = Path::new(TMP_ROOT).join(format!("incl-{}-{}", std::process::id(), n));
    let _ = std::fs::remove_dir_all(&root);
    std::fs::create_dir_all(&root).map_err(|e| format!("create {}: {e}", root.display()))?;
    let dir = CaseDir(root);
    for f in files {
        let (rel, bytes) = match f {
            Sx::L(l) if l.len() >= 2 => match (&l[0], &l[1]) {
                (Sx::S(p), Sx::S(b)) => (String::from_utf8_lossy(p).into_owned(), b.clone()),
                _ => return Err("file entry: two strings expected".to_string()),
            },
            _ => return Err("file entry: list of two strings expected".to_string()),
        };
        let is_dir = rel.ends_with('/');
        let path = safe_join(&dir.0, rel.trim_end_matches('/'))?;
        if is_dir {
            std::fs::create_dir_all(&path).map_err(|e| format!("mkdir {rel}: {e}"))?;
            continue;
        }
        if let Some(parent) = path.parent() {
            std::fs::create_dir_all(parent).map_err(|e| format!("mkdir for {rel}: {e}"))?;
        }
        std::fs::write(&path, &bytes).map_err(|e| format!("write {rel}: {e}"))?;
    }
    let main = safe_join(&dir.0, main_rel)?;
    // The process works in a directory of decoys (paths chosen by the driver: the names of directives that resolve next to their
    // including file, never a name that is missing there): such a name also exists relative to the working directory then, and
    // must still be taken from next to the including file.
    let cwd = decoy_dir(&dir.0);
    let _ = std::fs::remove_dir_all(&cwd);
    std::fs::create_dir_all(&cwd).map_err(|e| format!("create {}: {e}", cwd.display()))?;
    for d in decoys {
        if let Sx::S(p) = d {
            let rel = String::from_utf8_lossy(p).into_owned();
            if let Ok(path) = safe_join(&cwd, &rel) {
                if let Some(parent) = path.parent() {
                    let _ = std::fs::create_dir_all(parent);
                }
                if !path.is_dir() {
                    let _ = std::fs::write(&path, format!("/* decoy of {rel} */\n"));
                }
            }
        }
    }
    std::env::set_current_dir(&cwd).map_err(|e| format!("chdir: {e}"))?;
    Ok((dir, main))
}

fn reload(file: &A2lFile, text1: &str, main: &Path, strict: bool) -> Sx {
    let wpath = match main.parent() {
        Some(p) => p.join("__written.a2l"),
        None => return Sx::L(vec![Sx::s("ERR"), Sx::s("no parent directory"), Sx::s("Harness"), Sx::s(""), Sx::s("")]),
    };
    match catch_unwind(AssertUnwindSafe(|| file.write(&wpath, None))) {
        Err(_) => return panic_at("write"),
        Ok(Err(e)) => {
            let mut v = err_items(&e);
            v.push(Sx::s(""));
            return Sx::L(v);
        }
        Ok(Ok(())) => {}
    }
    let written = std::fs::read(&wpath).unwrap_or_default();
    match catch_unwind(AssertUnwindSafe(|| a2lfile::load(&wpath, None, strict))) {
        Err(_) => panic_at("reload"),
        Ok(Err(e)) => {
            let mut v = err_items(&e);
            v.push(Sx::S(written));
            Sx::L(v)
        }
        Ok(Ok((again, _))) => {
            match catch_unwind(AssertUnwindSafe(|| (again == *file, again.write_to_string()))) {
                Err(_) => panic_at("reload-compare"),
                Ok((meq, text2)) => Sx::L(vec![Sx::s("OK"), Sx::b(meq), Sx::b(text2 == text1), Sx::S(written), Sx::s(&text2)]),
            }
        }
    }
}

/// is an Include token left over in the A2L text (outside strings, comments and the A2ML block)?
fn include_token_left(text: &str) -> bool {
    match catch_unwind(AssertUnwindSafe(|| a2lfile::verif_hooks::tokenize("", text))) {
        Err(_) => false,
        Ok(Err(e)) => {
            let v = first_word(&format!("{e:?}"));
            v == "IncludeFileError" || v == "IncompleteIncludeError"
        }
        Ok(Ok((tokens, filedata))) => filedata.len() > 1 || tokens.iter().any(|t| t.0 == 3),
    }
}

fn merged(file: &A2lFile, strict: bool) -> (Sx, Option<A2lFile>) {
    let mut m = match catch_unwind(AssertUnwindSafe(|| file.clone())) {
        Ok(m) => m,
        Err(_) => return (panic_at("clone"), None),
    };
    if catch_unwind(AssertUnwindSafe(|| m.merge_includes())).is_err() {
        return (panic_at("merge_includes"), None);
    }
    let Ok(text) = catch_unwind(AssertUnwindSafe(|| m.write_to_string())) else {
        return (panic_at("write-merged"), Some(m));
    };
    let res = match catch_unwind(AssertUnwindSafe(|| a2lfile::load_from_string(&text, None, strict))) {
        Err(_) => panic_at("load-merged"),
        Ok(Err(e)) => {
            let mut v = err_items(&e);
            v.push(Sx::s(&text));
            Sx::L(v)
        }
        Ok(Ok((again, _))) => match catch_unwind(AssertUnwindSafe(|| (again == *file, again == m))) {
            Err(_) => panic_at("merged-compare"),
            Ok((eq_orig, eq_merged)) => Sx::L(vec![
                Sx::s("OK"),
                Sx::s(&text),
                Sx::b(text.contains("/include")),
                Sx::b(eq_orig),
                Sx::b(eq_merged),
                Sx::b(include_token_left(&text)),
            ]),
        },
    };
    (res, Some(m))
}

fn flat(file: &A2lFile, merged_model: &Option<A2lFile>, flat_text: &str, strict: bool) -> Sx {
    if flat_text.is_empty() {
        return Sx::L(vec![]);
    }
    match catch_unwind(AssertUnwindSafe(|| a2lfile::load_from_string(flat_text, None, strict))) {
        Err(_) => panic_at("load-flat"),
        Ok(Err(e)) => Sx::L(err_items(&e)),
        Ok(Ok((f, log))) => {
            let cmp = catch_unwind(AssertUnwindSafe(|| {
                (f == *file, merged_model.as_ref().map(|m| f == *m).unwrap_or(false))
            }));
            let Ok((eq, eqm)) = cmp else {
                return panic_at("flat-compare");
            };
            let mut v = vec![Sx::s("OK"), Sx::b(eq), Sx::b(eqm), diags(&log)];
            if !eq {
                match catch_unwind(AssertUnwindSafe(|| dump_a2lfile(&f))) {
                    Ok(d) => v.push(d),
                    Err(_) => return panic_at("dump-flat"),
                }
            }
            Sx::L(v)
        }
    }
}

/// outcome of the flattened text when the load through includes failed
fn flat_alone(flat_text: &str, strict: bool) -> Sx {
    if flat_text.is_empty() {
        return Sx::L(vec![]);
    }
    match catch_unwind(AssertUnwindSafe(|| a2lfile::load_from_string(flat_text, None, strict))) {
        Err(_) => panic_at("load-flat"),
        Ok(Err(e)) => Sx::L(err_items(&e)),
        Ok(Ok((_, log))) => Sx::L(vec![Sx::s("OK"), diags(&log)]),
    }
}

fn run_inner(case: &Sx) -> Sx {
    let c = match case {
        Sx::L(l) if l.len() >= 4 => l,
        _ => return harness_err("case: list of four items expected"),
    };
    let (files, main_rel, strict, flat_text) = match (&c[0], &c[1], &c[2], &c[3]) {
        (Sx::L(f), Sx::S(m), Sx::I(s), Sx::S(t)) => (
            f,
            String::from_utf8_lossy(m).into_owned(),
            *s != 0,
            String::from_utf8_lossy(t).into_owned(),
        ),
        _ => return harness_err("case: ( files main strict flat ) expected"),
    };
    let no_decoys: Vec<Sx> = Vec::new();
    let decoys: &[Sx] = match c.get(5) {
        Some(Sx::L(d)) => d,
        _ => &no_decoys,
    };
    let (_dir, main) = match setup(files, &main_rel, decoys) {
        Ok(v) => v,
        Err(msg) => return harness_err(&msg),
    };

    let (file, log) = match catch_unwind(AssertUnwindSafe(|| a2lfile::load(&main, None, strict))) {
        Err(_) => return panic_at("load"),
        Ok(Err(e)) => {
            let (outer, inner) = variants(&e);
            return Sx::L(vec![
                Sx::s("ERR"),
                Sx::s(&outer),
                Sx::s(&e.to_string()),
                Sx::s(&inner),
                flat_alone(&flat_text, strict),
            ]);
        }
        Ok(Ok(v)) => v,
    };
    // optional seventh item i1: load the main file once more by its BARE name with the working directory set to its directory (a tool
    // started in the project directory) - the same files must give an equal model
    let bare: Sx = match c.get(6) {
        Some(Sx::I(1)) => {
            let dir = main.parent().map(|p| p.to_path_buf()).unwrap_or_default();
            let name = main.file_name().map(|n| n.to_os_string()).unwrap_or_default();
            let back = std::env::current_dir().ok();
            let _ = std::env::set_current_dir(&dir);
            let r = catch_unwind(AssertUnwindSafe(|| a2lfile::load(Path::new(&name), None, strict)));
            if let Some(b) = back {
                let _ = std::env::set_current_dir(b);
            }
            match r {
                Err(_) => Sx::L(vec![Sx::s("PANIC")]),
                Ok(Err(e)) => Sx::L(vec![Sx::s("ERR"), Sx::s(&e.to_string())]),
                Ok(Ok((f2, _))) => Sx::L(vec![Sx::s(if f2 == file { "SAME" } else { "DIFF" })]),
            }
        }
        _ => Sx::L(vec![]),
    };
    // optional fifth item: edits through the public API before anything is written
    //   op ::= ( spush i<kind> s<name> ) | ( ssni ) | ( ssort )      (kinds as in edit.rs; the first MODULE is edited)
    let mut file = file;
    if let Some(Sx::L(ops)) = c.get(4) {
        for op in ops {
            let o = op.as_list();
            let what = o[0].as_str();
            let r = catch_unwind(AssertUnwindSafe(|| match what.as_str() {
                "push" => {
                    if !file.project.module.is_empty() {
                        crate::edit::push_new(&mut file.project.module[0], o[1].as_int() as usize, o[2].as_str());
                    }
                }
                "sni" => file.sort_new_items(),
                "sort" => file.sort(),
                _ => {}
            }));
            if r.is_err() {
                return panic_at("edit");
            }
        }
    }
    let Ok(dump) = catch_unwind(AssertUnwindSafe(|| dump_a2lfile(&file))) else {
        return panic_at("dump");
    };
    let Ok(text1) = catch_unwind(AssertUnwindSafe(|| file.write_to_string())) else {
        return panic_at("write_to_string");
    };
    let rel = reload(&file, &text1, &main, strict);
    let (mrg, merged_model) = merged(&file, strict);
    let flt = flat(&file, &merged_model, &flat_text, strict);
    Sx::L(vec![Sx::s("OK"), dump, diags(&log), Sx::s(&text1), rel, mrg, flt, bare])
}

pub fn run(case: &Sx) -> Sx {
    match catch_unwind(AssertUnwindSafe(|| run_inner(case))) {
        Ok(v) => v,
        Err(_) => panic_at("harness"),
    }
}


/// Case kind LOADINC: the LOAD answer format (see load.rs) for a document that lives in files.
/// case   ( ( <file>* ) s<main relative path> i<strict> )
/// answer ( sOK <node> ( <diag>* ) s<write_to_string()> ( ) <floattable of all file texts> <a2mltable> s<case directory> )
///      | ( sERR <diag> <floattable> <a2mltable> s<case directory> ) | ( sPANIC s<stage> <floattable> <a2mltable> s<case directory> )
pub fn run_loadinc(case: &Sx) -> Sx {
    use crate::load::{a2mltable, diag_a2l, floattable_words};
    let c = case.as_list();
    let files = c[0].as_list();
    let main_rel = c[1].as_str();
    let strict = c[2].as_int() != 0;
    let mut all_text = String::new();
    for f in files {
        let l = f.as_list();
        all_text.push_str(&String::from_utf8_lossy(l[1].as_bytes()));
        all_text.push('\n');
    }
    let (dir, main) = match setup(files, &main_rel, &[]) {
        Ok(v) => v,
        Err(msg) => return harness_err(&msg),
    };
    let dirname = Sx::s(&dir.0.to_string_lossy());
    let tables = || vec![floattable_words(&all_text), a2mltable("", &None), dirname.clone()];
    let loaded = catch_unwind(AssertUnwindSafe(|| a2lfile::load(&main, None, strict)));
    let (file, log) = match loaded {
        Err(_) => return Sx::L([vec![Sx::s("PANIC"), Sx::s("load")], tables()].concat()),
        Ok(Err(e)) => return Sx::L([vec![Sx::s("ERR"), diag_a2l(&e)], tables()].concat()),
        Ok(Ok(v)) => v,
    };
    let Ok(dump) = catch_unwind(AssertUnwindSafe(|| dump_a2lfile(&file))) else {
        return Sx::L([vec![Sx::s("PANIC"), Sx::s("dump")], tables()].concat());
    };
    let Ok(text1) = catch_unwind(AssertUnwindSafe(|| file.write_to_string())) else {
        return Sx::L([vec![Sx::s("PANIC"), Sx::s("write")], tables()].concat());
    };
    Sx::L(
        [vec![Sx::s("OK"), dump, Sx::L(log.iter().map(diag_a2l).collect()), Sx::s(&text1), Sx::L(vec![])], tables()].concat(),
    )
}
