//! C12: limit plausibility. calc through the cfg hook, the error decision through the public check()
//! on a module built for the object kind (so that "which data type applies" is exercised too).
use crate::sx::Sx;
use a2lfile::*;

fn f(x: &Sx) -> f64 {
    f64::from_bits(x.as_int() as u64)
}
fn bits(v: f64) -> Sx {
    // canonical NaN
    if v.is_nan() {
        Sx::I(0x7FF8000000000000)
    } else {
        Sx::I(v.to_bits() as i128)
    }
}
fn s(x: &str) -> String {
    x.to_string()
}

fn dt(i: i128) -> DataType {
    match i {
        0 => DataType::Ubyte,
        1 => DataType::Sbyte,
        2 => DataType::Uword,
        3 => DataType::Sword,
        4 => DataType::Ulong,
        5 => DataType::Slong,
        6 => DataType::AUint64,
        7 => DataType::AInt64,
        8 => DataType::Float16Ieee,
        9 => DataType::Float32Ieee,
        _ => DataType::Float64Ieee,
    }
}

fn mk_cm(kind: i128, cs: &[Sx]) -> Option<CompuMethod> {
    let ct = match kind {
        0 => return None,
        1 => ConversionType::Form,
        2 | 3 => ConversionType::Linear,
        4 | 5 => ConversionType::RatFunc,
        6 => ConversionType::Identical,
        7 => ConversionType::TabIntp,
        8 => ConversionType::TabNointp,
        _ => ConversionType::TabVerb,
    };
    let mut cm = CompuMethod::new(s("cm"), s(""), ct, s("%6.2"), s(""));
    if kind == 3 {
        cm.coeffs_linear = Some(CoeffsLinear::new(f(&cs[0]), f(&cs[1])));
    }
    if kind == 5 {
        cm.coeffs = Some(Coeffs::new(f(&cs[0]), f(&cs[1]), f(&cs[2]), f(&cs[3]), f(&cs[4]), f(&cs[5])));
    }
    Some(cm)
}

/// put the object of a case (with its compu method and record layout) into a module; returns the block name of the object
fn fill_module(m: &mut Module, c: &[Sx], name: &str, rlname: &str) -> &'static str {
    let okind = c[0].as_int();
    let dtype = dt(c[1].as_int());
    let cm = mk_cm(c[2].as_int(), c[3].as_list());
    let (lo, hi) = (f(&c[4]), f(&c[5]));
    let conv = if cm.is_some() { s("cm") } else { s("NO_COMPU_METHOD") };
    if let Some(cm) = cm {
        m.compu_method.push(cm);
    }
    let mut rl = RecordLayout::new(s(rlname));
    let blockname;
    match okind {
        0 => {
            blockname = "MEASUREMENT";
            m.measurement.push(Measurement::new(s(name), s(""), dtype, conv, 0, 0.0, lo, hi));
        }
        1 => {
            blockname = "CHARACTERISTIC";
            rl.fnc_values = Some(FncValues::new(1, dtype, IndexMode::RowDir, AddrType::Direct));
            m.characteristic.push(Characteristic::new(
                s(name), s(""), CharacteristicType::Value, 0, s(rlname), 0.0, conv, lo, hi,
            ));
        }
        7 | 8 | 9 => {
            // the other characteristic types whose values are described by FNC_VALUES
            blockname = "CHARACTERISTIC";
            rl.fnc_values = Some(FncValues::new(1, dtype, IndexMode::RowDir, AddrType::Direct));
            let ctype = match okind { 7 => CharacteristicType::Ascii, 8 => CharacteristicType::ValBlk, _ => CharacteristicType::Curve };
            let mut ch = Characteristic::new(s(name), s(""), ctype, 0, s(rlname), 0.0, conv, lo, hi);
            if okind == 7 || okind == 8 {
                ch.number = Some(Number::new(4));
            } else {
                let mut fix = AxisDescr::new(AxisDescrAttribute::FixAxis, s("NO_INPUT_QUANTITY"), s("NO_COMPU_METHOD"), 2, 0.0, 1.0);
                fix.fix_axis_par_dist = Some(FixAxisParDist::new(0, 1, 2));
                ch.axis_descr.push(fix);
            }
            m.characteristic.push(ch);
        }
        10 | 11 => {
            blockname = "TYPEDEF_CHARACTERISTIC";
            rl.fnc_values = Some(FncValues::new(1, dtype, IndexMode::RowDir, AddrType::Direct));
            let ctype = if okind == 10 { CharacteristicType::Value } else { CharacteristicType::Ascii };
            let mut tc = TypedefCharacteristic::new(s(name), s(""), ctype, s(rlname), 0.0, conv, lo, hi);
            if okind == 11 {
                tc.number = Some(Number::new(4));
            }
            m.typedef_characteristic.push(tc);
        }
        2 => {
            blockname = "AXIS_PTS";
            rl.axis_pts_x = Some(AxisPtsDim::new(1, dtype, IndexOrder::IndexIncr, AddrType::Direct));
            m.axis_pts.push(AxisPts::new(
                s(name), s(""), 0, s("NO_INPUT_QUANTITY"), s(rlname), 0.0, conv, 2, lo, hi,
            ));
        }
        3 => {
            blockname = "AXIS_DESCR";
            rl.fnc_values = Some(FncValues::new(1, DataType::Float64Ieee, IndexMode::RowDir, AddrType::Direct));
            rl.axis_pts_x = Some(AxisPtsDim::new(2, dtype, IndexOrder::IndexIncr, AddrType::Direct));
            let mut ch = Characteristic::new(
                s(name), s(""), CharacteristicType::Curve, 0, s(rlname), 0.0, s("NO_COMPU_METHOD"), 0.0, 0.0,
            );
            ch.axis_descr.push(AxisDescr::new(
                AxisDescrAttribute::StdAxis, s("NO_INPUT_QUANTITY"), conv, 2, lo, hi,
            ));
            m.characteristic.push(ch);
        }
        5 | 6 => {
            // a standard axis that is not the first axis: MAP with X = FIX_AXIS, Y = STD_AXIS (5);
            // CUBOID with X = FIX_AXIS, Y = STD_AXIS within its limits, Z = STD_AXIS (6).  The record layout gives the
            // other axes a different data type, so the decision shows which AXIS_PTS_<dim> entry is consulted.
            blockname = "AXIS_DESCR";
            let other = if c[1].as_int() >= 8 { DataType::Ubyte } else { DataType::Float64Ieee };
            rl.fnc_values = Some(FncValues::new(1, DataType::Float64Ieee, IndexMode::RowDir, AddrType::Direct));
            rl.axis_pts_x = Some(AxisPtsDim::new(2, other, IndexOrder::IndexIncr, AddrType::Direct));
            let ctype = if okind == 5 { CharacteristicType::Map } else { CharacteristicType::Cuboid };
            let mut ch = Characteristic::new(s(name), s(""), ctype, 0, s(rlname), 0.0, s("NO_COMPU_METHOD"), 0.0, 0.0);
            let mut fix = AxisDescr::new(AxisDescrAttribute::FixAxis, s("NO_INPUT_QUANTITY"), s("NO_COMPU_METHOD"), 2, 0.0, 1.0);
            fix.fix_axis_par_dist = Some(FixAxisParDist::new(0, 1, 2));
            ch.axis_descr.push(fix);
            if okind == 5 {
                rl.axis_pts_y = Some(AxisPtsDim::new(3, dtype, IndexOrder::IndexIncr, AddrType::Direct));
            } else {
                rl.axis_pts_y = Some(AxisPtsDim::new(3, DataType::Ubyte, IndexOrder::IndexIncr, AddrType::Direct));
                rl.axis_pts_z = Some(AxisPtsDim::new(4, dtype, IndexOrder::IndexIncr, AddrType::Direct));
                ch.axis_descr.push(AxisDescr::new(
                    AxisDescrAttribute::StdAxis, s("NO_INPUT_QUANTITY"), s("NO_COMPU_METHOD"), 2, 0.0, 255.0,
                ));
            }
            ch.axis_descr.push(AxisDescr::new(
                AxisDescrAttribute::StdAxis, s("NO_INPUT_QUANTITY"), conv, 2, lo, hi,
            ));
            m.characteristic.push(ch);
        }
        _ => {
            blockname = "TYPEDEF_MEASUREMENT";
            m.typedef_measurement.push(TypedefMeasurement::new(s(name), s(""), dtype, conv, 0, 0.0, lo, hi));
        }
    }
    m.record_layout.push(rl);
    blockname
}

pub fn run(case: &Sx) -> Sx {
    let c = case.as_list();
    let dtype = dt(c[1].as_int());
    let cm = mk_cm(c[2].as_int(), c[3].as_list());
    let calc = verif_hooks::calc_compu_method_limits(cm.as_ref(), dtype);

    let mut a2l = a2lfile::new();
    let blockname = fill_module(&mut a2l.project.module[0], c, "obj", "rl");
    let log = a2l.check();
    let mut err = 0;
    let mut other = vec![];
    for e in &log {
        match e {
            A2lError::LimitCheckError { item_name, blockname: b, calculated_lower_limit, calculated_upper_limit, .. } => {
                if item_name == "obj" && b == blockname {
                    err += 1;
                    // the values reported to the user are the calculated ones
                    assert!(calculated_lower_limit.to_bits() == calc.0.to_bits() || calc.0.is_nan());
                    assert!(calculated_upper_limit.to_bits() == calc.1.to_bits() || calc.1.is_nan());
                } else {
                    other.push(format!("{e}"));
                }
            }
            _ => other.push(format!("{e}")),
        }
    }
    if !other.is_empty() {
        return Sx::L(vec![Sx::s("UNEXPECTED"), Sx::s(&other.join(" | "))]);
    }
    Sx::L(vec![Sx::I(err), bits(calc.0), bits(calc.1)])
}

/// C12M: several cases in ONE file, one MODULE per case, every module with a compu method of the same name "cm" and an
/// object of its own name; one check() for the file.  answer ::= ( i<limit errors reported for the object of module k>* )
pub fn run_multi(case: &Sx) -> Sx {
    let cases = case.as_list();
    let mut a2l = a2lfile::new();
    let mut names = vec![];
    for (k, c) in cases.iter().enumerate() {
        if k > 0 {
            a2l.project.module.push(Module::new(format!("mod{k}"), s("")));
        }
        let name = format!("obj{k}");
        let blockname = fill_module(&mut a2l.project.module[k], c.as_list(), &name, "rl");
        names.push((name, blockname));
    }
    let log = a2l.check();
    let mut errs = vec![0i128; cases.len()];
    let mut other = vec![];
    for e in &log {
        match e {
            A2lError::LimitCheckError { item_name, blockname: b, .. } => {
                match names.iter().position(|(n, bn)| n == item_name && bn == b) {
                    Some(k) => errs[k] += 1,
                    None => other.push(format!("{e}")),
                }
            }
            _ => other.push(format!("{e}")),
        }
    }
    if !other.is_empty() {
        return Sx::L(vec![Sx::s("UNEXPECTED"), Sx::s(&other.join(" | "))]);
    }
    Sx::L(errs.into_iter().map(Sx::I).collect())
}
