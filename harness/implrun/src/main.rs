//! Runs case files on the real a2lfile implementation.
//! usage: implrun <KIND>   (cases on stdin, one s-expression per line; one answer line each)
mod c03;
mod c08;
mod c12;
mod c13;
mod c17;
mod dump_gen;
mod ifdata_case;
mod incl;
mod load;
mod modelops;
mod modops;
mod edit;
mod sx;

use std::io::{BufRead, Write};
use sx::Sx;

fn main() {
    let kind = std::env::args().nth(1).expect("usage: implrun <KIND>");
    // silence the default panic message; panics are part of the observed outcome
    std::panic::set_hook(Box::new(|_| {}));
    let stdin = std::io::stdin();
    let stdout = std::io::stdout();
    let mut out = stdout.lock();
    for line in stdin.lock().lines() {
        let line = line.unwrap();
        if line.trim().is_empty() {
            continue;
        }
        let case = Sx::parse(&line);
        let res = match kind.as_str() {
            "C03" => c03::run(&case),
            "C08" => c08::run(&case),
            "CHECK" => modelops::run_check(&case),
            "MERGE" => modelops::run_merge(&case),
            "CLEANUP" => modelops::run_cleanup(&case),
            "MERGESNI" => modelops::run_merge_sni(&case),
            "C12" => c12::run(&case),
            "C12M" => c12::run_multi(&case),
            "C13" => c13::run(&case),
            "C17" => c17::run(&case),
            "C14" | "C15" => modops::run(&case),
            "IFDATA" => ifdata_case::run(&case),
            "INCL" => incl::run(&case),
            "LOADINC" => incl::run_loadinc(&case),
            "LOAD" => load::run_load(&case),
            "LOADCLEAN" => load::run_loadclean(&case),
            "BANNER" => load::run_banner(&case),
            "SORTDOC" => load::run_sortdoc(&case),
            "EDIT" => edit::run(&case),
            "TOKENS" => load::run_tokens(&case),
            _ => panic!("unknown case kind {kind}"),
        };
        let mut s = String::new();
        res.print(&mut s);
        writeln!(out, "{s}").unwrap();
    }
}
