//! C05, edit locality: a document is loaded, then changed through the public API one object at a time; the text is
//! written after every step.  Case: ( s<text> ( op* ) ), op = ( "push" i<kind> s<name> ) | ( "remove" i<kind> s<name> )
//! | ( "swapremove" i<kind> s<name> ) | ( "set" i<kind> s<name> s<new long identifier> ).  Kinds index the named lists of
//! MODULE in alphabetical order (as in modops.rs).  Answer: ( OK s<text after load> s<text after op 1> .. ).
use crate::sx::Sx;
use a2lfile::*;
use std::panic::{catch_unwind, AssertUnwindSafe};

fn s(x: &str) -> String {
    x.to_string()
}

macro_rules! with_list {
    ($m:expr, $k:expr, $l:ident, $body:expr) => {
        match $k {
            0 => { let $l = &mut $m.axis_pts; $body }
            1 => { let $l = &mut $m.blob; $body }
            2 => { let $l = &mut $m.characteristic; $body }
            3 => { let $l = &mut $m.compu_method; $body }
            4 => { let $l = &mut $m.compu_tab; $body }
            5 => { let $l = &mut $m.compu_vtab; $body }
            6 => { let $l = &mut $m.compu_vtab_range; $body }
            7 => { let $l = &mut $m.frame; $body }
            8 => { let $l = &mut $m.function; $body }
            9 => { let $l = &mut $m.group; $body }
            10 => { let $l = &mut $m.instance; $body }
            11 => { let $l = &mut $m.measurement; $body }
            13 => { let $l = &mut $m.transformer; $body }
            14 => { let $l = &mut $m.typedef_axis; $body }
            15 => { let $l = &mut $m.typedef_blob; $body }
            16 => { let $l = &mut $m.typedef_characteristic; $body }
            17 => { let $l = &mut $m.typedef_measurement; $body }
            18 => { let $l = &mut $m.typedef_structure; $body }
            19 => { let $l = &mut $m.unit; $body }
            _ => panic!("case format: list index"),
        }
    };
}

pub(crate) fn push_new(m: &mut Module, k: usize, n: String) {
    match k {
        0 => m.axis_pts.push(AxisPts::new(n, s(""), 0, s("NO_INPUT_QUANTITY"), s("rl"), 0.0, s("NO_COMPU_METHOD"), 1, 0.0, 1.0)),
        1 => m.blob.push(Blob::new(n, s(""), 0, 1)),
        2 => m.characteristic.push(Characteristic::new(n, s(""), CharacteristicType::Value, 0, s("rl"), 0.0, s("NO_COMPU_METHOD"), 0.0, 1.0)),
        3 => m.compu_method.push(CompuMethod::new(n, s(""), ConversionType::Identical, s("%4.2"), s(""))),
        4 => m.compu_tab.push(CompuTab::new(n, s(""), ConversionType::TabIntp, 0)),
        5 => m.compu_vtab.push(CompuVtab::new(n, s(""), ConversionType::TabVerb, 0)),
        6 => m.compu_vtab_range.push(CompuVtabRange::new(n, s(""), 0)),
        7 => m.frame.push(Frame::new(n, s(""), 1, 1)),
        8 => m.function.push(Function::new(n, s(""))),
        9 => m.group.push(Group::new(n, s(""))),
        10 => m.instance.push(Instance::new(n, s(""), s("td"), 0)),
        11 => m.measurement.push(Measurement::new(n, s(""), DataType::Ubyte, s("NO_COMPU_METHOD"), 0, 0.0, 0.0, 255.0)),
        13 => m.transformer.push(Transformer::new(n, s("1"), s(""), s(""), 1, TransformerTrigger::OnChange, s("NO_INVERSE_TRANSFORMER"))),
        14 => m.typedef_axis.push(TypedefAxis::new(n, s(""), s("NO_INPUT_QUANTITY"), s("rl"), 0.0, s("NO_COMPU_METHOD"), 1, 0.0, 1.0)),
        15 => m.typedef_blob.push(TypedefBlob::new(n, s(""), 1)),
        16 => m.typedef_characteristic.push(TypedefCharacteristic::new(n, s(""), CharacteristicType::Value, s("rl"), 0.0, s("NO_COMPU_METHOD"), 0.0, 1.0)),
        17 => m.typedef_measurement.push(TypedefMeasurement::new(n, s(""), DataType::Ubyte, s("NO_COMPU_METHOD"), 0, 0.0, 0.0, 255.0)),
        18 => m.typedef_structure.push(TypedefStructure::new(n, s(""), 1)),
        19 => m.unit.push(Unit::new(n, s(""), s(""), UnitType::Derived)),
        _ => panic!("case format: list index"),
    }
}

macro_rules! li {
    ($l:expr, $name:expr, $v:expr) => {
        if let Some(x) = $l.get_mut($name) {
            x.long_identifier = $v;
        }
    };
}

fn set_li(m: &mut Module, k: usize, name: &str, v: String) {
    match k {
        0 => li!(m.axis_pts, name, v),
        1 => li!(m.blob, name, v),
        2 => li!(m.characteristic, name, v),
        3 => li!(m.compu_method, name, v),
        4 => li!(m.compu_tab, name, v),
        5 => li!(m.compu_vtab, name, v),
        6 => li!(m.compu_vtab_range, name, v),
        7 => li!(m.frame, name, v),
        8 => li!(m.function, name, v),
        9 => li!(m.group, name, v),
        10 => li!(m.instance, name, v),
        11 => li!(m.measurement, name, v),
        14 => li!(m.typedef_axis, name, v),
        15 => li!(m.typedef_blob, name, v),
        16 => li!(m.typedef_characteristic, name, v),
        17 => li!(m.typedef_measurement, name, v),
        18 => li!(m.typedef_structure, name, v),
        19 => li!(m.unit, name, v),
        _ => panic!("case format: list index"),
    }
}

pub fn run(case: &Sx) -> Sx {
    let c = case.as_list();
    let text = c[0].as_str();
    let ops = c[1].as_list().to_vec();
    let r = catch_unwind(AssertUnwindSafe(|| {
        let (mut a2l, _log) = match a2lfile::load_from_string(&text, None, false) {
            Ok(v) => v,
            Err(e) => return Sx::L(vec![Sx::s("ERR"), Sx::s(&format!("{e}"))]),
        };
        let mut out = vec![Sx::s("OK"), Sx::s(&a2l.write_to_string())];
        for op in &ops {
            let o = op.as_list();
            let tag = o[0].as_str();
            let k = o[1].as_int() as usize;
            let name = o[2].as_str();
            let m = &mut a2l.project.module[0];
            match tag.as_str() {
                "push" => push_new(m, k, name),
                "remove" => with_list!(m, k, l, { l.retain(|x| x.get_name() != name); }),
                "swapremove" => with_list!(m, k, l, { l.swap_remove(&name); }),
                "set" => {
                    let v = o[3].as_str();
                    if k == 13 {
                        if let Some(x) = m.transformer.get_mut(&name) {
                            x.version = v;
                        }
                    } else {
                        set_li(m, k, &name, v);
                    }
                }
                _ => panic!("case format: op"),
            }
            out.push(Sx::s(&a2l.write_to_string()));
        }
        Sx::L(out)
    }));
    r.unwrap_or_else(|_| Sx::L(vec![Sx::s("PANIC")]))
}
