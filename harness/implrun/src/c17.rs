//! C17: text encodings. case ::= ( s<file bytes> s<expected text (UTF-8) or empty> i<check_load 0|1> )
//! answer ::= ( s<decode_raw_bytes(bytes)> s<after BOM removal as load() does> i<load(path) agrees with load_from_string(expected)> s<note> )
use crate::sx::Sx;
use std::panic::{catch_unwind, AssertUnwindSafe};

fn outcome(r: &Result<(a2lfile::A2lFile, Vec<a2lfile::A2lError>), a2lfile::A2lError>) -> String {
    match r {
        Ok((_, log)) => format!("OK log={}", log.len()),
        Err(e) => {
            // the file name differs between the two entry points: compare the variant only
            let s = format!("{e:?}");
            format!("ERR {}", s.split(|c: char| !c.is_alphanumeric()).next().unwrap_or(""))
        }
    }
}

pub fn run(case: &Sx) -> Sx {
    let c = case.as_list();
    let bytes = c[0].as_bytes().to_vec();
    let expected = String::from_utf8_lossy(c[1].as_bytes()).into_owned();
    let check_load = c[2].as_int() != 0;
    let dec = match catch_unwind(AssertUnwindSafe(|| a2lfile::verif_hooks::decode_raw_bytes(&bytes))) {
        Ok(d) => d,
        Err(_) => return Sx::L(vec![Sx::s("PANIC")]),
    };
    // the text that load() hands to the tokenizer: read back through the real loader::load
    let dir = std::path::Path::new("/verif/build/tmp");
    std::fs::create_dir_all(dir).unwrap();
    let tpath = dir.join(format!("c17t_{}.a2l", std::process::id()));
    std::fs::write(&tpath, &bytes).unwrap();
    let loaded = catch_unwind(AssertUnwindSafe(|| a2lfile::verif_hooks::load_text(&tpath)));
    let _ = std::fs::remove_file(&tpath);
    let stripped = match loaded {
        Ok(Some(t)) => t,
        Ok(None) => return Sx::L(vec![Sx::s("LOADFAIL")]),
        Err(_) => return Sx::L(vec![Sx::s("PANIC")]),
    };
    let mut agree = 1;
    let mut note = String::new();
    if check_load {
        let path = dir.join(format!("c17_{}.a2l", std::process::id()));
        std::fs::write(&path, &bytes).unwrap();
        let from_file = catch_unwind(AssertUnwindSafe(|| a2lfile::load(&path, None, false)));
        let from_str = catch_unwind(AssertUnwindSafe(|| a2lfile::load_from_string(&expected, None, false)));
        let _ = std::fs::remove_file(&path);
        match (from_file, from_str) {
            (Ok(a), Ok(b)) => {
                let (oa, ob) = (outcome(&a), outcome(&b));
                let same = match (&a, &b) {
                    (Ok((fa, _)), Ok((fb, _))) => fa == fb && fa.write_to_string() == fb.write_to_string(),
                    (Err(_), Err(_)) => true,
                    _ => false,
                };
                if !(same && oa == ob) {
                    agree = 0;
                    note = format!("file: {oa} / string: {ob}");
                }
            }
            _ => {
                return Sx::L(vec![Sx::s("PANIC")]);
            }
        }
    }
    Sx::L(vec![Sx::S(dec.into_bytes()), Sx::S(stripped.into_bytes()), Sx::I(agree), Sx::s(&note)])
}
