//! C03: loading never panics. case ::= ( s<bytes> i<strict> <optstr a2ml_spec> i<entry 0=load_from_string 1=load_fragment 2=load(file)> )
//! answer ::= ( s<OK|ERR|PANIC> s<variant> )
use crate::sx::Sx;
use std::panic::{catch_unwind, AssertUnwindSafe};

fn variant(e: &a2lfile::A2lError) -> String {
    let s = format!("{e:?}");
    let mut out = String::new();
    for part in s.split(|c: char| !c.is_alphanumeric()).filter(|p| !p.is_empty()).take(4) {
        if part.chars().next().map_or(false, |c| c.is_uppercase()) {
            out.push_str(part);
            out.push(' ');
        }
    }
    out.trim().to_string()
}

pub fn run(case: &Sx) -> Sx {
    let c = case.as_list();
    let bytes = c[0].as_bytes().to_vec();
    let strict = c[1].as_int() != 0;
    let spec: Option<String> = c[2].as_list().first().map(|s| s.as_str());
    let entry = c[3].as_int();
    let text = String::from_utf8_lossy(&bytes).into_owned();
    // run in a thread with the default main-thread stack size (8 MiB), as an application would
    let handle = std::thread::Builder::new()
        .stack_size(8 * 1024 * 1024)
        .spawn(move || {
            catch_unwind(AssertUnwindSafe(|| match entry {
                0 => a2lfile::load_from_string(&text, spec, strict).map(|_| ()),
                1 => a2lfile::load_fragment(&text, spec).map(|_| ()),
                _ => {
                    let dir = std::path::Path::new("/verif/build/tmp");
                    std::fs::create_dir_all(dir).unwrap();
                    let path = dir.join(format!("c03_{}_{:?}.a2l", std::process::id(), std::thread::current().id()));
                    std::fs::write(&path, &bytes).unwrap();
                    let r = a2lfile::load(&path, spec, strict).map(|_| ());
                    let _ = std::fs::remove_file(&path);
                    r
                }
            }))
        })
        .unwrap();
    match handle.join() {
        Ok(Ok(Ok(()))) => Sx::L(vec![Sx::s("OK"), Sx::s("")]),
        Ok(Ok(Err(e))) => Sx::L(vec![Sx::s("ERR"), Sx::s(&variant(&e))]),
        _ => Sx::L(vec![Sx::s("PANIC"), Sx::s("")]),
    }
}
