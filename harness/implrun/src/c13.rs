//! ItemList histories on the real ItemList<Measurement> (public API only).
use crate::sx::Sx;
use a2lfile::{DataType, ItemList, Measurement};
use std::panic::{catch_unwind, AssertUnwindSafe};

fn mk(item: &Sx) -> Measurement {
    let l = item.as_list();
    Measurement::new(
        l[0].as_str(),
        format!("{}", l[1].as_int()),
        DataType::Ubyte,
        "NO_COMPU_METHOD".to_string(),
        0,
        0.0,
        0.0,
        255.0,
    )
}

fn enc_item(m: &Measurement) -> Sx {
    Sx::L(vec![
        Sx::s(m.get_name()),
        Sx::I(m.long_identifier.parse::<i128>().unwrap()),
    ])
}
use a2lfile::A2lObjectName;

fn pay(m: &Measurement) -> i128 {
    m.long_identifier.parse::<i128>().unwrap()
}

fn observe(alpha: &[String], l: &ItemList<Measurement>) -> Sx {
    let mut keys: Vec<&String> = l.keys().collect();
    keys.sort();
    let by_ref: Vec<Sx> = (&*l).into_iter().map(enc_item).collect();
    let by_iter: Vec<Sx> = l.iter().map(enc_item).collect();
    assert_eq!(by_ref, by_iter);
    assert_eq!(l.is_empty(), l.len() == 0);
    // positional access agrees with iteration
    for (i, m) in l.iter().enumerate() {
        assert!(std::ptr::eq(m, &l[i]));
    }
    Sx::L(vec![
        Sx::L(by_iter),
        Sx::n(l.len()),
        Sx::opt(l.first().map(enc_item)),
        Sx::opt(l.last().map(enc_item)),
        Sx::L(alpha
            .iter()
            .map(|k| {
                Sx::L(vec![
                    Sx::opt(l.index(k).map(Sx::n)),
                    Sx::opt(l.get(k).map(enc_item)),
                    Sx::b(l.contains_key(k)),
                ])
            })
            .collect()),
        Sx::L(alpha
            .iter()
            .filter(|k| keys.contains(k))
            .map(|k| Sx::s(k))
            .collect()),
        Sx::n(keys.len()),
    ])
}

pub fn run(case: &Sx) -> Sx {
    let c = case.as_list();
    let alpha: Vec<String> = c[0].as_list().iter().map(|x| x.as_str()).collect();
    let mut l: ItemList<Measurement> = ItemList::new();
    let mut out = vec![];
    for op in c[1].as_list() {
        let o = op.as_list();
        let tag = o[0].as_str();
        let res = catch_unwind(AssertUnwindSafe(|| -> Sx {
            match tag.as_str() {
                "push" => {
                    l.push(mk(&o[1]));
                    Sx::L(vec![])
                }
                "pop" => Sx::L(vec![Sx::opt(l.pop().as_ref().map(enc_item))]),
                "clear" => {
                    l.clear();
                    Sx::L(vec![])
                }
                "swap_remove" => {
                    Sx::L(vec![Sx::opt(l.swap_remove(&o[1].as_str()).as_ref().map(enc_item))])
                }
                "swap_remove_idx" => Sx::L(vec![Sx::opt(
                    l.swap_remove_idx(o[1].as_usize()).as_ref().map(enc_item),
                )]),
                "retain" => {
                    let p = o[1].as_list();
                    let pt = p[0].as_str();
                    match pt.as_str() {
                        "even" => l.retain(|m| pay(m) % 2 == 0),
                        "all" => l.retain(|_| true),
                        "none" => l.retain(|_| false),
                        "namelt" => {
                            let s = p[1].as_str();
                            l.retain(|m| m.get_name().as_bytes() < s.as_bytes())
                        }
                        "namene" => {
                            let s = p[1].as_str();
                            l.retain(|m| m.get_name() != s)
                        }
                        _ => panic!("case format"),
                    }
                    Sx::L(vec![])
                }
                "truncate" => {
                    l.truncate(o[1].as_usize());
                    Sx::L(vec![])
                }
                "sort_by" => {
                    match o[1].as_str().as_str() {
                        "nameasc" => {
                            l.sort_by(|a, b| a.get_name().as_bytes().cmp(b.get_name().as_bytes()))
                        }
                        "namedesc" => {
                            l.sort_by(|a, b| b.get_name().as_bytes().cmp(a.get_name().as_bytes()))
                        }
                        "payasc" => l.sort_by(|a, b| pay(a).cmp(&pay(b))),
                        "consteq" => l.sort_by(|_, _| std::cmp::Ordering::Equal),
                        _ => panic!("case format"),
                    }
                    Sx::L(vec![])
                }
                "extend" => {
                    l.extend(o[1].as_list().iter().map(mk));
                    Sx::L(vec![])
                }
                "collect" => {
                    l = o[1].as_list().iter().map(mk).collect();
                    Sx::L(vec![])
                }
                "rename" => {
                    l.rename_item(o[1].as_usize(), &o[2].as_str());
                    Sx::L(vec![])
                }
                _ => panic!("case format: unknown op {tag}"),
            }
        }));
        match res {
            Ok(r) => {
                let obs = catch_unwind(AssertUnwindSafe(|| observe(&alpha, &l)));
                match obs {
                    Ok(obs) => out.push(Sx::L(vec![r, obs])),
                    Err(_) => {
                        out.push(Sx::L(vec![Sx::s("PANIC")]));
                        break;
                    }
                }
            }
            Err(_) => {
                out.push(Sx::L(vec![Sx::s("PANIC")]));
                break;
            }
        }
    }
    Sx::L(out)
}
