//! Case kind IFDATA (property C18): IF_DATA blocks interpreted according to an A2ML definition.
//!
//! case   ::= ( s<A2ML text for the file's /begin A2ML block, empty = no block>
//!              s<built-in specification text (a2ml_spec argument), empty = None>
//!              ( s<text of one complete /begin IF_DATA ... /end IF_DATA block>* )
//!              i<strict 0|1> )
//! The handler builds the document
//!      ASAP2_VERSION 1 71
//!      /begin PROJECT p ""
//!      /begin MODULE m ""
//!      /begin A2ML                 (only when the A2ML text is not empty)
//!      <A2ML text>
//!      /end A2ML
//!      <IF_DATA block>             (each block starts on its own line)
//!      /end MODULE
//!      /end PROJECT
//! and calls load_from_string(document, spec, strict).
//!
//! answer ::= ( sOK ( <block>* ) ( s<diagnostic>* ) s<written text> <rt> <cleanup> )
//!          | ( sERR s<variant> s<display text> )
//!          | ( sPANIC s<stage> )              stage = load | dump | write
//! block  ::= ( i<ifdata_valid> <opt gifd> )   one per element of module[0].if_data, in order;
//!            <opt gifd> = ( ) | ( <dump_gen::dump_gifd of ifdata_items> )   (as in the LOAD dump of IfData)
//! diagnostic = "<Variant>: <display text>" of each log message of the first load
//! rt     ::= ( sOK i<reloaded model == model> i<second written text == first> )
//!          | ( sERR s<variant: display text> ) | ( sPANIC )      (reload of the written text, same spec argument, same strict)
//! cleanup::= ( sOK ( i<ifdata_valid of each remaining block>* ) s<written text after ifdata_cleanup()> ) | ( sPANIC )
//! Every library call runs inside catch_unwind.
use crate::dump_gen::dump_gifd;
use crate::sx::Sx;
use a2lfile::{A2lError, A2lFile};
use std::panic::{catch_unwind, AssertUnwindSafe};

/// name of the innermost error variant (taken from the Debug rendering, which starts with the variant name)
fn variant_of(e: &A2lError) -> String {
    let dbg = match e {
        A2lError::ParserError { parser_error } => format!("{parser_error:?}"),
        A2lError::TokenizerError { tokenizer_error } => format!("{tokenizer_error:?}"),
        other => format!("{other:?}"),
    };
    dbg.chars()
        .take_while(|c| c.is_ascii_alphanumeric() || *c == '_')
        .collect()
}

fn load(text: &str, spec: &Option<String>, strict: bool) -> std::thread::Result<Result<(A2lFile, Vec<A2lError>), A2lError>> {
    catch_unwind(AssertUnwindSafe(|| {
        a2lfile::load_from_string(text, spec.clone(), strict)
    }))
}

pub fn build_document(a2ml: &str, blocks: &[String]) -> String {
    let mut doc = String::new();
    doc.push_str("ASAP2_VERSION 1 71\n/begin PROJECT p \"\"\n/begin MODULE m \"\"\n");
    if !a2ml.is_empty() {
        doc.push_str("/begin A2ML\n");
        doc.push_str(a2ml);
        doc.push_str("\n/end A2ML\n");
    }
    for b in blocks {
        doc.push_str(b);
        doc.push('\n');
    }
    doc.push_str("/end MODULE\n/end PROJECT\n");
    doc
}

pub fn run(case: &Sx) -> Sx {
    let c = case.as_list();
    let a2ml = c[0].as_str();
    let spec_text = c[1].as_str();
    let blocks: Vec<String> = c[2].as_list().iter().map(|b| b.as_str()).collect();
    let strict = c[3].as_int() != 0;
    let spec: Option<String> = if spec_text.is_empty() {
        None
    } else {
        Some(spec_text)
    };
    let doc = build_document(&a2ml, &blocks);

    let (file, log) = match load(&doc, &spec, strict) {
        Err(_) => return Sx::L(vec![Sx::s("PANIC"), Sx::s("load")]),
        Ok(Err(e)) => {
            return Sx::L(vec![
                Sx::s("ERR"),
                Sx::s(&variant_of(&e)),
                Sx::s(&e.to_string()),
            ])
        }
        Ok(Ok(v)) => v,
    };

    let Ok(dump) = catch_unwind(AssertUnwindSafe(|| {
        let mut out = vec![];
        if let Some(module) = file.project.module.first() {
            for ifd in &module.if_data {
                out.push(Sx::L(vec![
                    Sx::b(ifd.ifdata_valid),
                    Sx::opt(ifd.ifdata_items.as_ref().map(dump_gifd)),
                ]));
            }
        }
        Sx::L(out)
    })) else {
        return Sx::L(vec![Sx::s("PANIC"), Sx::s("dump")]);
    };

    let diags = Sx::L(
        log.iter()
            .map(|e| Sx::s(&format!("{}: {}", variant_of(e), e)))
            .collect(),
    );

    let Ok(text1) = catch_unwind(AssertUnwindSafe(|| file.write_to_string())) else {
        return Sx::L(vec![Sx::s("PANIC"), Sx::s("write")]);
    };

    // round trip: reload the written text with the same specification argument
    let rt = match load(&text1, &spec, strict) {
        Err(_) => Sx::L(vec![Sx::s("PANIC")]),
        Ok(Err(e)) => Sx::L(vec![
            Sx::s("ERR"),
            Sx::s(&format!("{}: {}", variant_of(&e), e)),
        ]),
        Ok(Ok((file2, _))) => {
            match catch_unwind(AssertUnwindSafe(|| (file2 == file, file2.write_to_string()))) {
                Err(_) => Sx::L(vec![Sx::s("PANIC")]),
                Ok((equal, text2)) => Sx::L(vec![Sx::s("OK"), Sx::b(equal), Sx::b(text2 == text1)]),
            }
        }
    };

    // ifdata_cleanup on a copy of the model
    let cleanup = match catch_unwind(AssertUnwindSafe(|| {
        let mut copy = file.clone();
        copy.ifdata_cleanup();
        let mut flags = vec![];
        if let Some(module) = copy.project.module.first() {
            for ifd in &module.if_data {
                flags.push(Sx::b(ifd.ifdata_valid));
            }
        }
        (flags, copy.write_to_string())
    })) {
        Err(_) => Sx::L(vec![Sx::s("PANIC")]),
        Ok((flags, text)) => Sx::L(vec![Sx::s("OK"), Sx::L(flags), Sx::s(&text)]),
    };

    Sx::L(vec![Sx::s("OK"), dump, diags, Sx::s(&text1), rt, cleanup])
}
