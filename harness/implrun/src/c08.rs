//! C08: merge of one or several namespaces on the real library, in the vocabulary of coq/theories/Lib/Merge.v.
//!   case ( sNS  ( ( i<nsid> ( item* ) ( item* ) )* ) )        -> ( sOK ( ( ( item* )* )* ) )   per namespace, per kind
//!   case ( sSEQ i<nsid> ( item* ) ( ( item* )* ) )            -> ( sOK ( ( item* )* ) )        several merges in a row
//!   case ( sGRP i<0 GROUP | 1 FUNCTION> ( grp* ) ( grp* ) )   -> ( sOK ( grp* ) )
//!   item ::= ( i<kind within the namespace> s<name> i<content id> )
//!   grp  ::= ( s<name> i<content id> ( olist olist olist olist ) )     olist ::= ( ) | ( ( s<member>* ) )
//! The elements are written as A2L text (references only to names that are never defined, so that no rename
//! table touches them), loaded with the public loader, merged with A2lFile::merge_modules and read back
//! through the public fields.
use crate::sx::Sx;
use a2lfile::{A2lFile, A2lObjectName};
use std::panic::{catch_unwind, AssertUnwindSafe};

pub const NS_KINDS: [&[&str]; 9] = [
    &["AXIS_PTS", "BLOB", "CHARACTERISTIC", "INSTANCE", "MEASUREMENT"],
    &["TYPEDEF_AXIS", "TYPEDEF_BLOB", "TYPEDEF_CHARACTERISTIC", "TYPEDEF_MEASUREMENT", "TYPEDEF_STRUCTURE"],
    &["COMPU_TAB", "COMPU_VTAB", "COMPU_VTAB_RANGE"],
    &["COMPU_METHOD"],
    &["UNIT"],
    &["RECORD_LAYOUT"],
    &["FRAME"],
    &["TRANSFORMER"],
    &["MEMORY_SEGMENT"],
];

fn element(tag: &str, n: &str, b: i128) -> String {
    match tag {
        "AXIS_PTS" => format!("/begin AXIS_PTS {n} \"b{b}\" 0x0 NO_INPUT_QUANTITY RL_X 0 NO_COMPU_METHOD 3 0 10 /end AXIS_PTS"),
        "BLOB" => format!("/begin BLOB {n} \"b{b}\" 0x0 16 /end BLOB"),
        "CHARACTERISTIC" => format!("/begin CHARACTERISTIC {n} \"b{b}\" VALUE 0x0 RL_X 0 NO_COMPU_METHOD 0 10 /end CHARACTERISTIC"),
        "INSTANCE" => format!("/begin INSTANCE {n} \"b{b}\" TD_X 0x0 /end INSTANCE"),
        "MEASUREMENT" => format!("/begin MEASUREMENT {n} \"b{b}\" UBYTE NO_COMPU_METHOD 0 0 0 255 /end MEASUREMENT"),
        "TYPEDEF_AXIS" => format!("/begin TYPEDEF_AXIS {n} \"b{b}\" NO_INPUT_QUANTITY RL_X 0 NO_COMPU_METHOD 3 0 10 /end TYPEDEF_AXIS"),
        "TYPEDEF_BLOB" => format!("/begin TYPEDEF_BLOB {n} \"b{b}\" 16 /end TYPEDEF_BLOB"),
        "TYPEDEF_CHARACTERISTIC" => {
            format!("/begin TYPEDEF_CHARACTERISTIC {n} \"b{b}\" VALUE RL_X 0 NO_COMPU_METHOD 0 10 /end TYPEDEF_CHARACTERISTIC")
        }
        "TYPEDEF_MEASUREMENT" => format!("/begin TYPEDEF_MEASUREMENT {n} \"b{b}\" UBYTE NO_COMPU_METHOD 0 0 0 255 /end TYPEDEF_MEASUREMENT"),
        "TYPEDEF_STRUCTURE" => format!("/begin TYPEDEF_STRUCTURE {n} \"b{b}\" 16 /end TYPEDEF_STRUCTURE"),
        "COMPU_TAB" => format!("/begin COMPU_TAB {n} \"b{b}\" TAB_INTP 1 1 1 /end COMPU_TAB"),
        "COMPU_VTAB" => format!("/begin COMPU_VTAB {n} \"b{b}\" TAB_VERB 1 1 \"v\" /end COMPU_VTAB"),
        "COMPU_VTAB_RANGE" => format!("/begin COMPU_VTAB_RANGE {n} \"b{b}\" 1 1 2 \"v\" /end COMPU_VTAB_RANGE"),
        "COMPU_METHOD" => format!("/begin COMPU_METHOD {n} \"b{b}\" IDENTICAL \"%6.3\" \"unit\" /end COMPU_METHOD"),
        "UNIT" => format!("/begin UNIT {n} \"b{b}\" \"u\" DERIVED /end UNIT"),
        "RECORD_LAYOUT" => format!("/begin RECORD_LAYOUT {n} FNC_VALUES {b} UBYTE ROW_DIR DIRECT /end RECORD_LAYOUT"),
        "FRAME" => format!("/begin FRAME {n} \"b{b}\" 1 2 /end FRAME"),
        "TRANSFORMER" => format!("/begin TRANSFORMER {n} \"b{b}\" \"d32\" \"d64\" 1 ON_CHANGE NO_INVERSE_TRANSFORMER /end TRANSFORMER"),
        "MEMORY_SEGMENT" => format!("/begin MEMORY_SEGMENT {n} \"b{b}\" DATA FLASH INTERN 0x0 0x100 -1 -1 -1 -1 -1 /end MEMORY_SEGMENT"),
        _ => panic!("unknown tag {tag}"),
    }
}

struct Item {
    kind: usize,
    name: String,
    body: i128,
}

fn items(x: &Sx) -> Vec<Item> {
    x.as_list()
        .iter()
        .map(|i| {
            let l = i.as_list();
            Item { kind: l[0].as_usize(), name: l[1].as_str(), body: l[2].as_int() }
        })
        .collect()
}

/// one file with one module holding the given namespaces (in the order given inside each kind)
fn file_text(parts: &[(usize, &[Item])], extra: &str) -> String {
    let mut body = String::new();
    let mut modpar = String::new();
    for (ns, list) in parts {
        for (k, tag) in NS_KINDS[*ns].iter().enumerate() {
            for it in list.iter().filter(|i| i.kind == k) {
                let e = element(tag, &it.name, it.body);
                if *tag == "MEMORY_SEGMENT" {
                    modpar.push_str(&e);
                    modpar.push('\n');
                } else {
                    body.push_str(&e);
                    body.push('\n');
                }
            }
        }
    }
    let mp = if parts.iter().any(|(ns, _)| *ns == 8) {
        format!("/begin MOD_PAR \"\"\n{modpar}/end MOD_PAR\n")
    } else {
        String::new()
    };
    format!("ASAP2_VERSION 1 71\n/begin PROJECT p \"\"\n/begin MODULE m \"\"\n{mp}{body}{extra}/end MODULE\n/end PROJECT\n")
}

fn load(text: &str) -> Result<A2lFile, Sx> {
    match catch_unwind(AssertUnwindSafe(|| a2lfile::load_from_string(text, None, true))) {
        Err(_) => Err(Sx::L(vec![Sx::s("PANIC"), Sx::s("load")])),
        Ok(Err(e)) => Err(Sx::L(vec![Sx::s("ERR"), Sx::s(&e.to_string())])),
        Ok(Ok((f, _))) => Ok(f),
    }
}

fn body_of(long_identifier: &str) -> i128 {
    long_identifier.get(1..).and_then(|s| s.parse::<i128>().ok()).unwrap_or(-1)
}

fn it(kind: usize, name: &str, body: i128) -> Sx {
    Sx::L(vec![Sx::n(kind), Sx::s(name), Sx::I(body)])
}

/// the namespace as the public fields of the module show it: one list per kind
fn project(file: &A2lFile, ns: usize) -> Sx {
    let m = &file.project.module[0];
    macro_rules! li {
        ($k:expr, $list:expr) => {
            Sx::L($list.iter().map(|e| it($k, e.get_name(), body_of(&e.long_identifier))).collect())
        };
    }
    let lists: Vec<Sx> = match ns {
        0 => vec![li!(0, m.axis_pts), li!(1, m.blob), li!(2, m.characteristic), li!(3, m.instance), li!(4, m.measurement)],
        1 => vec![
            li!(0, m.typedef_axis),
            li!(1, m.typedef_blob),
            li!(2, m.typedef_characteristic),
            li!(3, m.typedef_measurement),
            li!(4, m.typedef_structure),
        ],
        2 => vec![li!(0, m.compu_tab), li!(1, m.compu_vtab), li!(2, m.compu_vtab_range)],
        3 => vec![li!(0, m.compu_method)],
        4 => vec![li!(0, m.unit)],
        5 => vec![Sx::L(
            m.record_layout
                .iter()
                .map(|e| it(0, e.get_name(), e.fnc_values.as_ref().map(|f| f.position as i128).unwrap_or(-1)))
                .collect(),
        )],
        6 => vec![li!(0, m.frame)],
        7 => vec![Sx::L(m.transformer.iter().map(|e| it(0, e.get_name(), body_of(&e.version))).collect())],
        8 => vec![match &m.mod_par {
            Some(mp) => li!(0, mp.memory_segment),
            None => Sx::L(vec![]),
        }],
        _ => panic!("namespace id"),
    };
    Sx::L(lists)
}

fn merge(a: &mut A2lFile, b: &mut A2lFile) -> Result<(), Sx> {
    if catch_unwind(AssertUnwindSafe(|| a.merge_modules(b))).is_err() {
        return Err(Sx::L(vec![Sx::s("PANIC"), Sx::s("merge")]));
    }
    Ok(())
}

fn run_ns(case: &[Sx]) -> Result<Sx, Sx> {
    let parts = case[1].as_list();
    let mut pa = vec![];
    let mut pb = vec![];
    for p in parts {
        let l = p.as_list();
        pa.push((l[0].as_usize(), items(&l[1])));
        pb.push((l[0].as_usize(), items(&l[2])));
    }
    let ta = file_text(&pa.iter().map(|(n, v)| (*n, v.as_slice())).collect::<Vec<_>>(), "");
    let tb = file_text(&pb.iter().map(|(n, v)| (*n, v.as_slice())).collect::<Vec<_>>(), "");
    let mut a = load(&ta)?;
    let mut b = load(&tb)?;
    merge(&mut a, &mut b)?;
    Ok(Sx::L(vec![Sx::s("OK"), Sx::L(pa.iter().map(|(ns, _)| project(&a, *ns)).collect())]))
}

fn run_seq(case: &[Sx]) -> Result<Sx, Sx> {
    let ns = case[1].as_usize();
    let ia = items(&case[2]);
    let mut a = load(&file_text(&[(ns, ia.as_slice())], ""))?;
    for bx in case[3].as_list() {
        let ib = items(bx);
        let mut b = load(&file_text(&[(ns, ib.as_slice())], ""))?;
        merge(&mut a, &mut b)?;
    }
    Ok(Sx::L(vec![Sx::s("OK"), project(&a, ns)]))
}

struct Grp {
    name: String,
    rest: i128,
    lists: Vec<Option<Vec<String>>>,
}

fn grps(x: &Sx) -> Vec<Grp> {
    x.as_list()
        .iter()
        .map(|g| {
            let l = g.as_list();
            Grp {
                name: l[0].as_str(),
                rest: l[1].as_int(),
                lists: l[2]
                    .as_list()
                    .iter()
                    .map(|o| o.as_list().first().map(|v| v.as_list().iter().map(|s| s.as_str()).collect()))
                    .collect(),
            }
        })
        .collect()
}

const GROUP_LISTS: [&str; 4] = ["SUB_GROUP", "FUNCTION_LIST", "REF_CHARACTERISTIC", "REF_MEASUREMENT"];
const FUNCTION_LISTS: [&str; 4] = ["SUB_FUNCTION", "IN_MEASUREMENT", "LOC_MEASUREMENT", "OUT_MEASUREMENT"];

fn grp_text(which: usize, gs: &[Grp]) -> String {
    let (tag, names) = if which == 0 { ("GROUP", GROUP_LISTS) } else { ("FUNCTION", FUNCTION_LISTS) };
    let mut s = String::new();
    for g in gs {
        s.push_str(&format!("/begin {tag} {} \"b{}\"\n", g.name, g.rest));
        for (k, l) in g.lists.iter().enumerate() {
            if let Some(members) = l {
                s.push_str(&format!("/begin {} {} /end {}\n", names[k], members.join(" "), names[k]));
            }
        }
        s.push_str(&format!("/end {tag}\n"));
    }
    s
}

fn olist(l: Option<&Vec<String>>) -> Sx {
    Sx::opt(l.map(|v| Sx::L(v.iter().map(|s| Sx::s(s)).collect())))
}

fn run_grp(case: &[Sx]) -> Result<Sx, Sx> {
    let which = case[1].as_usize();
    let mut a = load(&file_text(&[], &grp_text(which, &grps(&case[2]))))?;
    let mut b = load(&file_text(&[], &grp_text(which, &grps(&case[3]))))?;
    merge(&mut a, &mut b)?;
    let m = &a.project.module[0];
    let out: Vec<Sx> = if which == 0 {
        m.group
            .iter()
            .map(|g| {
                Sx::L(vec![
                    Sx::s(g.get_name()),
                    Sx::I(body_of(&g.long_identifier)),
                    Sx::L(vec![
                        olist(g.sub_group.as_ref().map(|x| &x.identifier_list)),
                        olist(g.function_list.as_ref().map(|x| &x.name_list)),
                        olist(g.ref_characteristic.as_ref().map(|x| &x.identifier_list)),
                        olist(g.ref_measurement.as_ref().map(|x| &x.identifier_list)),
                    ]),
                ])
            })
            .collect()
    } else {
        m.function
            .iter()
            .map(|g| {
                Sx::L(vec![
                    Sx::s(g.get_name()),
                    Sx::I(body_of(&g.long_identifier)),
                    Sx::L(vec![
                        olist(g.sub_function.as_ref().map(|x| &x.identifier_list)),
                        olist(g.in_measurement.as_ref().map(|x| &x.identifier_list)),
                        olist(g.loc_measurement.as_ref().map(|x| &x.identifier_list)),
                        olist(g.out_measurement.as_ref().map(|x| &x.identifier_list)),
                    ]),
                ])
            })
            .collect()
    };
    Ok(Sx::L(vec![Sx::s("OK"), Sx::L(out)]))
}

pub fn run(case: &Sx) -> Sx {
    let c = case.as_list();
    let r = match c[0].as_str().as_str() {
        "NS" => run_ns(c),
        "SEQ" => run_seq(c),
        "GRP" => run_grp(c),
        other => panic!("C08 case kind {other}"),
    };
    match r {
        Ok(x) => x,
        Err(x) => x,
    }
}
