//! Whole-model operations on loaded files: CHECK, MERGE, CLEANUP (C08-C11).
//! CHECK   case ( s<text> )          -> ( sOK ( <report>* ) i<model unchanged> ) | ( sERR <diag> ) | ( sPANIC s<stage> )
//! MERGE   case ( s<textA> s<textB> ) -> ( sOK <node A after merge> ( <report>* ) ) | ( sERR .. ) | ( sPANIC s<stage> )
//! CLEANUP case ( s<text> )          -> ( sOK <node after> ( <report before>* ) ( <report after>* ) i<second run changes nothing> ) | ..
//! report ::= ( s<Variant> s<source_type> s<source_name> s<target_type> s<target_name> s<display text> )
use crate::dump_gen::dump_a2lfile;
use crate::sx::Sx;
use a2lfile::{A2lError, A2lFile};
use std::panic::{catch_unwind, AssertUnwindSafe};

fn report(e: &A2lError) -> Sx {
    let text = e.to_string();
    let (v, a, b, c, d): (&str, String, String, String, String) = match e {
        A2lError::CrossReferenceError { source_type, source_name, target_type, target_name, .. } => (
            "CrossReferenceError",
            source_type.clone(),
            source_name.clone(),
            target_type.clone(),
            target_name.clone(),
        ),
        A2lError::LimitCheckError { item_name, blockname, .. } => {
            ("LimitCheckError", blockname.clone(), item_name.clone(), String::new(), String::new())
        }
        A2lError::ContentError { item_name, blockname, .. } => {
            ("ContentError", blockname.clone(), item_name.clone(), String::new(), String::new())
        }
        A2lError::GroupStructureError { group_name, .. } => {
            ("GroupStructureError", "GROUP".to_string(), group_name.clone(), String::new(), String::new())
        }
        A2lError::NameCollisionError { item_name, blockname, .. } => {
            ("NameCollisionError", blockname.clone(), item_name.clone(), String::new(), String::new())
        }
        A2lError::NameCollisionError2 { item_name, blockname_1, blockname_2, .. } => {
            ("NameCollisionError2", blockname_1.clone(), item_name.clone(), blockname_2.clone(), String::new())
        }
        _ => ("Other", String::new(), String::new(), String::new(), String::new()),
    };
    Sx::L(vec![Sx::s(v), Sx::s(&a), Sx::s(&b), Sx::s(&c), Sx::s(&d), Sx::s(&text)])
}

fn load(text: &str) -> Result<A2lFile, Sx> {
    match catch_unwind(AssertUnwindSafe(|| a2lfile::load_from_string(text, None, false))) {
        Err(_) => Err(Sx::L(vec![Sx::s("PANIC"), Sx::s("load")])),
        Ok(Err(e)) => Err(Sx::L(vec![Sx::s("ERR"), Sx::s(&e.to_string())])),
        Ok(Ok((f, _))) => Ok(f),
    }
}

fn reports(file: &A2lFile) -> Result<Sx, Sx> {
    match catch_unwind(AssertUnwindSafe(|| file.check())) {
        Err(_) => Err(Sx::L(vec![Sx::s("PANIC"), Sx::s("check")])),
        Ok(v) => Ok(Sx::L(v.iter().map(report).collect())),
    }
}

pub fn run_check(case: &Sx) -> Sx {
    let text = case.as_list()[0].as_str();
    let file = match load(&text) {
        Ok(f) => f,
        Err(e) => return e,
    };
    let before = file.clone();
    match reports(&file) {
        Ok(r) => Sx::L(vec![Sx::s("OK"), r, Sx::b(before == file && before.write_to_string() == file.write_to_string())]),
        Err(e) => e,
    }
}

pub fn run_merge(case: &Sx) -> Sx {
    let c = case.as_list();
    let mut a = match load(&c[0].as_str()) {
        Ok(f) => f,
        Err(e) => return e,
    };
    let mut b = match load(&c[1].as_str()) {
        Ok(f) => f,
        Err(e) => return e,
    };
    if catch_unwind(AssertUnwindSafe(|| a.merge_modules(&mut b))).is_err() {
        return Sx::L(vec![Sx::s("PANIC"), Sx::s("merge")]);
    }
    let Ok(dump) = catch_unwind(AssertUnwindSafe(|| dump_a2lfile(&a))) else {
        return Sx::L(vec![Sx::s("PANIC"), Sx::s("dump")]);
    };
    match reports(&a) {
        Ok(r) => Sx::L(vec![Sx::s("OK"), dump, r]),
        Err(e) => e,
    }
}

pub fn run_cleanup(case: &Sx) -> Sx {
    let text = case.as_list()[0].as_str();
    let mut file = match load(&text) {
        Ok(f) => f,
        Err(e) => return e,
    };
    let before = match reports(&file) {
        Ok(r) => r,
        Err(e) => return e,
    };
    if catch_unwind(AssertUnwindSafe(|| file.cleanup())).is_err() {
        return Sx::L(vec![Sx::s("PANIC"), Sx::s("cleanup")]);
    }
    let Ok(dump) = catch_unwind(AssertUnwindSafe(|| dump_a2lfile(&file))) else {
        return Sx::L(vec![Sx::s("PANIC"), Sx::s("dump")]);
    };
    let after = match reports(&file) {
        Ok(r) => r,
        Err(e) => return e,
    };
    let mut again = file.clone();
    if catch_unwind(AssertUnwindSafe(|| again.cleanup())).is_err() {
        return Sx::L(vec![Sx::s("PANIC"), Sx::s("cleanup2")]);
    }
    let idem = again == file && again.write_to_string() == file.write_to_string();
    Sx::L(vec![Sx::s("OK"), dump, before, after, Sx::b(idem)])
}

/// MERGESNI case ( s<textA> s<textB> i<number of extra sort_new_items calls> )
///   -> ( sOK s<text written after merge + sort_new_items> s<text after the extra calls> ) | ( sERR .. ) | ( sPANIC s<stage> )
/// (C15: elements that a merge brings in are new elements; sort_new_items places them)
pub fn run_merge_sni(case: &Sx) -> Sx {
    let c = case.as_list();
    let mut a = match load(&c[0].as_str()) {
        Ok(f) => f,
        Err(e) => return e,
    };
    let mut b = match load(&c[1].as_str()) {
        Ok(f) => f,
        Err(e) => return e,
    };
    let extra = if c.len() > 2 { c[2].as_int() } else { 0 };
    if catch_unwind(AssertUnwindSafe(|| a.merge_modules(&mut b))).is_err() {
        return Sx::L(vec![Sx::s("PANIC"), Sx::s("merge")]);
    }
    if catch_unwind(AssertUnwindSafe(|| a.sort_new_items())).is_err() {
        return Sx::L(vec![Sx::s("PANIC"), Sx::s("sort_new_items")]);
    }
    let Ok(t1) = catch_unwind(AssertUnwindSafe(|| a.write_to_string())) else {
        return Sx::L(vec![Sx::s("PANIC"), Sx::s("write")]);
    };
    for _ in 0..extra {
        if catch_unwind(AssertUnwindSafe(|| a.sort_new_items())).is_err() {
            return Sx::L(vec![Sx::s("PANIC"), Sx::s("sort_new_items again")]);
        }
    }
    let Ok(t2) = catch_unwind(AssertUnwindSafe(|| a.write_to_string())) else {
        return Sx::L(vec![Sx::s("PANIC"), Sx::s("write again")]);
    };
    Sx::L(vec![Sx::s("OK"), Sx::s(&t1), Sx::s(&t2)])
}
